"""C18 -- hrepack preserves all content while changing only layout.

R = the real hrepack binary of the rebuilt library, run on generated HDF4 files x generated option combinations;
    input and outputs are read back with harness/drive_repack.c (an API-level content dumper of our own).
S = coq/RepackSpec.v: content tree equality + `meets` (the requested layout where applicable).
M = coq/RepackModel.v: parse_comp/parse_chunk/option table/options_get_info/decide, extracted to OCaml
    (extract/repack_main.ml).  R vs S decides violations; R vs M is the tie of the model to the code."""
import concurrent.futures
import hashlib
import json
import os
import shutil
import vcommon as vc

RULE = ("case = (generated HDF4 file, option set 1, option set 2).  Every number type (datasets, images, attributes, fields, "
        "scales) carries DFNT_LITEND or DFNT_NATIVE now and then; SDS and images are vgroup members under any tag "
        "vgroup_insert accepts (regenerated tables).  Files: 0-3 nested vgroups with class/attributes/"
        "annotations, 2-7 SDS (10 number types + little-endian variants, rank 1-4, unlimited with 0-5 records, "
        "never-written, partly written with fill value, chunked / RLE / skipping-Huffman / deflate / chunked+compressed / "
        "n-bit inputs, attributes, named and shared dimensions with scales and attributes, data labels/descriptions), "
        "0-3 GR images (1/3/4 components, all interlaces, palettes, chunked/compressed, labels/descriptions under RIG or RI), 0-3 Vdatas (1-3 fields, "
        "attributes on vdata and fields, annotations), global SD/GR attributes, file labels/descriptions, lone palettes. "
        "Options: -t none/selected lists/'*' with NONE, RLE, HUFF n, GZIP n; -c none/selected/'*' with shapes or NONE; "
        "-m absent, in {0,1,100,1024,2000,100000} or at / one below / one above the byte size of an object; given on the command line or through an option file -f; a "
        "fraction of deliberately invalid option sets (rank mismatch, unknown or non-compressible names, '*' with "
        "others, malformed strings) must be refused the way the model says.  The output is repacked again with a "
        "second independent option set.  All choices from one PRNG (VERIF_SEED).  A case is non-trivial when hrepack "
        "succeeded on a file with >= 1 SDS or image and >= 1 option; distinct by (file script, options)")
TRUSTED = ["Coq 8.16.1 kernel", "extraction (ExtrOcamlBasic only; Z/positive/nat inductive)",
           "translator gen_consts.py + plugin gen/plugins/repack_tabs.py (keyword tables, parameter ranges, threshold, "
           "branch conditions of copy_sds/copy_gr, buffer constants and the statements of the strip-mining loop -> gen/Gen_Repack.v)",
           "OCaml driver extract/repack_main.ml; C harness harness/drive_repack.c (file generator and API-level content "
           "dumper: SD, GR, V, VS, AN interfaces and Hfind/Hgetelement for palettes), harness/drive_repack_fn.c, "
           "harness/drive_repack_strips.c (whole tool with SDreaddata interposed); generator, "
           "canonicalisation and comparison in checks/C18.py",
           "modelled, not verified: the copy loops of copy_sds/copy_gr/copy_vs/copy_an/vgroup_insert themselves "
           "(content preservation of the real code rests on the differential run), fscanf tokenisation of the option file, "
           "the HDF4 library underneath hrepack (see C03/C04/C07-C11)"]
ASSUMPTIONS = ["the interlace of an image is storage layout (the GR interface stores every image it creates pixel-interlaced); pixels are compared in pixel interlace", "domain: JPEG and SZIP requests excluded (lossy / not built); object names unique among siblings and free of "
               "',' ':' '\"' and blanks; default dimension names (fakeDim<n>) are not content (the library renumbers them "
               "when it writes the file); sibling order and reference numbers are not content",
               "an unlimited dimension is storage layout, not content (hrepack makes a record variable fixed-size when it "
               "has to compress it); the current sizes of all dimensions are content"]

COMP_CODE = {"none": 0, "rle": 1, "nbit": 2, "huff": 3, "gzip": 4, "szip": 5, "jpeg": 7}
KW = {0: "NONE", 1: "RLE", 3: "HUFF", 4: "GZIP", 7: "JPEG"}
NTS = [3, 4, 20, 21, 22, 23, 24, 25, 5, 6]
NTSIZE = {3: 1, 4: 1, 20: 1, 21: 1, 22: 2, 23: 2, 24: 4, 25: 4, 5: 4, 6: 8}


def flav(r, nt, native=True):
    """number type with a flavour flag now and then: DFNT_LITEND (0x4000) or DFNT_NATIVE (0x1000); the SD interface
    refuses native types for attributes (SDsetattr), so callers pass native=False there"""
    x = r.random()
    return nt | 16384 if x < 0.25 else (nt | 4096 if (x < 0.30 and native) else nt)


def insert_tags():
    """the tags under which vgroup_insert copies an SDS / an image, as the translator regenerated them"""
    import re
    txt = open(os.path.join(vc.VERIF, "coq", "gen", "Gen_Repack.v")).read()
    out = []
    for n, dflt in (("insert_sds_tags", [720]), ("insert_image_tags", [306])):
        m = re.search(r"Definition %s : list Z := \[([^\]]*)\]" % n, txt)
        out.append([int(x) for x in m.group(1).split(";")] if m and m.group(1).strip() else dflt)
    return out


def hx(s):
    return s.encode().hex() if s else "-"


# --------------------------------------------------------------------------------------------------
# generators
# --------------------------------------------------------------------------------------------------

def gen_file(r, knobs=None):
    """-> (script lines, shadow list of dict(path, kind, rank, dims, bytes, rec))"""
    knobs = knobs or {}
    lines, shadow = [], []
    used = set()
    ctr = [0]

    def fresh(prefix):
        ctr[0] += 1
        n = "%s%d" % (prefix, ctr[0])
        if r.random() < 0.2:
            n += r.choice(["_x", ".v2", "-b", "%", "+"])
        return n

    def attrs(maxn=3, field=None, native=True):
        for _ in range(r.choice([0, 0, 1, 1, 2, maxn])):
            nt = r.choice(NTS)
            cnt = r.choice([1, 1, 2, 3, 5, 9]) if nt != 4 else r.choice([1, 4, 11, 30])
            nt = flav(r, nt, native)
            extra = (" f=%d" % field) if field is not None else ""
            lines.append("attr %s %d %d %d%s" % (hx(fresh("at")), nt, cnt, r.randrange(1, 10 ** 6), extra))

    def anns(p=0.3, image=False):
        for kind in ("label", "desc"):
            for _ in range(2 if r.random() < 0.1 else 1):
                if r.random() < p:
                    txt = fresh("ann_" + kind) + " " + "".join(r.choice("abc xyz\n.") for _ in range(r.randrange(0, 24)))
                    lines.append("ann %s %s%s" % (kind, hx(txt), (" atag=%d" % r.choice([306, 302])) if image else ""))

    # vgroups
    groups = []   # (id, path)
    parents, links = {}, []   # links: (group, second parent) -- a vgroup that is a member of two parents
    ngroups = r.choice([0, 1, 1, 2, 3, 4])
    for gid in range(ngroups):
        parent = -1
        if groups and r.random() < 0.6:
            parent = r.choice(groups)[0]
        name = fresh("g")
        ppath = [g for g in groups if g[0] == parent]
        path = (ppath[0][1] + "/" if ppath else "") + name
        cls = fresh("cls") if r.random() < 0.5 else ""
        lines.append("vg %d %s %s %d" % (gid, hx(name), hx(cls), parent))
        attrs(2)
        anns(0.25)
        groups.append((gid, path))
        parents[gid] = parent
        if parent >= 0 and r.random() < 0.25:
            def ancestors(g):
                out = set()
                while g >= 0:
                    out.add(g)
                    g = parents[g]
                return out
            cands = [g[0] for g in groups if g[0] != gid and g[0] != parent and gid not in ancestors(g[0])]
            if cands:
                links.append((gid, r.choice(cands)))

    def parent_choice():
        if groups and r.random() < 0.5:
            g = r.choice(groups)
            return g[0], g[1] + "/"
        return -1, ""

    # an object is made a member of its vgroup under any of the tags vgroup_insert accepts for its kind
    sds_mtags, image_mtags = insert_tags()
    dim_pool = []   # (name, size) named dimensions that may be shared
    nsds = r.choice([1, 2, 3, 3, 4, 5, 7]) if not knobs.get("nosds") else 0
    for _ in range(nsds):
        nt = flav(r, r.choice(NTS))
        base = nt & 0xfff
        rank = r.choice([1, 1, 2, 2, 2, 3, 3, 4])
        big = r.random() < 0.5
        dims = []
        for i in range(rank):
            hi = {1: 400, 2: 24, 3: 9, 4: 6}[rank] if big else {1: 20, 2: 6, 3: 4, 4: 3}[rank]
            dims.append(r.randrange(1, hi + 1))
        unl = r.random() < 0.15
        recs = r.choice([0, 1, 2, 3, 5]) if unl else 0
        name = fresh("s")
        pid, ppath = parent_choice()
        kvs = ["seed=%d" % r.randrange(1, 10 ** 6), "pat=%d" % r.choice([0, 1, 1, 2, 3, 4])]
        layout = r.choice(["n", "n", "n", "c", "z", "z", "cz", "b"]) if not unl else "n"
        write = r.choice(["all", "all", "all", "all", "part", "none"])
        if unl:
            write = "all" if recs else "none"
        if layout in ("z", "cz", "b"):
            write = "all"
        if layout in ("c", "cz"):
            kvs.append("chunk=" + ",".join(str(r.randrange(1, d + 1)) for d in dims))
        if layout in ("z", "cz"):
            c = r.choice(["rle", "huff:%d" % r.choice([1, 2, NTSIZE[base]]), "gzip:%d" % r.randrange(1, 10)])
            kvs.append("comp=" + c)
        if layout == "b":
            if base in (22, 23, 24, 25):
                kvs.append("comp=nbit")
        if r.random() < 0.3:
            kvs.append("fill=" + "".join("%02x" % r.randrange(256) for _ in range(NTSIZE[base])))
        kvs.append("write=" + write)
        if unl:
            kvs.append("recs=%d" % recs)
        if pid >= 0:
            kvs.append("parent=%d" % pid)
            kvs.append("mtag=%d" % r.choice(sds_mtags))
        lines.append("sds %s %d %d %d %s %s" % (hx(name), nt, 1 if unl else 0, rank, " ".join(map(str, dims)), " ".join(kvs)))
        cur = list(dims)
        if unl:
            cur[0] = recs
        nbytes = NTSIZE[base]
        for d in cur:
            nbytes *= d
        attrs(native=False)
        for i in range(rank):
            if r.random() < (0.6 if (unl and i == 0) else 0.35):
                size = 0 if (unl and i == 0) else dims[i]
                # a record dimension is mostly shared between variables with the same number of records (the scale of
                # the dimension has one length); rarely with different counts (recorded finding)
                cands = [d for d in dim_pool if d[1] == size and (size != 0 or d[2] == cur[0] or r.random() < 0.1)]
                if cands and r.random() < 0.5:
                    dn = r.choice(cands)[0]
                    lines.append("dimname %d %s" % (i, hx(dn)))
                else:
                    dn = fresh("dim")
                    lines.append("dimname %d %s" % (i, hx(dn)))
                    dim_pool.append((dn, size, cur[0]))
                    # a scale on every kind of dimension, the record (unlimited) dimension included: its scale has one
                    # value per record written so far
                    if r.random() < 0.5 and (cur[i] > 0):
                        lines.append("dimscale %d %d %d %d" % (i, flav(r, r.choice(NTS)), cur[i], r.randrange(1, 10 ** 6)))
                    if r.random() < 0.3:
                        lines.append("dimattr %d %s %d %d %d" % (i, hx(fresh("da")), flav(r, r.choice(NTS), False), r.choice([1, 2, 4]),
                                                                 r.randrange(1, 10 ** 6)))
        anns(0.3)
        shadow.append(dict(path=ppath + name, kind="sds", rank=rank, dims=cur, bytes=nbytes, rec=unl,
                           empty=(write == "none")))

    ngr = r.choice([0, 0, 1, 1, 2, 3]) if not knobs.get("nogr") else 0
    has_imgpal = False
    for _ in range(ngr):
        nt = flav(r, r.choice([21, 21, 21, 20, 3, 22, 23, 24, 25, 5, 6]))
        ncomp = r.choice([1, 1, 3, 3, 4])
        il = r.choice([0, 0, 1, 2])
        big = r.random() < 0.5
        xd = r.randrange(1, 41 if big else 9)
        yd = r.randrange(1, 41 if big else 9)
        name = fresh("im")
        pid, ppath = parent_choice()
        kvs = ["seed=%d" % r.randrange(1, 10 ** 6), "pat=%d" % r.choice([0, 1, 1, 2, 4])]
        layout = r.choice(["n", "n", "n", "c", "z", "z", "cz"])
        if layout in ("c", "cz"):
            kvs.append("chunk=%d,%d" % (r.randrange(1, xd + 1), r.randrange(1, yd + 1)))
        if layout in ("z", "cz"):
            kvs.append("comp=" + r.choice(["rle", "huff:%d" % r.choice([1, NTSIZE[nt & 0xfff]]), "gzip:%d" % r.randrange(1, 10)]))
        if pid >= 0:
            kvs.append("parent=%d" % pid)
            kvs.append("mtag=%d" % r.choice(image_mtags))
        lines.append("gr %s %d %d %d %d %d %s" % (hx(name), nt, ncomp, il, xd, yd, " ".join(kvs)))
        if r.random() < 0.4:
            lines.append("pal %d" % r.randrange(1, 10 ** 6))
            has_imgpal = True
        attrs(2)
        anns(0.25, image=True)
        shadow.append(dict(path=ppath + name, kind="gr", rank=2, dims=[xd, yd], bytes=xd * yd * NTSIZE[nt & 0xfff], rec=False,
                           empty=False))

    nvs = r.choice([0, 1, 1, 2, 3])
    for _ in range(nvs):
        name = fresh("v")
        cls = fresh("vc") if r.random() < 0.5 else ""
        nf = r.choice([1, 2, 2, 3, 4])
        fl = []
        for i in range(nf):
            fl.append("%s %d %d" % (hx(fresh("f")), flav(r, r.choice(NTS)), r.choice([1, 1, 2, 3])))
        pid, ppath = parent_choice()
        kvs = ["seed=%d" % r.randrange(1, 10 ** 6)]
        if pid >= 0:
            kvs.append("parent=%d" % pid)
        # both interlaces (0 = FULL_INTERLACE, 1 = NO_INTERLACE): with several fields and records the two layouts differ
        lines.append("vs %s %s %d %d %d %s %s" % (hx(name), hx(cls), r.choice([0, 1]), r.choice([0, 1, 2, 3, 5, 20, 100]), nf,
                                                  " ".join(fl), " ".join(kvs)))
        attrs(2)
        if r.random() < 0.4:
            attrs(1, field=r.randrange(nf))
        anns(0.3)
        shadow.append(dict(path=ppath + name, kind="vs", rank=0, dims=[], bytes=0, rec=False, empty=False))

    for child, par in links:
        lines.append("link %d %d" % (child, par))
    shared_paths = [g[1] for g in groups if g[0] in set(c for c, _ in links)]
    for o in shadow:
        if any(o["path"].startswith(sp + "/") for sp in shared_paths):
            o["nameable"] = False
    for g in groups:
        shadow.append(dict(path=g[1], kind="vg", rank=0, dims=[], bytes=0, rec=False, empty=False))
    for _ in range(r.choice([0, 0, 1, 2])):
        lines.append("gattr sd %s %d %d %d" % (hx(fresh("gsd")), flav(r, r.choice(NTS), False), r.choice([1, 2, 7]), r.randrange(1, 10 ** 6)))
    # GR file attributes exist with or without images (the GR interface of an image-less file still has content)
    if r.random() < (0.4 if ngr else 0.3):
        lines.append("gattr gr %s %d %d %d" % (hx(fresh("ggr")), flav(r, r.choice(NTS)), r.choice([1, 2, 7]), r.randrange(1, 10 ** 6)))
    for kind in ("label", "desc"):
        for _ in range(r.choice([0, 0, 1, 2])):
            lines.append("fann %s %s" % (kind, hx(fresh("file_" + kind) + " text")))
    # old-style raster images (DFR8 / DF24): several 8-bit images share ONE palette object; 24-bit images have none
    if r.random() < 0.2 and not knobs.get("nogr"):
        for _ in range(r.choice([1, 1, 2])):
            if r.random() < 0.85:
                lines.append("r8pal %d" % r.randrange(1, 10 ** 6))
            for _ in range(r.choice([1, 2, 2, 3])):
                lines.append("r8 %d %d %d %d" % (r.randrange(1, 13), r.randrange(1, 13), r.randrange(1, 10 ** 6), r.choice([0, 0, 1])))
            # DF24addimage into a file that already holds images written through the GR interface can reuse their
            # reference numbers and clobber them (a defect of the old interface, outside this property: the INPUT is then
            # already inconsistent), so 24-bit old-style images go into files without new-style images only
            if r.random() < 0.4 and ngr == 0:
                lines.append("r24 %d %d %d %d" % (r.randrange(1, 9), r.randrange(1, 9), r.randrange(1, 10 ** 6), r.choice([0, 1, 2])))
    if r.random() < 0.25:
        for _ in range(r.choice([1, 1, 2, 3, 4])):
            lines.append("lonepal %d" % r.randrange(1, 10 ** 6))
    return lines, shadow


def rand_comp(r):
    t = r.choice([0, 1, 1, 3, 3, 4, 4, 4])
    if t == 3:
        return t, r.choice([1, 2, 4, 8])
    if t == 4:
        return t, r.choice([0, 1, 5, 6, 9])
    return t, -1


def gen_options(r, shadow, invalid=False):
    """-> list of option items ('t', [names], type, info) | ('c', [names], rank, [lens]) | ('m', n)"""
    # objects below a vgroup with two parents have two paths and hrepack knows the one it meets first: such objects are
    # reached through "*" only
    objs = [o for o in shadow if o["kind"] in ("sds", "gr") and o.get("nameable", True)]
    items = []
    tmode = r.choice(["none", "sel", "sel", "all"])
    cmode = r.choice(["none", "none", "sel", "sel", "all"])
    if not objs:
        tmode = "all" if tmode == "sel" else tmode
        cmode = "all" if cmode == "sel" else cmode
    if tmode == "all":
        t, i = rand_comp(r)
        items.append(("t", ["*"], t, i))
    elif tmode == "sel":
        pool = list(objs)
        r.shuffle(pool)
        for _ in range(r.choice([1, 1, 2, 3])):
            if not pool:
                break
            k = min(len(pool), r.choice([1, 1, 2, 3]))
            names = [pool.pop()["path"] for _ in range(k)]
            t, i = rand_comp(r)
            items.append(("t", names, t, i))
    if cmode == "all":
        if r.random() < 0.3:
            items.append(("c", ["*"], -2, []))
        else:
            rank = r.choice([1, 2, 2, 2, 3])
            items.append(("c", ["*"], rank, [r.choice([1, 2, 3, 5, 8, 10]) for _ in range(rank)]))
    elif cmode == "sel":
        pool = list(objs)
        r.shuffle(pool)
        for _ in range(r.choice([1, 1, 2])):
            if not pool:
                break
            if r.random() < 0.25:
                k = min(len(pool), r.choice([1, 2]))
                items.append(("c", [pool.pop()["path"] for _ in range(k)], -2, []))
                continue
            o = pool.pop()
            same = [p for p in pool if p["rank"] == o["rank"] and r.random() < 0.5][:2]
            for p in same:
                pool.remove(p)
            grp = [o] + same
            lens = []
            for d in range(o["rank"]):
                m = max(1, min(g["dims"][d] for g in grp))
                lens.append(r.randrange(1, m + 1))
            items.append(("c", [g["path"] for g in grp], o["rank"], lens))
    if r.random() < 0.6:
        if objs and r.random() < 0.4:
            # boundary knob: the threshold at, just below and just above the size of an object
            items.append(("m", max(0, r.choice(objs)["bytes"] + r.choice([0, 0, 1, -1]))))
        else:
            items.append(("m", r.choice([0, 0, 1, 100, 1024, 2000, 100000])))
    r.shuffle(items)
    if invalid:
        how = r.choice(["rank", "noname", "vsname", "star+", "dup", "twostar"])
        if how == "rank" and objs:
            o = r.choice(objs)
            items.append(("c", [o["path"]], o["rank"] + 1, [2] * (o["rank"] + 1)))
        elif how == "noname":
            items.append(("t", ["no_such_object"], 1, -1))
        elif how == "vsname":
            oth = [o for o in shadow if o["kind"] in ("vs", "vg")]
            if oth:
                items.append(("t", [r.choice(oth)["path"]], 4, 6))
        elif how == "star+" and objs:
            items.append((r.choice(["t"]), ["*", objs[0]["path"]], 1, -1))
        elif how == "dup" and objs:
            items.append(("t", [objs[0]["path"]], 4, 1))
            items.append(("t", [objs[0]["path"]], 1, -1))
        elif how == "twostar":
            items.append(("t", ["*"], 1, -1))
            items.append(("t", ["*"], 4, 2))
    return items


MALFORMED = ["A", "A:", ":RLE", "A:FOO", "A:RLE 3", "A:HUFF", "A:GZIP", "A:GZIP 10", "A:HUFF 0", "A:GZIP x", "A:GZIP 1 2",
             "A,B:rle", "A:SZIP 8,NN", "A: 5"]
MALFORMED_C = ["A", "A:", "A:0x2", "A:2x0", "A:axb", "A:2,3", "A:NONEx", "A:-2", "A:2 3"]


def flag_of(item):
    return {"rawt": "t", "rawc": "c"}.get(item[0], item[0])


def raw_of(item):
    """the option argument as it is given to hrepack; ('rawt'|'rawc', string) items carry malformed strings"""
    if item[0] in ("rawt", "rawc"):
        return item[1]
    if item[0] == "t":
        s = ",".join(item[1]) + ":" + KW[item[2]]
        if item[2] in (3, 4, 7):
            s += " %d" % item[3]
        return s
    if item[0] == "c":
        return ",".join(item[1]) + ":" + ("NONE" if item[2] == -2 else "x".join(map(str, item[3])))
    return str(item[1])


# --------------------------------------------------------------------------------------------------
# dump parsing and canonical form
# --------------------------------------------------------------------------------------------------

class Nd:
    __slots__ = ("depth", "kind", "name", "C", "L", "I", "ch", "key")

    def __init__(self, depth, kind, name):
        self.depth, self.kind, self.name = depth, kind, name
        self.C, self.L, self.I, self.ch, self.key = [], None, None, [], None


def parse_dump(lines):
    root, stack, pals, x = None, [], [], {}
    ok = False
    for l in lines:
        if l.startswith("N "):
            _, d, kind, name = l.split(" ", 3)
            n = Nd(int(d), kind, name)
            while stack and stack[-1].depth >= n.depth:
                stack.pop()
            if stack:
                stack[-1].ch.append(n)
            else:
                root = n
            stack.append(n)
        elif l.startswith("C "):
            c = l[2:]
            t = c.split(" ")
            if t[0] == "dim" and len(t) >= 3 and t[2] != "attr":
                try:
                    if bytes.fromhex(t[2]).startswith(b"fakeDim"):
                        t[2] = "fakeDim*"
                        c = " ".join(t)
                except ValueError:
                    pass
            if t[0] == "palette" and len(t) >= 3 and t[2] == "21":
                # the GR interface reports DFNT_UCHAR8 (3) for the palettes it wrote and DFNT_UINT8 (21) for palettes of
                # old-style (DFR8) images: the same 8-bit unsigned entries
                t[2] = "3"
                c = " ".join(t)
            stack[-1].C.append(c)
        elif l.startswith("L "):
            stack[-1].L = l[2:]
        elif l.startswith("I "):
            stack[-1].I = l[2:]
        elif l.startswith("P "):
            pals.append(l[2:])
        elif l.startswith("X "):
            t = l.split()
            x[t[1]] = t[2:]
        elif l == "ok":
            ok = True
    if root is None or not ok:
        return None
    # lone palettes = palettes in the file that are no image's palette (multiset difference)
    imgp = []

    def walk(n):
        for c in n.C:
            if c.startswith("palette "):
                imgp.append(c.split(" ")[-1])
        for k in n.ch:
            walk(k)
    walk(root)
    for p in pals:
        if p in imgp:
            imgp.remove(p)
        else:
            root.C.append("lonepal " + p)
    root.C.append("internal-attribute-vdatas %s" % " ".join(x.get("lone-attr-vdatas", ["?"])))
    root.C.append("user-vgroups %s" % " ".join(x.get("user-vgroups", ["?"])))
    return root


def canon(n):
    for k in n.ch:
        canon(k)
    n.ch.sort(key=lambda k: k.key)
    h = hashlib.sha1()
    h.update(("%s %s\n" % (n.kind, n.name)).encode())
    for c in sorted(n.C):
        h.update(c.encode() + b"\n")
    for k in n.ch:
        h.update(k.key.encode())
    n.key = "%s:%s:%s" % (n.kind, n.name, h.hexdigest())
    return n


def flat(n, out=None):
    out = [] if out is None else out
    out.append(n)
    for k in n.ch:
        flat(k, out)
    return out


def content_diff(a, b, path=""):
    """first difference between two canonical trees, as text"""
    p = path + "/" + (bytes.fromhex(a.name).decode("latin1") if a.name != "-" else "")
    if a.kind != b.kind or a.name != b.name:
        return "%s: node %s %s vs %s %s" % (path, a.kind, a.name, b.kind, b.name)
    ca, cb = sorted(a.C), sorted(b.C)
    if ca != cb:
        only_a = [c for c in ca if c not in cb]
        only_b = [c for c in cb if c not in ca]
        return "%s (%s): input only: %s | output only: %s" % (p, a.kind, [c[:90] for c in only_a[:3]], [c[:90] for c in only_b[:3]])
    if len(a.ch) != len(b.ch):
        return "%s: %d children vs %d: %s vs %s" % (p, len(a.ch), len(b.ch), [k.key.split(":")[0:2] for k in a.ch],
                                                      [k.key.split(":")[0:2] for k in b.ch])
    for x, y in zip(a.ch, b.ch):
        if x.key != y.key:
            return content_diff(x, y, p)
    return None


def lay_fields(L):
    """'comp gzip 3 chunk 2 5 3 flags 3 isrec 0' -> (code, info, chunk str, rec)"""
    t = L.split()
    comp, info = COMP_CODE.get(t[1], 99), int(t[2])
    i = t.index("chunk")
    j = t.index("flags")
    ch = t[i + 1:j]
    chunk = "-" if ch == ["-"] else ",".join(ch)
    return comp, info, chunk, int(t[t.index("isrec") + 1])


def info_fields(I):
    t = I.split()
    return int(t[1]), int(t[3]), int(t[5])   # empty rank bytes


# --------------------------------------------------------------------------------------------------
# running one case
# --------------------------------------------------------------------------------------------------

class Tools:
    def __init__(self, ctx):
        self.drv = ctx.harness("drive_repack", ["drive_repack.c"])
        self.hrepack = ctx.tool("hrepack")
        self.model = ctx.model("repack_model", ["repack_main.ml"], ["repack_model"])
        self.wd = os.path.join(ctx.bdir, "harness", "c18-%d" % os.getpid())
        os.makedirs(self.wd, exist_ok=True)


def run_hrepack(T, inf, outf, items, use_file, tag):
    args = ["-i", inf, "-o", outf]
    if use_file:
        fp = os.path.join(os.path.dirname(outf), "opts-%s.txt" % tag)
        with open(fp, "w") as fh:
            for it in items:
                if flag_of(it) in ("t", "c"):
                    fh.write('-%s "%s"\n' % (flag_of(it), raw_of(it)))
        for it in items:
            if it[0] == "m":
                args += ["-m", raw_of(it)]
        args += ["-f", fp]
    else:
        for it in items:
            args += ["-" + flag_of(it), raw_of(it)]
    if os.path.exists(outf):
        os.unlink(outf)
    rc, out = vc.sh([T.hrepack] + args, timeout=120, env=vc.HARNESS_ENV)
    return rc, out, args


def dump(T, f):
    rc, out = vc.sh([T.drv, "dump", f], timeout=120, env=vc.HARNESS_ENV)
    lines = out.splitlines()
    root = parse_dump(lines) if rc == 0 else None
    return rc, root, lines


def model_input(cid, items, tin, tout, structured=True):
    """text for the OCaml driver: options + the input tree in canonical order, with the library's output layouts"""
    L = ["case %s" % cid]
    th = 1024
    for it in items:
        L.append("raw %s %s" % (flag_of(it), hx(raw_of(it))))
        if it[0] == "m":
            th = it[1]
    if structured:
        for it in items:
            if it[0] == "t":
                L.append("ent t %s %d %d" % (",".join(hx(n) for n in it[1]), it[2], it[3]))
            elif it[0] == "c":
                L.append("ent c %s %d %s" % (",".join(hx(n) for n in it[1]), it[2], ",".join(map(str, it[3])) or "-"))
        L.append("th %d" % th)
    fin = flat(tin)
    fout = flat(tout) if tout is not None else [None] * len(fin)
    for a, b in zip(fin, fout):
        if a.kind in ("sds", "gr") and a.L and a.I:
            e, rk, by = info_fields(a.I)
            c, i, ch, rec = lay_fields(a.L)
            s = "node %d %s %s %d %d %d %d %d %s %d" % (a.depth, a.kind, a.name, e, rk, by, c, i, ch, rec)
            if b is not None and b.L:
                s += " %d %d %s %d" % lay_fields(b.L)
        else:
            s = "node %d %s %s 0 0 0 0 0 - 0" % (a.depth, a.kind if a.kind in ("root", "vg", "vs") else "vs", a.name)
        L.append(s)
    L.append("end")
    return "\n".join(L) + "\n"


def run_model(T, text, tag):
    p = os.path.join(T.wd, "model-%s.in" % tag)
    open(p, "w").write(text)
    rc, out = vc.run_lines(T.model, p, timeout=120)
    os.unlink(p)
    if rc != 0 or not out or not out[0].startswith("case "):
        raise vc.BuildError("model driver failed rc=%d: %s" % (rc, out[:3]))
    head = dict(kv.split("=") for kv in out[0].split()[2:])
    M, S, V = {}, {}, {}
    for l in out[1:]:
        t = l.split()
        if t[0] == "M":
            M[int(t[1])] = (int(t[2]), int(t[3]), t[4], int(t[5]))
        elif t[0] == "S":
            S[int(t[1])] = (t[2].split("=", 1)[1], t[3].split("=", 1)[1])
        elif t[0] == "V":
            V[int(t[1])] = int(t[2])
    return head, M, S, V


def one_pass(T, cid, inf, tin, items, use_file, outf, tag, structured=True):
    """one hrepack run + comparison.  -> dict(status, problems[list of (kind, text, found)], tout, stats)"""
    res = dict(problems=[], tout=None, stats={})
    rc, out, args = run_hrepack(T, inf, outf, items, use_file, tag)
    exists = os.path.exists(outf)
    res["rc"], res["args"], res["hrepack_out"] = rc, args, out[-600:]
    tout = None
    if exists and rc == 0:
        drc, tout, dl = dump(T, outf)
        if tout is None:
            res["problems"].append(("dump-out", "output file cannot be read back through the API (dumper rc=%d): %s" % (
                drc, " | ".join(dl[-3:])[:300]), True))
        else:
            canon(tout)
    res["tout"] = tout
    same = tout is not None and tout.key == tin.key
    head, M, S, V = run_model(T, model_input(cid, items, tin, tout if same else None, structured), tag)
    res["head"] = head
    if head["build"] == "undef":
        res["status"] = "undef"
        return res
    expect = "ok"
    if head["build"] == "err":
        expect = "usage"
    elif head["run"] != "ok":
        expect = "fail"
    if rc not in (0, 1):
        res["problems"].append(("crash", "hrepack died (rc=%d): %s" % (rc, out[-400:]), True))
        res["status"] = "crash"
        return res
    got = "ok" if (rc == 0 and exists) else ("usage" if rc == 0 else "fail")
    res["status"] = got
    res["stats"]["expect_" + expect] = 1
    if got != expect:
        # a valid request that hrepack refuses is a violation of the property; the reverse is a model mismatch
        res["problems"].append(("status", "hrepack %s (rc=%d, output %s) but the model says %s [%s]; hrepack said: %s" % (
            got, rc, "written" if exists else "absent", expect, head, out[-300:].replace("\n", " | ")),
            expect == "ok" and structured))
        if got == "ok" and tout is not None and not same:
            # exit status 0 and an output file whose content differs from the input: a failing input of the property
            res["problems"].append(("content", "hrepack exited 0 but the output's content differs: " +
                                    (content_diff(tin, tout) or "?"), True))
        return res
    if got != "ok":
        return res
    if structured and head.get("roundtrip") == "0":
        res["problems"].append(("roundtrip", "print/parse of the options disagrees with the model's printer", False))
    if tout is None:
        return res
    if not same:
        res["problems"].append(("content", "content differs: " + (content_diff(tin, tout) or "?"), True))
        return res
    fin, fout = flat(tin), flat(tout)
    for ix, (a, b) in enumerate(zip(fin, fout)):
        if a.kind not in ("sds", "gr"):
            continue
        r = lay_fields(b.L)
        name = bytes.fromhex(a.name).decode("latin1")
        if structured and V.get(ix, 1) == 0:
            res["problems"].append(("layout-spec", "object %s: requested layout not applied: spec demands comp=%s chunk=%s, "
                                    "library produced %s (input %s, info %s)" % (name, S[ix][0], S[ix][1], r, a.L, a.I), True))
        elif ix in M and M[ix] != r:
            res["problems"].append(("layout-model", "object %s: library layout %s, model decide says %s (input %s, info %s)" % (
                name, r, M[ix], a.L, a.I), False))
        if a.L != b.L:
            res["stats"]["layout_changed"] = res["stats"].get("layout_changed", 0) + 1
        if structured and ix in S:
            if S[ix][0] != "-":
                res["stats"]["spec_comp_demands"] = res["stats"].get("spec_comp_demands", 0) + 1
            if S[ix][1] != "-":
                res["stats"]["spec_chunk_demands"] = res["stats"].get("spec_chunk_demands", 0) + 1
    return res


def run_case(T, case):
    """case = dict(id, script, opts1, opts2, file1, file2, structured).  -> dict(problems, stats, ...)"""
    cid = case["id"]
    d = os.path.join(T.wd, "case-%s" % cid)
    shutil.rmtree(d, ignore_errors=True)
    os.makedirs(d)
    out = dict(id=cid, problems=[], stats={}, passes=0)
    try:
        sp = os.path.join(d, "in.scr")
        open(sp, "w").write("\n".join(case["script"]) + "\n")
        inf = os.path.join(d, "in.hdf")
        rc, o = vc.sh([T.drv, "gen", sp, inf], timeout=120, env=vc.HARNESS_ENV)
        if rc != 0 or "ok" not in o.split():
            out["generror"] = o[-300:]
            return out
        drc, tin, dl = dump(T, inf)
        if tin is None:
            out["generror"] = "dump of generated file failed: " + " | ".join(dl[-3:])[:300]
            return out
        canon(tin)
        out["nobj"] = sum(1 for n in flat(tin) if n.kind in ("sds", "gr"))
        st = case.get("structured", True)
        r1 = one_pass(T, cid, inf, tin, case["opts1"], case.get("file1", False), os.path.join(d, "out1.hdf"), cid + "a", st)
        out["passes"] = 1
        out["status1"] = r1.get("status")
        out["r1"] = {k: r1.get(k) for k in ("rc", "args", "hrepack_out", "head")}
        for p in r1["problems"]:
            out["problems"].append(("pass1",) + p)
        for k, v in r1["stats"].items():
            out["stats"][k] = out["stats"].get(k, 0) + v
        if r1.get("status") == "ok" and r1["tout"] is not None and not r1["problems"] and case.get("opts2") is not None:
            # idempotent in content: repack the output again with other options, compare with the *original* input
            r2 = one_pass(T, cid, os.path.join(d, "out1.hdf"), r1["tout"], case["opts2"], case.get("file2", False),
                          os.path.join(d, "out2.hdf"), cid + "b", True)
            out["passes"] = 2
            out["status2"] = r2.get("status")
            out["r2"] = {k: r2.get(k) for k in ("rc", "args", "hrepack_out", "head")}
            for p in r2["problems"]:
                out["problems"].append(("pass2",) + p)
            for k, v in r2["stats"].items():
                out["stats"][k] = out["stats"].get(k, 0) + v
            if r2["tout"] is not None and r2["tout"].key != tin.key and not r2["problems"]:
                out["problems"].append(("pass2", "content", "content after the second repack differs from the original input: " +
                                        (content_diff(tin, r2["tout"]) or "?"), True))
    finally:
        if not case.get("keep"):
            shutil.rmtree(d, ignore_errors=True)
    return out


def signature(case, res):
    """known-finding signature computed from the failing input and the kind of failure"""
    has_lone = any(l.startswith("lonepal ") for l in case["script"])
    has_imgpal = any(l.startswith("pal ") for l in case["script"])
    kinds = set(p[1] for p in res["problems"])
    txt = " ".join(p[2] for p in res["problems"])
    if has_lone and has_imgpal and (("status" in kinds and "Failed to read palette" in txt) or
                                    ("content" in kinds and "lonepal" in txt)):
        return "lone-palette-with-image-palette"
    # an SDS of a native number type with a fill value: SDsetfillvalue stores the attribute with the native type, which
    # SDsetattr (the only public way to re-create it) refuses
    for l in case["script"]:
        t = l.split()
        if t[0] == "sds" and (int(t[2]) & 4096) and any(x.startswith("fill=") and x != "fill=-" for x in t) and \
                "status" in kinds and "Cannot write attribute _FillValue" in txt:
            return "native-typed-sds-with-fill-value"
    # record variables with different record counts sharing a named unlimited dimension that has a scale
    unl, cur_name, cur_recs = {}, None, 0
    for l in case["script"]:
        t = l.split()
        if t[0] == "sds":
            cur_name = t[1] if t[3] == "1" else None
            cur_recs = int(([x[5:] for x in t if x.startswith("recs=")] or ["0"])[0])
            cur_dim0 = None
        elif t[0] in ("gr", "vs", "vg"):
            cur_name = None
        elif t[0] == "dimname" and cur_name is not None and t[1] == "0":
            cur_dim0 = t[2]
            unl.setdefault(t[2], {"recs": set(), "scale": False})["recs"].add(cur_recs)
        elif t[0] == "dimscale" and cur_name is not None and t[1] == "0" and cur_dim0 is not None:
            unl[cur_dim0]["scale"] = True
    if any(len(v["recs"]) > 1 and v["scale"] for v in unl.values()) and \
            ("crash" in kinds or ("content" in kinds and " scale " in txt) or ("status" in kinds and "scale" in txt)):
        return "record-variables-of-different-length-sharing-a-dimension-scale"
    # record variables sharing a named unlimited dimension, hrepack refusing the dimension name
    unl_dim0, cur = {}, None
    for l in case["script"]:
        t = l.split()
        if t[0] == "sds":
            cur = t[1] if t[3] == "1" else None
        elif t[0] in ("gr", "vs", "vg"):
            cur = None
        elif t[0] == "dimname" and cur is not None and t[1] == "0":
            unl_dim0.setdefault(t[2], []).append(cur)
    if any(len(v) > 1 for v in unl_dim0.values()) and "status" in kinds and "Failed to set dimension name 0" in txt:
        return "compressed-record-variables-sharing-named-unlimited-dimension"
    return None


def case_text(case, res=None):
    head = ["# C18 replay: generated HDF4 file (script for harness drive_repack gen) + hrepack option sets",
            "# run: VERIF_REPO=<repo> bin/check C18 --replay <this file>"]
    if res:
        for p in res["problems"]:
            head.append("# %s %s: %s" % (p[0], p[1], p[2][:600].replace("\n", " ")))
        for k in ("r1", "r2"):
            if res.get(k) and res[k].get("args"):
                head.append("# %s: hrepack %s -> rc %s" % (k, " ".join("'%s'" % a for a in res[k]["args"][4:]), res[k]["rc"]))
    body = {k: case.get(k) for k in ("id", "script", "opts1", "opts2", "file1", "file2", "structured")}
    return "\n".join(head) + "\n" + json.dumps(body, indent=1) + "\n"


def load_case(path):
    txt = "\n".join(l for l in open(path).read().splitlines() if not l.startswith("#"))
    c = json.loads(txt)
    for k in ("opts1", "opts2"):
        if c.get(k) is not None:
            c[k] = [tuple(x) for x in c[k]]
    return c


def script_blocks(script):
    """split a script into removable blocks: an object line followed by its attr/dim/ann/pal lines"""
    blocks, cur = [], []
    for l in script:
        op = l.split()[0]
        if op in ("vg", "sds", "gr", "vs", "gattr", "fann", "lonepal", "link", "r8pal", "r8", "r24") and cur:
            blocks.append(cur)
            cur = []
        cur.append(l)
    if cur:
        blocks.append(cur)
    return blocks


def shrink(T, case, res, budget=24):
    """greedy: drop script blocks / single attribute lines / option items while the same kind of problem remains"""
    want = set((p[0], p[1]) for p in res["problems"])

    def still(c):
        r = run_case(T, c)
        return r if (not r.get("generror") and set((p[0], p[1]) for p in r["problems"]) & want) else None
    cur, curres, n = dict(case), res, 0
    changed = True
    while changed and n < budget:
        changed = False
        blocks = script_blocks(cur["script"])
        for i in range(len(blocks) - 1, -1, -1):
            if n >= budget:
                break
            if blocks[i][0].startswith("vg "):
                continue
            cand = dict(cur)
            cand["script"] = [l for j, b in enumerate(blocks) if j != i for l in b]
            cand["id"] = cur["id"] + "s"
            n += 1
            r = still(cand)
            if r:
                cur, curres, changed = cand, r, True
                cur["id"] = case["id"]
                break
        if changed:
            continue
        for key in ("opts2", "opts1"):
            its = cur.get(key) or []
            for i in range(len(its)):
                if n >= budget:
                    break
                cand = dict(cur)
                cand[key] = its[:i] + its[i + 1:]
                n += 1
                r = still(cand)
                if r:
                    cur, curres, changed = cand, r, True
                    break
            if changed:
                break
    return cur, curres


def tool_buffer_bytes():
    """hrepack's strip-mining buffer (H4TOOLS_BUFSIZE) and one-piece limit (H4TOOLS_MALLOCSIZE) as the translator
    regenerated them from hrepack_sds.c for this run"""
    import re
    txt = open(os.path.join(vc.VERIF, "coq", "gen", "Gen_Repack.v")).read()
    out = []
    for n in ("H4TOOLS_BUFSIZE", "H4TOOLS_MALLOCSIZE"):
        m = re.search(r"Definition %s : Z := (\d+)\." % n, txt)
        out.append(int(m.group(1)) if m else 1 << 20)
    return out


def gen_large_cases(r):
    """inputs above every internal buffer of hrepack: SDS of 1x, 2x, 3x the strip-mining buffer +- a row, ranks 2-4,
    with the block below the slowest dimension both smaller and larger than the buffer; a vdata and images larger than
    the buffer.  Data of this size are compared through digests (whole array + 16 segments)."""
    B, M = tool_buffer_bytes()
    q = max(B // 1048576, 1)
    shapes = [   # (number type, dims)
        (21, [3, B + 5]),                       # rows larger than the buffer, cut into 2 strips each
        (22, [3, B // 2 + B // 8]),             # int16 rows of 1.25 buffers
        (24, [3, 300 * q, B // 4096 + 744]),    # planes of ~1.2 buffers, rows far smaller
        (21, [M // 256 + 1, 256]),              # one buffer + a row, rows far smaller than the buffer
        (22, [2 * B // 512 - 1, 256]),          # two buffers - a row
        (20, [3 * B // 8192 + 1, 64, 128]),     # three buffers + a plane
        (23, [2, 3, 200 * q, B // 2048 + 488]),  # rank 4, block below the slowest dimension 1.2 buffers
        (21, [5, 7, 100 * q, B // 4096 + 44]),  # rank 4, a little over one buffer, blocks far smaller
        (6, [2, 400 * q, B // 8192 + 72]),      # float64, planes of 0.6 buffers
        (21, [M // 1024, 1024]),                # exactly the one-piece limit: strip-mined
        (21, [M // 1024 - 1, 1024]),            # one row below it: copied in one piece
    ]
    cases = []
    for k, (nt, dims) in enumerate(shapes):
        name = "big%d" % k
        script = ["sds %s %d 0 %d %s seed=%d pat=0 write=all" % (hx(name), nt, len(dims), " ".join(map(str, dims)),
                                                                 r.randrange(1, 10 ** 6)),
                  "attr %s 24 2 %d" % (hx("a_" + name), r.randrange(1, 10 ** 6)),
                  "sds %s 22 0 2 7 9 seed=%d write=all" % (hx("small%d" % k), r.randrange(1, 10 ** 6))]
        nb = NTSIZE[nt]
        for d in dims:
            nb *= d
        chunk = [max(1, (d + r.choice([1, 2, 3])) // r.choice([2, 3, 4])) if d > 8 else r.choice([1, d]) for d in dims]
        menu = [[], [("c", [name], len(dims), chunk)], [("t", ["*"], 4, 1), ("c", [name], len(dims), chunk)],
                [("t", [name], r.choice([1, 4]), 1 if True else -1)], [("c", ["*"], -2, [])], []]
        o1 = list(r.choice(menu))
        o1 = [(i[0], i[1], i[2], (-1 if i[0] == "t" and i[2] == 1 else i[3])) if i[0] == "t" else i for i in o1]
        o2 = r.choice([[("t", ["*"], 0, -1)], [("c", ["*"], -2, [])], [("c", [name], len(dims), chunk)], []])
        cases.append(dict(id="L%d" % k, script=script, opts1=o1, opts2=o2, file1=False, file2=False, structured=True))
    # a vdata above the buffer in each interlace, several fields; images above the buffer in each interlace
    for k, il in enumerate([0, 1]):
        nrec = B // 12 + 1000
        script = ["vs %s %s %d %d 3 %s 24 1 %s 5 1 %s 22 2 seed=%d" % (hx("bigv%d" % il), hx("cls"), il, nrec, hx("id"),
                                                                        hx("x"), hx("pair"), r.randrange(1, 10 ** 6)),
                  "attr %s 24 1 7" % hx("va")]
        cases.append(dict(id="LV%d" % k, script=script, opts1=[("t", ["*"], 1, -1)], opts2=[], file1=False, file2=False,
                          structured=True))
    for k, (il, ncomp, xd, yd) in enumerate([(0, 1, B // 1024 + 76, 1000 * q), (1, 3, 700 * q, B // 2048 + 88),
                                             (2, 3, 600 * q, B // 2048 + 188)]):
        name = "bigim%d" % k
        script = ["gr %s 21 %d %d %d %d seed=%d pat=0" % (hx(name), ncomp, il, xd, yd, r.randrange(1, 10 ** 6)),
                  "pal %d" % r.randrange(1, 10 ** 6)]
        o1 = r.choice([[], [("t", [name], 4, 1)], [("c", [name], 2, [xd // 3 + 1, yd // 2 + 1])]])
        cases.append(dict(id="LI%d" % k, script=script, opts1=o1, opts2=[("t", ["*"], 0, -1)], file1=False, file2=False,
                          structured=True))
    return cases


def gen_case(r, cid):
    kind = r.random()
    # a tenth of the files lack a whole kind of object (no SDS, no image, neither): what an interface holds besides
    # its objects (file attributes, annotations) must survive on its own
    k2 = r.random()
    knobs = {"nosds": k2 < 0.07 or 0.10 <= k2 < 0.13, "nogr": 0.07 <= k2 < 0.13}
    script, shadow = gen_file(r, knobs)
    if kind < 0.08:
        # malformed option strings: no structured form, only the refusal is compared
        raw = r.choice(MALFORMED) if r.random() < 0.6 else None
        c = dict(id=cid, script=script, structured=False, opts2=None, file1=False)
        c["opts1"] = [("rawt", raw)] if raw else [("rawc", r.choice(MALFORMED_C))]
        return c
    invalid = kind < 0.2
    return dict(id=cid, script=script, opts1=gen_options(r, shadow, invalid), opts2=gen_options(r, shadow),
                file1=r.random() < 0.3, file2=r.random() < 0.3, structured=True)


def run(ctx):
    T = Tools(ctx)
    r = ctx.rng
    cases = []
    cdir = os.path.join(vc.VERIF, "corpus", "C18")
    ncorpus = 0
    for fn in sorted(os.listdir(cdir)) if os.path.isdir(cdir) else []:
        if fn.endswith(".case"):
            c = load_case(os.path.join(cdir, fn))
            c["id"] = "corpus-" + fn[:-5]
            cases.append(c)
            ncorpus += 1
    n = 400 if ctx.tier == "quick" else 6000
    large = gen_large_cases(r)
    if ctx.tier == "thorough":
        large += [dict(c, id=c["id"] + "b") for c in gen_large_cases(r)] + [dict(c, id=c["id"] + "c") for c in gen_large_cases(r)]
    cases += large
    cases += [gen_case(r, "g%d" % i) for i in range(n)]
    stats = {"cases": len(cases), "corpus_cases": ncorpus, "cases_above_tool_buffer": len(large),
             "tool_buffer_bytes": tool_buffer_bytes()[0], "generator_errors": 0, "passes": 0, "status": {},
             "objects_sds_gr": 0, "known_finding_cases": 0, "option_modes": {}, "requested_comp": {}, "option_file_runs": 0}
    for c in cases:
        for key in ("opts1", "opts2"):
            for it in c.get(key) or []:
                if it[0] == "t":
                    m = "t:*" if it[1] == ["*"] else "t:selected"
                    stats["requested_comp"][KW.get(it[2], "?")] = stats["requested_comp"].get(KW.get(it[2], "?"), 0) + 1
                elif it[0] == "c":
                    m = ("c:*" if it[1] == ["*"] else "c:selected") + (":NONE" if it[2] == -2 else "")
                elif it[0] == "m":
                    m = "m:%d" % it[1]
                else:
                    m = "malformed"
                stats["option_modes"][m] = stats["option_modes"].get(m, 0) + 1
        stats["option_file_runs"] += int(bool(c.get("file1"))) + int(bool(c.get("file2")))
    results = {}
    with concurrent.futures.ThreadPoolExecutor(max_workers=6) as ex:
        futs = {ex.submit(run_case, T, c): c for c in cases}
        for f in concurrent.futures.as_completed(futs):
            results[futs[f]["id"]] = f.result()
    nviol = 0
    # failing inputs of the property first (only the first three disagreements are written out)
    order = sorted(cases, key=lambda c: 0 if any(p[3] for p in results[c["id"]].get("problems", [])) else 1)
    for c in order:
        res = results[c["id"]]
        if res.get("generror"):
            stats["generator_errors"] += 1
            stats.setdefault("generator_error_samples", [])
            if len(stats["generator_error_samples"]) < 3:
                stats["generator_error_samples"].append(res["generror"][-160:])
            continue
        stats["passes"] += res["passes"]
        stats["objects_sds_gr"] += res.get("nobj", 0)
        for k in ("status1", "status2"):
            if res.get(k):
                stats["status"][res[k]] = stats["status"].get(res[k], 0) + 1
        for k, v in res["stats"].items():
            stats[k] = stats.get(k, 0) + v
        nontriv = res.get("status1") == "ok" and res.get("nobj", 0) > 0 and bool(c.get("opts1"))
        ctx.case((tuple(c["script"]), repr(c.get("opts1")), repr(c.get("opts2"))), nontriv,
                 sample={"objects": [l[:60] for l in c["script"] if l.split()[0] in ("sds", "gr", "vs", "vg")][:5],
                         "options1": [raw_of(i) if i[0] != "m" else "-m %d" % i[1] for i in c.get("opts1") or []],
                         "options2": [raw_of(i) if i[0] != "m" else "-m %d" % i[1] for i in c.get("opts2") or []],
                         "status": [res.get("status1"), res.get("status2")]} if len(ctx.coverage["samples"]) < 4 else None)
        if not res["problems"]:
            continue
        sig = signature(c, res)
        if sig is not None and ctx.match_known(sig) is not None:
            ctx.violation("known finding", "", found=True, signature=sig)
            stats["known_finding_cases"] += 1
            continue
        if nviol >= 3:
            continue
        nviol += 1
        small, sres = (c, res)
        if any(p[3] for p in res["problems"]):
            small, sres = shrink(T, c, res, 24 if ctx.tier == "quick" else 80)
        found = any(p[3] for p in sres["problems"])
        what = "; ".join("%s %s: %s" % (p[0], p[1], p[2][:200]) for p in sres["problems"][:2])
        ctx.violation(what, case_text(small, sres), found=found, suffix="case")
    if stats["generator_errors"] > len(cases) // 5:
        raise vc.BuildError("C18 generator: %d of %d generated files could not be built: %s" % (
            stats["generator_errors"], len(cases), stats.get("generator_error_samples")))
    ctx.corr("hrepack~RepackSpec~RepackModel", **stats)
    fn_corr(ctx, T)
    strips_corr(ctx, T)
    shutil.rmtree(T.wd, ignore_errors=True)


FN_NAMES = ["A", "B", "g/C", "AB", "A", "D", "B", "*"]
FN_COMP = ["RLE", "NONE", "HUFF 1", "HUFF 4", "GZIP 6", "GZIP 0", "GZIP 9", "GZIP 10", "HUFF 0", "HUFF", "GZIP", "RLE 1",
           "NONE 3", "FOO", "JPEG 50", "JPEG 101", "SZIP 8,NN", "GZIP x", "GZIP 1 2", " 5", "", "GZIP 0012", "GZIP ", "rle"]
FN_CHUNK = ["2", "2x3", "10x10x10", "NONE", "0", "2x0", "3x", "x3", "12N", "NONEx2", "2xNONE", "NxO", "", "1x2x3x4", "7x7",
            "5", "2 3", "2,3", "999999999", "4x5"]
FN_NUM = ["0", "10", "1024", "12a", "", "-5", "000100"]


def gen_fn_line(r):
    opts = []
    if r.random() < 0.12:
        # knob: "*" requests together with table entries that stay consistent (a -t NONE superseded by "*"), queried by
        # that very name: the four cases of options_get_info differ in whether the table is consulted at all
        nm = r.choice(["A", "B", "g/C"])
        opts = [("t", nm + ":NONE")] + ([("t", "*:" + r.choice(["RLE", "GZIP 6", "HUFF 1"]))] if r.random() < 0.8 else []) + \
               ([("c", "*:" + r.choice(["2", "2x3", "NONE", "4x5"]))] if r.random() < 0.8 else [])
        if r.random() < 0.3:
            opts.append(("m", r.choice(["0", "10"])))
        qs = []
        for _ in range(2):
            rank = r.choice([1, 2])
            flags = r.choice([0, 1, 3])
            lens = ",".join(str(r.choice([1, 2, 4])) for _ in range(rank)) if flags else "-"
            comp = r.choice([0, 1, 4])
            qs.append("%d %s %d %s %d %d %d %d" % (rank, hx(r.choice([nm, nm, "D"])), flags, lens, comp if flags == 3 else 0,
                                                     r.choice([0, 6]), comp, r.choice([0, 6])))
        return "O %d %s Q %d %s" % (len(opts), " ".join("%s %s" % (k, hx(v)) for k, v in opts), len(qs), " ".join(qs)), opts
    for _ in range(r.choice([0, 1, 1, 2, 2, 3, 4, 5])):
        kind = r.choice(["t", "t", "c", "c", "m"])
        if kind == "m":
            opts.append(("m", r.choice(FN_NUM)))
            continue
        names = ",".join(r.choice(FN_NAMES) for _ in range(r.choice([1, 1, 1, 2, 3])))
        if r.random() < 0.05:
            names = r.choice(["", "A,", ",A", "A:B"])
        if r.random() < 0.75:   # mostly valid: the table and options_get_info are reached
            tail = r.choice(["RLE", "NONE", "HUFF 1", "HUFF 4", "GZIP 6", "GZIP 0", "GZIP 9", "NONE 3", "JPEG 50"]
                            if kind == "t" else ["2", "2x3", "10x10x10", "NONE", "7x7", "5", "4x5", "1x2x3", "9"])
        else:
            tail = r.choice(FN_COMP if kind == "t" else FN_CHUNK)
        sep = ":" if r.random() < 0.97 else ""
        opts.append((kind, names + sep + tail))
    qs = []
    for _ in range(r.choice([1, 2, 3])):
        rank = r.choice([1, 2, 2, 3])
        flags = r.choice([0, 0, 1, 3])
        lens = ",".join(str(r.choice([1, 2, 4, 9])) for _ in range(rank)) if flags else "-"
        comp = r.choice([0, 0, 1, 3, 4, 2])
        qs.append("%d %s %d %s %d %d %d %d" % (rank, hx(r.choice(["A", "B", "g/C", "D", "AB"])), flags, lens,
                                                 comp if flags == 3 else r.choice([0, 7]), r.choice([0, 1, 6]), comp,
                                                 r.choice([0, 1, 6])))
    return "O %d %s Q %d %s" % (len(opts), " ".join("%s %s" % (k, hx(v)) for k, v in opts), len(qs), " ".join(qs)), opts


def split_fn_out(lines):
    out, cur = [], []
    for l in lines:
        if not l.startswith("R "):
            continue
        cur.append(l)
        if l == "R end":
            out.append(cur)
            cur = []
    return out


def fn_corr(ctx, T):
    """function-level R-vs-M correspondence: parse_comp / parse_chunk / parse_number / hrepack_addcomp /
    hrepack_addchunk / print_options / options_get_info called directly (harness/drive_repack_fn.c includes the
    tool's sources) against the extracted model, exact comparison of every result"""
    r = ctx.rng
    exe = ctx.harness("drive_repack_fn", ["drive_repack_fn.c"])
    n = 1500 if ctx.tier == "quick" else 40000
    gen = [gen_fn_line(r) for _ in range(n)]
    p = os.path.join(T.wd, "fn.in")
    open(p, "w").write("\n".join(g[0] for g in gen) + "\n")
    rc, mout = vc.run_lines(T.model, p, timeout=600, args=["fn"])
    Mres = split_fn_out(mout)
    if rc != 0 or len(Mres) != len(gen):
        raise vc.BuildError("model driver (fn mode) failed rc=%d (%d results for %d lines)" % (rc, len(Mres), len(gen)))
    keep = [i for i in range(len(gen)) if Mres[i][0] != "R build=undef"]
    open(p, "w").write("\n".join(gen[i][0] for i in keep) + "\n")
    rc, rout = vc.run_lines(exe, p, timeout=600)
    Rres = split_fn_out(rout)
    stats = {"lines": len(gen), "outside_model_domain": len(gen) - len(keep), "build_ok": 0, "build_err": 0,
             "inconsistent": 0, "queries": 0, "query_fail": 0, "mismatches": 0, "harness_rc": rc}
    bad = None
    for j, i in enumerate(keep):
        m = Mres[i]
        rr = Rres[j] if j < len(Rres) else ["<missing: harness died>"]
        stats["build_ok" if m[0].startswith("R build=ok") else "build_err"] += 1
        stats["inconsistent"] += sum(1 for l in m if " consistent=0 " in l)
        stats["queries"] += sum(1 for l in m if l.startswith("R q "))
        stats["query_fail"] += sum(1 for l in m if l == "R q -1")
        ctx.case(("fn", gen[i][0]), m[0].startswith("R build=ok"))
        if rr != m:
            stats["mismatches"] += 1
            if bad is None:
                bad = (gen[i], rr, m)
    ctx.corr("option functions~RepackModel (function level)", **stats)
    if bad is not None:
        g, rr, m = bad
        k = vc.first_diff(rr, m)
        txt = ["# C18 function-level correspondence: the real option functions (R) and the Coq model (M) differ",
               "# options in order: " + " ; ".join("-%s '%s'" % o for o in g[1]),
               "# first differing line:", "#   R: " + (rr[k] if k is not None and k < len(rr) else "<none>"),
               "#   M: " + (m[k] if k is not None and k < len(m) else "<none>"),
               "fnline " + g[0]]
        ctx.violation("correspondence parse/table/options_get_info ~ RepackModel broken: " + " ; ".join(
            "-%s '%s'" % o for o in g[1])[:200], "\n".join(txt), found=False, suffix="case")


def strips_corr(ctx, T):
    """R-vs-M for the data movement of copy_sds: the whole tool compiled into harness/drive_repack_strips.c with
    SDreaddata interposed logs every block hrepack reads; the extracted model (strip_mined, strips, one_piece with the
    regenerated statements and the real H4TOOLS_BUFSIZE) must list exactly the same blocks in the same order"""
    r = ctx.rng
    exe = ctx.harness("drive_repack_strips", ["drive_repack_strips.c"], wraps=["SDreaddata"])
    B, M = tool_buffer_bytes()
    q = max(B // 1048576, 1)
    shapes = [(21, [3, B + 5]), (22, [3, B // 2 + B // 8]), (24, [3, 300 * q, B // 4096 + 744]), (21, [M // 256 + 1, 256]),
              (23, [2, 3, 200 * q, B // 2048 + 488]), (21, [5, 7, 100 * q, B // 4096 + 44]), (6, [2, 400 * q, B // 8192 + 72]),
              (21, [M // 1024, 1024]), (21, [M // 1024 - 1, 1024]), (24, [7, 9]), (5, [2, 3, 4])]
    n = 4 if ctx.tier == "quick" else 11
    picks = r.sample(shapes[:9], n - 1 if n < 11 else 9) + shapes[9:]
    d = os.path.join(T.wd, "strips")
    os.makedirs(d, exist_ok=True)
    script, mlines = [], []
    for k, (nt, dims) in enumerate(picks):
        name = "w%d" % k
        script.append("sds %s %d 0 %d %s seed=%d pat=0 write=all" % (hx(name), nt, len(dims), " ".join(map(str, dims)), k + 1))
        mlines.append("%s %d %d 0 0 %s" % (hx(name), NTSIZE[nt], B, " ".join(map(str, dims))))
    open(os.path.join(d, "in.scr"), "w").write("\n".join(script) + "\n")
    rc, o = vc.sh([T.drv, "gen", os.path.join(d, "in.scr"), os.path.join(d, "in.hdf")], timeout=300, env=vc.HARNESS_ENV)
    if rc != 0:
        raise vc.BuildError("strips_corr: cannot build the input file: " + o[-200:])
    rc, out = vc.sh([exe, os.path.join(d, "in.hdf"), os.path.join(d, "out.hdf")], timeout=600, env=vc.HARNESS_ENV)
    R = [l for l in out.splitlines() if l.startswith("B ")]
    open(os.path.join(d, "m.in"), "w").write("\n".join(mlines) + "\n")
    rcm, mo = vc.run_lines(T.model, os.path.join(d, "m.in"), timeout=300, args=["strips"])
    Mb = [l for l in mo if l.startswith("B ")]
    # hrepack reads the datasets in file order; compare per dataset
    byname = lambda L: {n: [l for l in L if l.split()[1] == n] for n in dict.fromkeys(l.split()[1] for l in L)}
    Rn, Mn = byname(R), byname(Mb)
    stats = {"datasets": len(picks), "blocks_library": len(R), "blocks_model": len(Mb), "harness_rc": rc,
             "strip_mined_datasets": sum(1 for v in Mn.values() if len(v) > 1), "buffer_bytes": B}
    ctx.corr("copy_sds data movement~RepackModel strips (SDreaddata interposed)", **stats)
    for n_ in Mn:
        ctx.case(("strips", tuple(Mn[n_][:3])), len(Mn[n_]) > 1)
    if rc != 0 or rcm != 0 or Rn != Mn:
        bad = next((n_ for n_ in Mn if Rn.get(n_) != Mn[n_]), None)
        a, b = Rn.get(bad, []), Mn.get(bad, [])
        k = vc.first_diff(a, b)
        txt = ["# C18: blocks read by copy_sds (R, SDreaddata interposed) differ from the model's strips (M)",
               "# dataset: " + (bad or "?"), "#   R: " + (a[k] if k is not None and k < len(a) else "<none> (rc=%d)" % rc),
               "#   M: " + (b[k] if k is not None and k < len(b) else "<none>")] + ["stripline " + l for l in mlines]
        ctx.violation("correspondence copy_sds data movement ~ strips broken for dataset %s" % bad, "\n".join(txt),
                      found=False, suffix="case")
    shutil.rmtree(d, ignore_errors=True)


def replay(ctx, path):
    T = Tools(ctx)
    fl = [l[7:] for l in open(path).read().splitlines() if l.startswith("fnline ")]
    if fl:
        exe = ctx.harness("drive_repack_fn", ["drive_repack_fn.c"])
        p = os.path.join(T.wd, "fn.in")
        open(p, "w").write("\n".join(fl) + "\n")
        R = [l for l in vc.run_lines(exe, p)[1] if l.startswith("R ")]
        M = [l for l in vc.run_lines(T.model, p, args=["fn"])[1] if l.startswith("R ")]
        for i in range(max(len(R), len(M))):
            a, b = (R[i] if i < len(R) else "-"), (M[i] if i < len(M) else "-")
            print("%s R: %-60s M: %s" % ("  " if a == b else "!!", a, b))
        shutil.rmtree(T.wd, ignore_errors=True)
        return 0 if R == M else 1
    c = load_case(path)
    c["keep"] = True
    c["id"] = "replay"
    res = run_case(T, c)
    d = os.path.join(T.wd, "case-replay")
    print("script: %d lines; options1: %s ; options2: %s" % (
        len(c["script"]), [raw_of(i) if i[0] != "m" else "-m %d" % i[1] for i in c.get("opts1") or []],
        [raw_of(i) if i[0] != "m" else "-m %d" % i[1] for i in c.get("opts2") or []]))
    if res.get("generror"):
        print("generator error:", res["generror"])
        return 2
    for k in ("r1", "r2"):
        if res.get(k):
            print("%s: hrepack %s" % (k, " ".join("'%s'" % a for a in res[k]["args"])))
            print("    R: rc=%s status=%s   M: %s" % (res[k]["rc"], res.get("status" + k[1]), res[k].get("head")))
            if res[k].get("hrepack_out", "").strip():
                print("    hrepack says: " + res[k]["hrepack_out"].strip().replace("\n", "\n      ")[-500:])
    # side by side layouts of pass 1
    inf = os.path.join(d, "in.hdf")
    _, tin, _ = dump(T, inf)
    if tin is not None:
        canon(tin)
        of = os.path.join(d, "out1.hdf")
        tout = None
        if os.path.exists(of):
            _, tout, _ = dump(T, of)
            if tout is not None:
                canon(tout)
        same = tout is not None and tout.key == tin.key
        head, M, S, V = run_model(T, model_input("replay", c["opts1"], tin, tout if same else None, c.get("structured", True)), "rp")
        fin = flat(tin)
        fout = flat(tout) if same else [None] * len(fin)
        for ix, (a, b) in enumerate(zip(fin, fout)):
            if a.kind in ("sds", "gr"):
                print("  %-3s %-24s in: %-44s R: %-22s M: %-22s S: %s %s" % (
                    a.kind, bytes.fromhex(a.name).decode("latin1"), a.L.replace("comp ", "").replace(" flags", " fl"),
                    lay_fields(b.L) if b is not None else "-", M.get(ix, "-"), S.get(ix, "-"),
                    "" if V.get(ix, 1) else "<== spec not met"))
        if tout is not None and not same:
            print("  content differs: " + (content_diff(tin, tout) or "?"))
    for p in res["problems"]:
        print("!! %s %s: %s" % (p[0], p[1], p[2][:700]))
    print("problems: %d" % len(res["problems"]))
    shutil.rmtree(T.wd, ignore_errors=True)
    return 1 if res["problems"] else 0
