"""C12 -- the tag/ref directory is a faithful persistent map; new refs are never in use.

Three parties on the same histories:  R = the freshly built library driven through Hputelement / Hdupdd / Hdeldd /
HDreuse_tagref / Hfind / Hexist / HDcheck_tagref / Hnumber / Hlength / Hnewref / Htagnewref / Hcache / Hsync /
Hclose+Hopen (harness/drive_dd.c);  M = the extracted implementation model (coq/DDModel.v);  S = the extracted
finite-map specification (coq/DDSpec.v).  R vs S decides the property, R vs M is the tie of the model.
The bit-vector (bitvect.c) is additionally driven directly (harness/drive_bv.c) against coq/DDBvModel.v."""
import os
import vcommon as vc

RULE = ("histories of directory operations drawn from one PRNG (VERIF_SEED): block sizes ndds in {0,1,4,5,6,7,9,16}; "
        "a dozen base tags incl. user tags (bit 15) and special variants (bit 14) of base tags; refs at 1..5, the byte "
        "boundaries of the ref bit-vector (7,8,63,64,65,127,128,129,255,256,257), 65534, 65535 and refs just handed "
        "out by Hnewref/Htagnewref; create / duplicate / delete / reuse / rewrite, caching off, on and toggled, "
        "Hsync, close+reopen; after every history the whole directory is observed (wildcard Hfind in both directions, "
        "per-tag Hfind, Hnumber, Hexist, HDcheck_tagref, Hlength, Hnewref, Htagnewref) before and after a reopen; plus "
        "fixed boundary scenarios (ref 65535 / wrap-around search, odd block sizes, block overflow with caching off, a "
        "session that ends with a full last DD block and nothing behind it in the file -- filled by Hdupdd aliases -- then "
        "reopen, more objects, reopen; the library's end of file is read after every reopen, "
        "duplicate onto a used key, access elements kept open across operations with Hclose refused and retried) and every history of length <= 3 (thorough: <= 5) over a 6-operation alphabet, "
        "each with caching on and off.  A history is non-trivial when it is inside the specification's domain and "
        "changes the directory at least once; distinct by its operation text")
TRUSTED = ["Coq 8.16.1 kernel (vm_compute used for the 256-entry table sweep and the 65536-tag macro sweeps; no native_compute)",
           "translator gen/gen_consts.py + plugin gen/plugins/c12_calls.py (constants of hlimits.h/hfile_priv.h/htags.h/"
           "bitvect.c, BASETAG/SPECIALTAG/MKSPECIALTAG macros, the three bitvect.c tables, call order of HTPdelete/"
           "HTPcreate/Hdupdd) run through gcc -E on the current tree",
           "extraction: Require Extraction + ExtrOcamlBasic only; Z/positive/nat stay inductive types",
           "OCaml driver extract/dd_main.ml, C harnesses harness/drive_dd.c and harness/drive_bv.c, generators and "
           "comparison in checks/C12.py",
           "modelled, not verified: the C text itself (tie = translator + differential runs); tbbt.c and dynarray.c "
           "are modelled as association lists; byte offsets of DD blocks and elements are abstracted (C02 covers the "
           "byte format); atoms, access records, error stack; Hputelement/Hlength as the HTP call sequence they make"]
ASSUMPTIONS = ["property domain: tags other than DFTAG_NULL/DFTAG_WILDCARD/DFTAG_FREE/DFTAG_VERSION (and their special "
               "variants) are created/deleted; refs 1..65535; element lengths >= 1; a rewrite of an existing element "
               "never needs it to grow or to become a linked-block element (C01's domain); elements whose recorded tag "
               "is special are only created with Hdupdd and never read through Hlength",
               "one file, one Hopen at a time (sharing a file record between several Hopen calls is C13's domain)",
               "default DD caching state is the library default (on) at Hopen; the harness toggles it per file id"]

BASE_TAGS = [720, 721, 722, 306, 1962, 1965, 20, 700, 32769, 49153, 61000, 16383]
REFS = [1, 1, 2, 2, 3, 4, 5, 7, 8, 63, 64, 65, 127, 128, 129, 255, 256, 257, 65534, 65535, 65535]
NDDS = [4, 4, 5, 5, 6, 7, 7, 9, 16, 0, 1]


def special(t):
    return t | 0x4000 if t < 0x8000 else t


class Shadow:
    """light generator-side bookkeeping, used only to steer weights (never as an oracle)"""

    def __init__(self):
        self.live = {}     # (base, ref) -> [tag, len]

    def base(self, t):
        return t & ~0x4000 if t < 0x8000 else t


def gen_history(r, length, cache0=None):
    sh = Shadow()
    h = ["open %d" % r.choice(NDDS)]
    if cache0 is None:
        cache0 = r.random() < 0.4
    if cache0:
        h.append("cache 0")
    tags = r.sample(BASE_TAGS, r.choice([1, 2, 3, 4, 6]))
    refs = r.sample(REFS, r.choice([2, 3, 5, 8]))
    have_dollar = False

    def anyref():
        if have_dollar and r.random() < 0.25:
            return "$"
        return str(r.choice(refs))

    def livekey():
        if sh.live and r.random() < 0.85:
            b, rf = r.choice(sorted(sh.live))
            return sh.live[(b, rf)][0], rf
        return r.choice(tags), r.choice(refs)

    for _ in range(length):
        x = r.random()
        if x < 0.27:
            t = r.choice(tags)
            rf = anyref()
            if rf != "$" and (t, int(rf)) in sh.live and r.random() < 0.7:
                cur = sh.live[(t, int(rf))]
                if cur[0] != t:
                    continue          # recorded tag is special: outside the domain of put
                ln = r.choice([1, max(1, cur[1]), cur[1] + 3]) if cur[1] > 0 else r.choice([1, 9])
            else:
                ln = r.choice([1, 2, 5, 9, 17, 100])
            h.append("put %d %s %d" % (t, rf, ln))
            if rf != "$":
                k = (t, int(rf))
                if k not in sh.live:
                    sh.live[k] = [t, ln]
                elif sh.live[k][1] < 0:
                    sh.live[k][1] = ln
        elif x < 0.42:
            ot, orf = livekey()
            nt = r.choice(tags)
            if r.random() < 0.35:
                nt = special(nt)
            nrf = anyref()
            h.append("dup %d %s %d %d" % (nt, nrf, ot, orf))
            if nrf != "$":
                k = (sh.base(nt), int(nrf))
                ko = (sh.base(ot), orf)
                if k not in sh.live and ko in sh.live:
                    old_special = sh.live[ko][0] != sh.base(sh.live[ko][0])
                    sh.live[k] = [special(nt) if old_special else nt, sh.live[ko][1]]
        elif x < 0.57:
            t, rf = livekey()
            if r.random() < 0.2:
                t = special(t)
            h.append("del %d %d" % (t, rf))
            sh.live.pop((sh.base(t), rf), None)
        elif x < 0.60:
            t, rf = livekey()
            k = (sh.base(t), rf)
            if k in sh.live and sh.live[k][0] != sh.base(t):
                continue
            h.append("reuse %d %d" % (t, rf))
            if k in sh.live:
                sh.live[k][1] = -1
        elif x < 0.66:
            h.append("newref")
            have_dollar = True
        elif x < 0.72:
            t = r.choice(tags)
            h.append("tagnewref %d" % (special(t) if r.random() < 0.2 else t))
            have_dollar = True
        elif x < 0.77:
            t = r.choice(tags + [0, 0])
            h.append("number %d" % (special(t) if t and r.random() < 0.3 else t))
        elif x < 0.81:
            t, rf = livekey()
            h.append("exist %d %d" % (r.choice([t, t, 0, special(t)]), r.choice([rf, rf, 0])))
        elif x < 0.83:
            t, rf = livekey()
            h.append("check %d %d" % (r.choice([t, special(t)]), rf))
        elif x < 0.86:
            t, rf = livekey()
            k = (sh.base(t), rf)
            if k in sh.live and sh.live[k][0] != sh.base(t):
                continue
            h.append("length %d %d" % (sh.base(t), rf))
        elif x < 0.905:
            t = r.choice(tags + [0, 0, 0])
            if t and r.random() < 0.3:
                t = special(t)
            h.append("findall %d %d %d" % (t, r.choice([0, 0, 0, r.choice(refs)]), r.choice([1, 2])))
        elif x < 0.925:
            # access elements kept open across the following operations, and an Hclose that may be refused
            y = r.random()
            if y < 0.3:
                t, rf = livekey()
                k = (sh.base(t), rf)
                if k in sh.live and sh.live[k][0] != sh.base(t):
                    continue
                h.append("aopen %d %d" % (sh.base(t), rf))
            elif y < 0.6:
                t, rf = r.choice(tags), r.choice(refs)
                if (t, rf) in sh.live:
                    continue
                h.append("awrite %d %d %d" % (t, rf, r.choice([1, 4, 30])))
                sh.live[(t, rf)] = [t, 1]
            elif y < 0.8:
                h.append("tryclose")
            else:
                h.append("aend")
        elif x < 0.95:
            h.append("cache %d" % r.choice([0, 1]))
        elif x < 0.96:
            h.append("sync")
        elif x < 0.99:
            h += ["reopen", "eof"]
        else:
            h.append("dump")
    return h + observe(tags, refs)


def observe(tags, refs):
    o = ["dump", "findall 0 0 1", "findall 0 0 2", "number 0"]
    for t in tags:
        o += ["number %d" % t, "findall %d 0 1" % t, "findall %d 0 2" % t]
        if t < 0x8000:
            o += ["number %d" % special(t), "findall %d 0 2" % special(t)]
    for rf in refs[:4]:
        o += ["findall 0 %d 1" % rf, "findall 0 %d 2" % rf]
        for t in tags[:3]:
            o += ["exist %d %d" % (t, rf), "check %d %d" % (t, rf)]
    o += ["newref", "tagnewref %d" % tags[0]]
    return o + ["reopen", "eof"] + o


def scenarios(r):
    T, U = r.sample(BASE_TAGS[:8], 2)
    obs = observe([T, U], [1, 2, 3, 65535])
    S = []
    # delete with caching off must persist
    S.append(["open 4", "cache 0", "put %d 1 5" % T, "put %d 2 6" % T, "del %d 1" % T] + obs)
    # Hdupdd with a large new ref, then Hnewref
    S.append(["open 4", "put %d 1 5" % T, "dup %d 3 %d 1" % (T, T), "newref", "newref", "newref", "dup %d 9 %d 1" % (special(U), T),
              "newref"] + obs)
    # odd block sizes, first DD not matching
    for n in (5, 7, 9):
        S.append(["open %d" % n, "put %d 1 5" % T, "number %d" % U, "number %d" % T, "put %d 1 2" % U, "number %d" % U] + obs)
    # duplicate onto a key in use (same tag, and special variant of it)
    S.append(["open 4", "put %d 1 5" % T, "put %d 2 6" % T, "dup %d 2 %d 1" % (T, T), "dup %d 2 %d 1" % (special(T), T),
              "number %d" % T, "findall %d 0 1" % T, "del %d 2" % T, "findall 0 0 1"] + obs)
    # a second DD block is needed while caching is off / on / toggled
    for pre in (["cache 0"], [], ["cache 0", "put %d 9 1" % U, "cache 1"], ["put %d 9 1" % U, "cache 0"]):
        S.append(["open 4"] + pre + ["put %d %d 3" % (T, i) for i in range(1, 7)] + ["dump"] + obs)
    # ref 65535 and the search path of Hnewref after the counter is exhausted
    S.append(["open 5", "put %d 65535 4" % T, "newref", "put %d $ 3" % T, "newref", "put %d $ 3" % U, "put %d 3 1" % T, "newref",
              "dup %d $ %d 1" % (U, T), "newref", "del %d 1" % T, "newref", "newref", "tagnewref %d" % T, "tagnewref %d" % U] + obs)
    S.append(["open 4", "dup %d 65535 30 1" % T, "newref", "tagnewref %d" % T, "put %d 65534 2" % T, "tagnewref %d" % T,
              "put %d 1 2" % T, "tagnewref %d" % T, "newref", "del %d 65535" % T, "newref"] + obs)
    # special variants share the ref space of their base tag
    S.append(["open 6", "put %d 1 5" % T, "dup %d 2 %d 1" % (special(T), T), "put %d 2 7" % T, "number %d" % T, "number %d" % special(T),
              "findall %d 0 1" % T, "findall %d 0 1" % special(T), "exist %d 2" % T, "check %d 2" % T, "tagnewref %d" % T,
              "del %d 2" % T, "put %d 2 7" % T, "tagnewref %d" % special(T)] + obs)
    # fill blocks, punch holes, refill (slot reuse through the DFTAG_NULL cursor)
    for n in (4, 5):
        h = ["open %d" % n] + ["put %d %d 2" % (T, i) for i in range(1, 3 * n)]
        h += ["del %d %d" % (T, i) for i in range(2, 3 * n, 2)] + ["findall 0 0 2", "number %d" % T]
        h += ["put %d %d 2" % (U, i) for i in range(1, n + 2)] + ["dump"]
        S.append(h + obs)
    # a session ends with the last DD block full and nothing behind it in the file (descriptors that bring no
    # data: Hdupdd aliases, reused elements); reopen, create more (forcing a new block), reopen, compare everything
    for n in (4, 5, 8, 16):
        for k in sorted(set([n, r.randrange(1, n + 1)])):
            h = ["open %d" % n] + ["put %d %d %d" % (T, i, 3 + i) for i in range(1, n)]
            h += ["dup %d %d %d 1" % (U, i, T) for i in range(1, k + 1)] + ["dump", "reopen", "eof", "dump"]
            h += ["put %d %d 7" % (T, 100 + i) for i in range(1, r.choice([2, n + 2]))]
            h += ["dump", "reopen", "eof", "dump", "findall 0 0 1", "number %d" % U, "number %d" % T]
            S.append(h + obs)
    h = ["open 4", "cache 0"] + ["put %d %d 5" % (T, i) for i in range(1, 4)] + ["dup %d %d %d 2" % (U, i, T) for i in range(1, 9)]
    S.append(h + ["reuse %d 3" % T, "reopen", "eof", "put %d 9 6" % T, "dup %d 9 %d 9" % (U, T), "reopen", "eof"] + obs)
    # an Hclose refused because access elements are attached, work continues through the same file id, recovery
    # (Hendaccess, Hclose), reopen: nothing of the session may be lost
    for pre in ([], ["cache 0"]):
        for n in (4, 16):
            h = ["open %d" % n] + pre + ["put %d 1 5" % T, "aopen %d 1" % T, "tryclose", "number %d" % T, "number 0", "findall 0 0 1",
                 "exist %d 1" % T, "put %d 2 6" % T, "dup %d 1 %d 2" % (U, T), "awrite %d 3 4" % T, "tryclose", "length %d 3" % T,
                 "newref", "tagnewref %d" % T] + ["put %d %d 2" % (U, i) for i in range(2, n + 1)]
            h += ["tryclose", "dump", "aend", "findall 0 0 2", "tryclose", "eof", "dump", "findall 0 0 1", "number %d" % U]
            S.append(h + obs)
    S.append(["open 5", "awrite %d 1 9" % T, "awrite %d 2 9" % T, "del %d 1" % T, "tryclose", "reuse %d 2" % T, "tryclose", "aend",
              "tryclose", "tryclose", "put %d 2 3" % T] + obs)
    # tag with every low ref used: bit-vector byte boundaries
    S.append(["open 16"] + ["put %d %d 1" % (T, i) for i in range(1, 18)] + ["tagnewref %d" % T, "del %d 8" % T, "tagnewref %d" % T,
             "put %d 8 1" % T, "del %d 16" % T, "tagnewref %d" % T, "del %d 1" % T, "tagnewref %d" % T] + obs)
    return S


ALPHA = ["put 720 1 4", "dup 720 2 720 1", "del 720 1", "del 720 2", "newref", "reopen"]
ALPHA_OBS = ["findall 0 0 1", "findall 0 0 2", "number 720", "check 720 1", "check 720 2", "tagnewref 720", "reopen",
             "findall 0 0 1", "number 0", "newref"]


def exhaustive(maxlen):
    out = []

    def rec(prefix, k):
        if prefix:
            for pre in ([], ["cache 0"]):
                out.append(["open 4"] + pre + prefix + ALPHA_OBS)
        if k == 0:
            return
        for a in ALPHA:
            rec(prefix + [a], k - 1)
    rec([], maxlen)
    return out


# --------------------------------------------------------------------------------------------

def build(ctx):
    exe = ctx.harness("drive_dd", ["drive_dd.c"])
    mod = ctx.model("dd_model", ["dd_main.ml"], ["dd_model"])
    return exe, mod


def run_R(ctx, exe, hists, tag):
    """run the harness on a batch of histories; returns list of per-history (lines, crashed)"""
    tmp = os.path.join(ctx.bdir, "harness", "c12-%s-%d" % (tag, os.getpid()))
    res = []
    i = 0
    while i < len(hists):
        batch = hists[i:i + 200]
        with open(tmp + ".in", "w") as fh:
            for h in batch:
                fh.write("\n".join(h) + "\n")
        rc, out = _run(exe, tmp)
        lines = [l for l in out if " => " in l or l.endswith("=>")]
        need = sum(len(h) for h in batch)
        if rc == 0 and len(lines) == need:
            k = 0
            for h in batch:
                res.append((lines[k:k + len(h)], False, ""))
                k += len(h)
        else:
            for h in batch:               # a crash somewhere: one by one
                with open(tmp + ".in", "w") as fh:
                    fh.write("\n".join(h) + "\n")
                rc1, out1 = _run(exe, tmp)
                l1 = [l for l in out1 if " => " in l or l.endswith("=>")]
                bad = rc1 != 0 or len(l1) != len(h)
                key = [x for x in out1 if "ERROR:" in x or "SUMMARY:" in x or x.lstrip().startswith(("#0 ", "#1 ", "#2 ", "#3 ", "#4 "))
                       or "runtime error" in x]
                res.append((l1, bad, "\n".join((key or out1[-12:])[:14]) if bad else ""))
        i += len(batch)
    for sfx in (".in", ".hdf"):
        try:
            os.unlink(tmp + sfx)
        except OSError:
            pass
    return res


def _run(exe, tmp):
    e = dict(vc.HARNESS_ENV)
    rc, out = vc.sh([exe, tmp + ".in", tmp + ".hdf"], timeout=900, env=e)
    return rc, out.splitlines()


def run_model(ctx, mod, rlines, tag):
    """replay a transcript through the extracted model/spec; long transcripts are cut at history boundaries
    ('open' resets both M and S) so that the list-recursive extracted code stays within the stack"""
    tmp = os.path.join(ctx.bdir, "harness", "c12-%s-%d.tr" % (tag, os.getpid()))
    res, chunk = [], []

    def flush():
        if not chunk:
            return
        with open(tmp, "w") as fh:
            fh.write("\n".join(chunk) + "\n")
        rc, out = vc.sh([mod, "dd", tmp], timeout=900)
        os.unlink(tmp)
        if rc != 0:
            raise vc.BuildError("model driver failed: " + out[-500:])
        res.extend(out.splitlines())
        del chunk[:]
    for l in rlines:
        if l.startswith("open ") and len(chunk) > 20000:
            flush()
        chunk.append(l)
    flush()
    return res


def split(line):
    a, _, b = line.partition("=>")
    return a.strip(), b.strip()


def compare(h, rl, ml):
    """returns (kind, index, text): kind in None | 'RS' | 'RM'; stops at the first op outside S's domain"""
    rm = None
    changed = False
    naid = 0
    for i, (rline, mline) in enumerate(zip(rl, ml)):
        opx, r = split(rline)
        op = opx.split()[0]
        if op in ("open", "reopen"):
            naid = 0
        elif op == "aopen":
            naid += (r == "ok")
            continue
        elif op == "aend":
            naid = 0
            if r != "ok":
                return ("RS", i, "Hendaccess of an open access element failed"), changed
            continue
        elif op == "tryclose":
            want = "refused" if naid > 0 else "ok"
            if r != want:
                return ("RS", i, "Hclose with %d access element(s) attached: library '%s', expected '%s'" % (naid, r, want)), changed
            continue
        elif op == "awrite":
            naid += (r == "ok")
        m, _, s = mline.partition(" ; S ")
        m = m[2:].strip()
        s = s.strip()
        if op == "dump":
            if r != m and rm is None:
                rm = ("RM", i, "DD table differs: library [%s] model [%s]" % (r, m))
            continue
        if op == "eof":
            e = r.split("|")[0].strip()
            if s == "low":
                return ("RS", i, "end of file %s lies inside a live DD block or element: a later allocation overwrites it "
                        "(layout %s)" % (e, r[:160])), changed
            after_reopen = i > 0 and split(rl[i - 1])[0] == "reopen"
            if after_reopen and e != m and rm is None:
                rm = ("RM", i, "end of file after reopen: library %s, HTPstart model %s" % (e, m))
            continue
        if s == "nodomain":
            break
        if op in ("put", "awrite", "dup", "del", "reuse") and r == "ok":
            changed = True
        if op == "findall":
            rs = r.split()
            if "LOOP" in rs:
                return ("RS", i, "Hfind enumeration does not terminate"), changed
            if len(set(rs)) != len(rs):
                return ("RS", i, "Hfind enumerates an entry twice: " + r), changed
            if sorted(rs) != sorted(s.split()):
                return ("RS", i, "enumeration differs from the map: library {%s} spec {%s}" % (r, s)), changed
            if r != m and rm is None:
                rm = ("RM", i, "enumeration order differs: library [%s] model [%s]" % (r, m))
        elif op in ("newref", "tagnewref"):
            if s != "ok":
                return ("RS", i, "%s returned %s, which is %s" % (opx, r, "in use" if r != "0" else "'none free' although a ref is free")), changed
            if r != m and rm is None:
                rm = ("RM", i, "%s: library %s model %s" % (opx, r, m))
        else:
            if r != s:
                return ("RS", i, "%s: library %s spec %s" % (opx, r, s)), changed
            if r != m and rm is None:
                rm = ("RM", i, "%s: library %s model %s" % (opx, r, m))
    return rm, changed


def signature(h, idx):
    """call-pattern signature of a failing history (for known_findings matching)"""
    ops = [l.split()[0] for l in h[:idx + 1]]
    return "ops:" + ",".join(sorted(set(o for o in ops if o in ("put", "dup", "del", "reuse", "cache", "reopen", "newref", "tagnewref"))))


def check_one(ctx, exe, mod, h, tag="one"):
    (rl, crashed, tail), = run_R(ctx, exe, [h], tag)
    if crashed:
        return ("RS", len(rl), "harness crashed / sanitizer report after %d of %d operations\n%s" % (len(rl), len(h), tail)), rl, []
    ml = run_model(ctx, mod, rl, tag)
    v, _ = compare(h, rl, ml)
    return v, rl, ml


def shrink(ctx, exe, mod, h, kind):
    """delta debugging on the operation list (the leading 'open' is kept)"""
    cur = list(h)
    budget = 150
    changed = True
    while changed and budget > 0:
        changed = False
        n = len(cur)
        chunk = max(1, n // 2)
        while chunk >= 1 and budget > 0:
            i = 1
            while i < len(cur) and budget > 0:
                cand = cur[:i] + cur[i + chunk:]
                budget -= 1
                v, _, _ = check_one(ctx, exe, mod, cand, "shr")
                if v is not None and v[0] == kind:
                    cur = cand
                    changed = True
                else:
                    i += chunk
            chunk //= 2
    return cur


def report(ctx, exe, mod, h, v):
    kind = v[0]
    small = shrink(ctx, exe, mod, h, kind)
    v2, rl, ml = check_one(ctx, exe, mod, small, "rep")
    if v2 is None or v2[0] != kind:
        small = h
        v2, rl, ml = check_one(ctx, exe, mod, small, "rep")
        if v2 is None:
            v2 = v
    txt = ["# C12 replay: bin/check C12 --replay <this file>   (history for harness/drive_dd)",
           "# disagreement at operation %d: %s" % (v2[1], v2[2].replace("\n", "\n# "))]
    txt += small
    txt.append("# --- library (R) | model (M) ; specification (S) ---")
    for a, b in zip(rl, ml + [""] * len(rl)):
        txt.append("# %s | %s" % (a, b))
    if kind == "RS":
        ctx.violation("library differs from the directory specification: " + v2[2].splitlines()[0], "\n".join(txt), found=True,
                      signature=signature(small, v2[1]))
    else:
        ctx.violation("library agrees with the specification but not with the model (correspondence R~M of "
                      "dir_refines_map broken): " + v2[2], "\n".join(txt), found=False)


def corpus(ctx):
    d = os.path.join(vc.VERIF, "corpus", "C12")
    out = []
    if os.path.isdir(d):
        for f in sorted(os.listdir(d)):
            if f.endswith(".hist"):
                out.append([l.strip() for l in open(os.path.join(d, f)) if l.strip() and not l.startswith("#")])
    return out


def run(ctx):
    exe, mod = build(ctx)
    r = ctx.rng
    hists = corpus(ctx)
    ncorp = len(hists)
    hists += scenarios(r)
    nrand = 260 if ctx.tier == "quick" else 5000
    for _ in range(nrand):
        hists.append(gen_history(r, r.choice([3, 6, 10, 16, 25, 40])))
    hists += exhaustive(3 if ctx.tier == "quick" else 5)
    res = run_R(ctx, exe, hists, "main")
    allr = []
    for (rl, crashed, _), h in zip(res, hists):
        allr += rl if not crashed else []
    # one model run for all non-crashed histories
    ok_h = [(h, rl) for (rl, crashed, _), h in zip(res, hists) if not crashed]
    ml_all = run_model(ctx, mod, [l for _, rl in ok_h for l in rl], "main")
    stats = {"histories": len(hists), "corpus": ncorp, "operations": 0, "by_op": {}, "failed_calls": {}, "ndds": {},
             "sessions_cache_off": 0, "cache_toggles": 0, "reopens": 0, "multi_block_tables": 0, "max_blocks": 0,
             "ref_65535_histories": 0, "newref_search_path": 0, "special_tag_ops": 0, "outside_domain": 0,
             "tagnewref_zero": 0}
    k = 0
    nviol = 0
    for (rl, crashed, tail), h in zip(res, hists):
        if crashed:
            if nviol < 3:
                report(ctx, exe, mod, h, ("RS", len(rl), "harness crashed / sanitizer report\n" + tail))
            nviol += 1
            continue
        ml = ml_all[k:k + len(rl)]
        k += len(rl)
        v, changed = compare(h, rl, ml)
        # measured input distribution
        stats["operations"] += len(rl)
        wrapped = False
        for line, mline in zip(rl, ml):
            opx, rr = split(line)
            w = opx.split()
            stats["by_op"][w[0]] = stats["by_op"].get(w[0], 0) + 1
            if rr in ("fail", "-1") and w[0] not in ("length",):
                stats["failed_calls"][w[0]] = stats["failed_calls"].get(w[0], 0) + 1
            if w[0] == "open":
                stats["ndds"][w[1]] = stats["ndds"].get(w[1], 0) + 1
            elif w[0] == "cache":
                stats["cache_toggles"] += 1
                if w[1] == "0":
                    stats["sessions_cache_off"] += 1
            elif w[0] == "reopen":
                stats["reopens"] += 1
            elif w[0] == "dump":
                nb = rr.count("[")
                stats["max_blocks"] = max(stats["max_blocks"], nb)
                if nb > 1:
                    stats["multi_block_tables"] += 1
                if rr.startswith("maxref 65535"):
                    wrapped = True
            elif w[0] == "newref" and wrapped:
                stats["newref_search_path"] += 1
            elif w[0] == "tagnewref" and rr == "0":
                stats["tagnewref_zero"] += 1
            if w[0] in ("dup", "del", "number", "findall", "exist", "check", "tagnewref") and len(w) > 1 and w[1].isdigit() \
                    and 0x4000 <= int(w[1]) < 0x8000:
                stats["special_tag_ops"] += 1
            if mline.endswith("; S nodomain") and w[0] != "dump":
                stats["outside_domain"] += 1
        if any(" 65535 " in (l + " ") for l in h):
            stats["ref_65535_histories"] += 1
        ctx.case(tuple(h), changed and v is None or (v is not None),
                 sample={"history": h[:12], "library": [l for l in rl[:12]]} if (k % 4001) < len(rl) else None)
        if v is not None:
            if nviol < 3:
                report(ctx, exe, mod, h, v)
            nviol += 1
    stats["disagreeing_histories"] = nviol
    ctx.corr("directory R~M~S", **stats)
    run_full_tag(ctx, exe)
    run_bv(ctx, mod)
    run_dyn(ctx, mod)


def run_full_tag(ctx, exe):
    """boundary scenario too large for the list-based model/spec drivers: one tag with refs 1..65534 in use, then
    all 65535.  Judged directly by the property: a returned ref must be unused; 0 only when none is free."""
    T = ctx.rng.choice(BASE_TAGS[:8])
    k = ctx.rng.randrange(2, 65000)
    h = ["open 16", "put %d 1 4" % T, "fill %d 2 65534 %d 1" % (T, T), "tagnewref %d" % T, "number %d" % T,
         "dup %d 65535 %d 1" % (T, T), "tagnewref %d" % T, "newref", "del %d %d" % (T, k), "tagnewref %d" % T, "newref",
         "del %d 65535" % T, "tagnewref %d" % T, "reopen", "number %d" % T, "tagnewref %d" % T]
    (rl, crashed, tail), = run_R(ctx, exe, [h], "full")
    used = set()
    bad = None
    if crashed:
        bad = "harness crashed / sanitizer report\n" + tail
    for line in ([] if crashed else rl):
        opx, r = split(line)
        w = opx.split()
        if w[0] == "put" and r == "ok":
            used.add(int(w[2]))
        elif w[0] == "fill":
            used.update(range(int(w[2]), int(w[3]) + 1))
            if int(r) != int(w[3]) - int(w[2]) + 1:
                bad = bad or "%s: %s descriptors created" % (opx, r)
        elif w[0] == "dup" and r == "ok":
            used.add(int(w[2]))
        elif w[0] == "del" and r == "ok":
            used.discard(int(w[2]))
        elif w[0] == "number" and int(r) != len(used):
            bad = bad or "%s: library %s, %d entries exist" % (opx, r, len(used))
        elif w[0] in ("tagnewref", "newref"):
            v = int(r)
            free = len(used) < 65535
            if (v == 0 and free) or (v != 0 and (v in used or not 1 <= v <= 65535)):
                bad = bad or "%s returned %d (%s)" % (opx, v, "a reference is free" if v == 0 else "in use")
    ctx.case(tuple(h), True, sample={"history": h, "library": rl})
    ctx.corr("one tag with 65534/65535 references in use (library vs property directly)", operations=len(h),
             refs_in_use_max=65535, ok=bad is None)
    if bad:
        ctx.violation("reference allocation at the 65535 boundary: " + bad.splitlines()[0],
                      "# C12 replay (library only; too large for the model drivers)\n# " + bad.replace("\n", "\n# ") + "\n" +
                      "\n".join(h) + "\n" + "\n".join("# R " + l for l in rl), found=True)


# ------------------------------- bit-vector, driven directly -------------------------------------

def gen_bv(r, tier):
    seqs = []
    for _ in range(60 if tier == "quick" else 600):
        nb = r.choice([-1, -1, -1, 1, 7, 8, 9, 64, 511, 512, 513, 1000])
        ops = ["new %d" % nb]
        hot = [0, 1, 7, 8, 9, 15, 16, 127, 128, 129, 511, 512, 513, 519, 520, 1023, 1024, 4095, 4096, 65535, 65536]
        for _ in range(r.choice([5, 20, 60])):
            x = r.random()
            if x < 0.5:
                ops.append("s %d %d" % (r.choice(hot + [r.randrange(0, 200)] * 6), r.choice([1, 1, 1, 0])))
            elif x < 0.7:
                ops.append("g %d" % r.choice(hot + [r.randrange(0, 200)] * 6))
            else:
                ops.append("z")
        seqs.append(ops)
    # dense prefixes: fill 0..n-1, then ask for the next zero, clear one, ask again
    for n in [1, 7, 8, 9, 16, 127, 128, 129, 512, 520, 1024] + ([65536] if tier == "thorough" else [2048]):
        ops = ["new -1"] + ["s %d 1" % i for i in range(n)] + ["z", "z"]
        c = r.randrange(0, n)
        ops += ["s %d 0" % c, "z", "s %d 1" % c, "z", "s %d 0" % (n // 2), "s %d 0" % (n - 1), "z", "g %d" % (n // 2), "g %d" % n]
        seqs.append(ops)
    seqs.append(["new 0", "new -2", "new 1", "z", "s -1 1", "g -1", "s 0 1", "z", "z", "s 1 0", "z"])
    return seqs


def run_bv(ctx, mod):
    exe = ctx.harness("drive_bv", ["drive_bv.c"])
    seqs = gen_bv(ctx.rng, ctx.tier)
    tmp = os.path.join(ctx.bdir, "harness", "c12-bv-%d.in" % os.getpid())
    with open(tmp, "w") as fh:
        for s in seqs:
            fh.write("\n".join(s) + "\n")
    rc, R = vc.run_lines(exe, tmp, timeout=900)
    rcm, M = vc.sh([mod, "bv", tmp], timeout=900)
    M = M.splitlines()
    flat = [l for s in seqs for l in s]
    stats = {"sequences": len(seqs), "calls": len(flat), "agree": 0, "extensions": 0, "find_next_zero": 0}
    bad = None
    if rc != 0 or rcm != 0 or len(R) != len(M):
        bad = (min(len(R), len(M)), "crash or length mismatch (harness rc=%d, %d lines; model rc=%d, %d lines)" % (rc, len(R), rcm, len(M)))
    # independent oracle for the bit-vector's meaning: a set of bits
    bits, live, prev_asz = set(), False, None
    for i, (op, rl) in enumerate(zip(flat, R)):
        w = op.split()
        if w[0] == "new":
            bits, live = set(), rl == "new ok"
            prev_asz = None
            if rl != (M[i] if i < len(M) else None) and bad is None:
                bad = (i, "bv_new: library '%s' model '%s'" % (rl, M[i] if i < len(M) else "?"))
            continue
        if not live:
            continue
        f = rl.split()
        if w[0] == "s" and int(w[1]) >= 0:
            (bits.add if w[2] == "1" else bits.discard)(int(w[1]))
        if w[0] == "g" and int(w[1]) >= 0 and int(f[0]) != (1 if int(w[1]) in bits else 0):
            ctx.violation("bv_get disagrees with the bits set so far", "# C12 bit-vector replay (harness drive_bv)\n" +
                          "\n".join(flat[max(0, i - 400):i + 1]) + "\n# library: " + rl, found=True, suffix="bv")
            return
        if w[0] == "z":
            stats["find_next_zero"] += 1
            z = 0
            while z in bits:
                z += 1
            if int(f[0]) != z:
                # a set bit handed out = a reference in use handed out (property violated); a clear but not
                # least bit only breaks the bit-vector theorem the freshness proof rests on
                j = max(k for k in range(i + 1) if flat[k].startswith("new"))
                ctx.violation("bv_find_next_zero returned %s, least clear bit is %d" % (f[0], z),
                              "# C12 bit-vector replay (harness drive_bv); bv_find_least_zero no longer describes the code\n" +
                              "\n".join(flat[j:i + 1]) + "\n# library: " + rl,
                              found=(int(f[0]) in bits or int(f[0]) < 0), suffix="bv")
                return
        if prev_asz is not None and f[2] != prev_asz:
            stats["extensions"] += 1
        prev_asz = f[2]
        if i < len(M) and rl == M[i]:
            stats["agree"] += 1
        elif bad is None:
            bad = (i, "%s: library '%s' model '%s'" % (op, rl, M[i] if i < len(M) else "?"))
    os.unlink(tmp)
    ctx.corr("bitvect.c R~M (result, bits_used, array_size, last_zero)", **stats)
    if bad is not None:
        i = bad[0]
        j = max([k for k in range(min(i, len(flat) - 1) + 1) if flat[k].startswith("new")] or [0])
        ctx.violation("bit-vector model and library differ (correspondence of bv_find_least_zero broken): " + bad[1],
                      "# C12 bit-vector replay (harness drive_bv)\n" + "\n".join(flat[j:i + 1]) + "\n# " + bad[1],
                      found=False, suffix="bv")


def replay(ctx, path):
    lines = [l.strip() for l in open(path).read().splitlines() if l.strip() and not l.startswith("#")]
    mod = ctx.model("dd_model", ["dd_main.ml"], ["dd_model"])
    if path.endswith(".dyn"):
        exe = ctx.harness("drive_dyn", ["drive_dyn.c"])
        tmp = path + ".in"
        open(tmp, "w").write("\n".join(lines) + "\n")
        rc, R = vc.run_lines(exe, tmp)
        _, M = vc.sh([mod, "dyn", tmp])
        os.unlink(tmp)
        for op, a, b in zip(lines, R, M.splitlines()):
            print("%-14s R %-20s M %s%s" % (op, a, b, "" if a == b else "   <-- differs"))
        return 0
    if path.endswith(".bv") or (lines and lines[0].startswith("new")):
        exe = ctx.harness("drive_bv", ["drive_bv.c"])
        tmp = path + ".in"
        open(tmp, "w").write("\n".join(lines) + "\n")
        rc, R = vc.run_lines(exe, tmp)
        _, M = vc.sh([mod, "bv", tmp])
        os.unlink(tmp)
        for op, a, b in zip(lines, R, M.splitlines()):
            print("%-14s R %-28s M %s%s" % (op, a, b, "" if a == b else "   <-- differs"))
        return 0
    exe = ctx.harness("drive_dd", ["drive_dd.c"])
    if any(l.startswith("fill") for l in lines):
        (rl, crashed, tail), = run_R(ctx, exe, [lines], "replay")
        print("\n".join("R " + l for l in rl))
        print(tail if crashed else "(library only: history too large for the model drivers)")
        return 0
    v, rl, ml = check_one(ctx, exe, mod, lines, "replay")
    for a, b in zip(rl, ml + [""] * len(rl)):
        print("R %s | %s" % (a, b))
    if len(rl) < len(lines):
        print("R stopped after %d of %d operations" % (len(rl), len(lines)))
    print("verdict:", "agree" if v is None else "%s at operation %d: %s" % (v[0], v[1], v[2]))
    return 0


# ------------------------------- dynarray.c, driven directly ----------------------------------------

def run_dyn(ctx, mod):
    """dynarray.c against coq/DDDynModel.v (results and num_elems after every call) and against a dict (the finite map)"""
    r = ctx.rng
    exe = ctx.harness("drive_dyn", ["drive_dyn.c"])
    seqs = []
    for _ in range(40 if ctx.tier == "quick" else 400):
        start, incr = r.choice([(64, 256), (64, 256), (0, 1), (0, 4), (1, 1), (5, 3), (8, 8), (0, 256)])
        ops = ["new %d %d" % (start, incr)]
        hot = [0, 1, start - 1, start, start + 1, incr - 1, incr, incr + 1, 2 * incr - 1, 2 * incr, 63, 64, 65, 255, 256, 257,
               319, 320, 321, 511, 512, 65535]
        hot = [x for x in hot if x >= 0]
        for _ in range(r.choice([4, 15, 40])):
            x = r.random()
            e = r.choice(hot + [r.randrange(0, 600)] * 4)
            if x < 0.45:
                ops.append("s %d %d" % (e, r.randrange(0, 1000)))
            elif x < 0.75:
                ops.append("g %d" % e)
            else:
                ops.append("d %d" % e)
        seqs.append(ops)
    seqs.append(["new -1 4", "new 4 0", "new 0 -3", "new 0 1", "g 0", "d 0", "s 0 7", "g 0", "d 0", "d 0", "s -1 3", "g -1", "d -1"])
    tmp = os.path.join(ctx.bdir, "harness", "c12-dyn-%d.in" % os.getpid())
    flat = [l for s_ in seqs for l in s_]
    with open(tmp, "w") as fh:
        fh.write("\n".join(flat) + "\n")
    rc, R = vc.run_lines(exe, tmp, timeout=600)
    rcm, M = vc.sh([mod, "dyn", tmp], timeout=600)
    os.unlink(tmp)
    M = M.splitlines()
    stats = {"sequences": len(seqs), "calls": len(flat), "agree": 0, "growths": 0}
    bad = None
    if rc != 0 or rcm != 0 or len(R) != len(M) or len(R) != len(flat):
        bad = (min(len(R), len(M)), "crash or length mismatch (harness rc=%d, %d lines; model rc=%d, %d lines; %d calls)" % (
            rc, len(R), rcm, len(M), len(flat)))
    shadow, live, prev = {}, False, None
    for i, (op, rl) in enumerate(zip(flat, R)):
        w = op.split()
        if w[0] == "new":
            shadow, live, prev = {}, rl == "new ok", None
        elif live:
            res, num = rl.split()
            e = int(w[1])
            want = None
            if w[0] == "s" and e >= 0:
                shadow[e] = int(w[2]) + 1
            elif w[0] == "g":
                want = shadow.get(e, 0) if e >= 0 else 0
            elif w[0] == "d":
                want = shadow.pop(e, 0) if e >= 0 else 0
            if want is not None and int(res) != want:
                j = max(k for k in range(i + 1) if flat[k].startswith("new"))
                ctx.violation("dynarray.c returned %s for '%s', the finite map has %d" % (res, op, want),
                              "# C12 dynarray replay (harness drive_dyn)\n" + "\n".join(flat[j:i + 1]) + "\n# library: " + rl,
                              found=True, suffix="dyn")
                return
            if prev is not None and num != prev:
                stats["growths"] += 1
            prev = num
        if i < len(M) and rl == M[i]:
            stats["agree"] += 1
        elif bad is None:
            bad = (i, "%s: library '%s' model '%s'" % (op, rl, M[i] if i < len(M) else "?"))
    ctx.corr("dynarray.c R~M (result, num_elems) and R~finite map", **stats)
    if bad is not None:
        i = bad[0]
        j = max([k for k in range(min(i, len(flat) - 1) + 1) if flat[k].startswith("new")] or [0])
        ctx.violation("dynarray model and library differ (correspondence of dyn_refines_map broken): " + bad[1],
                      "# C12 dynarray replay (harness drive_dyn)\n" + "\n".join(flat[j:i + 1]) + "\n# " + bad[1],
                      found=False, suffix="dyn")
