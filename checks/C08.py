"""C08 -- Vgroup membership, naming and hierarchy persist exactly as edited.
R (library, harness/drive_vg.c) vs S (coq/VGraphSpec.v, extracted) on generated Vgroup edit histories;
R vs M (coq/VGModel.v, extracted) on the same histories plus record-codec histories (capacity growth, packed
record bytes, records of both versions with attribute lists)."""
import os
import re
import shutil
import vcommon as vc

RULE = ("histories of 20-90 Vgroup operations on one file (Vattach(-1)/Vattach/Vdetach, Vsetname/Vsetclass with names "
        "of 0..300 bytes incl. 63/64/65/127/128/255/256, Vaddtagref singly and in runs crossing 64/128/256 members "
        "with duplicates, Vinsert of vgroup and vdata handles, Vdeletetagref of first/middle/last/duplicate/absent "
        "members, Vdelete/VSdelete, reopen) with observers Vntagrefs/Vgettagrefs/Vgettagref/Vinqtagref/Vnrefs/"
        "Vgetname/Vgetclass/Vinquire/Visvg/Visvs/Vlone/VSlone/Vgetid/VSgetid/Vfind/Vfindclass/VSfind/VSfindclass/"
        "Vgetvgroups (arrays and count-only)/VSgetvdatas/VSofclass (file id and vgroup id, incl. internal and chunk-table "
        "classes)/Ventries/VQuerytag/Vgisinternal/Vflocate interleaved, VHmakegroup with duplicate pairs (adjacent, apart, "
        "same ref under another tag), reopen through Vfinish+Hclose and through Vclose/Vopen; names, classes and lookup "
        "keys drawn from near-miss string families (proper prefixes, one byte more / fewer, last byte changed, strings "
        "agreeing on the first 5/6/7/12/13/14/63/64/65 bytes -- lengths of the library's own class names, of the "
        "chunk-table prefix and the legacy name limit -- and differing right after), renames to near misses of the "
        "current value (records shrinking / growing by 1-3 bytes), a final lookup of every existing name and class "
        "through every lookup routine, through still-open handles and after detach (in random order) and reopen; five "
        "generator profiles (edit, growth, names, hierarchy, codec), table histories (every ordered pair of deletions "
        "among 3..10 vgroups and 3..8 vdatas, random longer deletion sequences, full enumeration after each deletion in "
        "the same session), error-path histories (over-long names, duplicate inserts, absent members, missing objects, "
        "each followed by a read-back) plus store histories (Hputelement over existing "
        "elements, records shrinking / growing by 1-5 bytes with the raw element compared after every Vdetach); all choices from one PRNG (VERIF_SEED); a light "
        "shadow state only steers weights; reference numbers are taken from the library and only checked for "
        "freshness.  A history is non-trivial when it edits a member list and reads it back after a reopen; "
        "distinct by operation text")
TRUSTED = ["Coq 8.16.1 kernel", "extraction (ExtrOcamlBasic only; Z/positive/nat inductive)",
           "OCaml driver extract/vgraph_main.ml; C harness harness/drive_vg.c; generator, reference resolution and "
           "comparison in checks/C08.py",
           "translator gen_consts.py + plugin gen/plugins/vg_tables.py (constants, internal class-name table, codec "
           "statement layout and growth/shift statements in gen/Gen_VG.v)",
           "modelled, not verified: that hfile.c's descriptors / free space implement the element map under the "
           "records (Hputelement in place vs sized, HDreuse_tagref, Hdeldd are modelled and tied by R-vs-M on the raw "
           "bytes; see C01/C12), the TBBT (an ordered table), Vdata records "
           "(a table ref -> name, class; see C07)"]
ASSUMPTIONS = ["domain: all Vgroup/Vdata handles are detached before the file is closed; Vdelete/VSdelete only of "
               "objects without open handles (stale handles are C13); tags/refs in 0..65535, names without NUL; "
               "Vfind/Vfindclass/VSfind/VSfindclass not with the empty string; reference numbers of new objects are "
               "inputs (allocation is C12)"]

VG, VH = 1965, 1962
NAME_LENS = [0, 1, 2, 5, 12, 31, 63, 64, 65, 100, 127, 128, 129, 255, 256, 257, 300]
INTERNAL = [b"Var0.0", b"Dim0.0", b"UDim0.0", b"CDF0.0", b"RIG0.0", b"RI0.0"]
INTERNAL_VS = [b"DimVal0.0", b"DimVal0.1", b"Attr0.0", b"SDSVar", b"CoordVar", b"_HDF_CHK_TBL_", b"_HDF_CHK_TBL_0",
               b"RIATTR0.0N", b"RIATTR0.0C"]


def hexs(b):
    return b.hex() if b else "-"


def rname(r, long_=False):
    n = r.choice(NAME_LENS if long_ else [0, 1, 1, 2, 3, 5, 8, 12])
    style = r.randrange(3)
    if style == 0:
        return bytes([r.randrange(97, 123)]) * n
    if style == 1:
        return bytes((65 + i % 26) for i in range(n))
    return bytes(r.randrange(1, 256) for _ in range(n))


def siblings(s, maxlen=400):
    """near misses of a byte string: the string itself, proper prefixes, one byte more, last byte changed, and strings
    that agree with it on the first 5/6/7/12/13/14 bytes (the lengths of the library's own class names and of the
    chunk-table prefix) or 63/64/65 bytes (the legacy name limit) and differ right after -- what a prefix comparison
    confuses with the original"""
    out = [s]
    if s:
        out += [s[:-1], s[:-1] + bytes([(s[-1] % 120) + 1]), s + b"x", s + b"_2", s[:max(1, len(s) // 2)]]
    for k in (5, 6, 7, 12, 13, 14, 63, 64, 65):
        if len(s) > k:
            out += [s[:k], s[:k] + bytes([(s[k] % 120) + 2]) + s[k + 1:], s[:k] + b"_max", s[:k] + b"_min"]
    return [x for x in out if x and 0 not in x and len(x) <= maxlen]


def string_family(r):
    """the names / classes / queries of one history are drawn from a few such families"""
    fam = set()
    for L in r.sample([3, 6, 7, 12, 13, 14, 18, 30], 2):
        fam |= set(siblings(bytes(r.randrange(97, 123) for _ in range(L)), 60))
    for x in r.sample(INTERNAL + INTERNAL_VS, 3):
        fam |= set(siblings(x, 60))
    return sorted(fam)


class Shadow:
    def __init__(self):
        self.objs = {}        # label -> dict(kind, alive, members(list of (tag, reftoken)), name, cls)
        self.gh = {}          # vgroup handle slot -> (label, writable)
        self.sh = {}          # vdata handle slot -> label
        self.next = 0

    def alive(self, kind):
        return [k for k, o in self.objs.items() if o["alive"] and o["kind"] == kind]

    def attached(self, k):
        return [s for s, (l, _) in self.gh.items() if l == k] if self.objs[k]["kind"] == "g" else \
               [s for s, l in self.sh.items() if l == k]


PROFILES = {
    #             new  att  det  name add  many ins  del  vdel vsnew vsdel reopen obs
    "edit":      (8,   8,   7,   8,   22,  3,   8,   14,  3,   4,    2,    4,     30),
    "growth":    (3,   4,   3,   2,   10,  16,  3,   16,  1,   1,    0,    5,     25),
    "names":     (8,   8,   7,   30,  6,   1,   3,   3,   2,   5,    2,    6,     30),
    "hier":      (12,  10,  9,   8,   12,  1,   14,  8,   8,   8,    5,    4,     35),
}


def gen_history(r, name, profile):
    sh = Shadow()
    L = ["history " + name, "open"]
    w = PROFILES[profile]
    kinds = ["new", "att", "det", "name", "add", "many", "ins", "del", "vdel", "vsnew", "vsdel", "reopen", "obs"]
    long_names = profile == "names"
    fam = string_family(r)

    # stems of the lengths at which the library's comparisons switch from "whole string" to "prefix": names built on
    # one stem agree on exactly that many bytes and differ afterwards
    stems = {k: bytes(r.randrange(97, 123) for _ in range(k)) for k in (5, 6, 7, 12, 13, 14, 63, 64, 65)}
    stems[13] = r.choice([stems[13], b"_HDF_CHK_TBL_"])

    def fname(long_=False):
        x = r.random()
        if long_ and x < 0.25:      # vgroup names only: the legacy 64-byte limit
            return stems[r.choice([63, 64, 64, 65])] + r.choice([b"", b"a", b"b", b"_tail_one", b"_tail_two"])
        if x < 0.3:
            return stems[r.choice([5, 6, 7, 12, 13, 13, 13, 14])] + r.choice([b"", b"a", b"b", b"_min", b"_max", b"_2m_max"])
        if x < 0.5:
            return r.choice(fam)
        return rname(r, long_)

    def query(existing, long_=False):
        """a lookup key: an existing value, a near miss of one, a member of the history's families, or random"""
        x = r.random()
        existing = [e for e in existing if e]
        if existing and x < 0.35:
            return r.choice(existing)
        if existing and x < 0.7:
            return r.choice(siblings(r.choice(existing)))
        if x < 0.9:
            return r.choice(fam)
        return rname(r, long_) or b"q"

    def free_g():
        c = [s for s in range(12) if s not in sh.gh]
        return r.choice(c) if c else None

    def free_s():
        c = [s for s in range(6) if s not in sh.sh]
        return r.choice(c) if c else None

    def writable_handles():
        """handles through which an edit is expected to work (any handle of a writable vgroup); now and then
        also the handles of read-only vgroups: those edits must be refused and change nothing"""
        ws = [h for h, (l, wr) in sh.gh.items() if sh.objs[l]["acc"]]
        if r.random() < 0.12:
            ro = [h for h, (l, wr) in sh.gh.items() if not sh.objs[l]["acc"]]
            if ro:
                return [("ro", r.choice(ro))]
        return ws

    def ro_edit(h):
        mem = sh.objs[sh.gh[h][0]]["members"]
        c = r.randrange(6)
        if c == 0:
            L.append("addtagref %d %d %s" % (h, tagpick(), reftok()))
        elif c == 1 and mem:
            L.append("deltagref %d %d %s" % ((h,) + r.choice(mem)))
        elif c == 2:
            L.append("setname %d %s" % (h, hexs(rname(r) or b"x")))
        elif c == 3:
            L.append("setclass %d %s" % (h, hexs(rname(r) or b"x")))
        elif c == 4:
            L.append("insertvg %d %d" % (h, h))
        else:
            L.append("addmany %d 720 1 3 1" % h)
        L.append("gettagrefs %d %d" % (h, len(mem) + 2))

    def reftok():
        x = r.random()
        if x < 0.45 and sh.objs:
            return "@%d" % r.choice(list(sh.objs.keys()))     # any object ever created, alive or deleted
        if x < 0.9:
            return str(r.randrange(1, 14))
        return str(r.choice([0, 65535, 65534, 300, 4000]))

    def tagpick():
        return r.choice([VG, VG, VG, VH, VH, 720, 306, 100, 1, 0, 65535, 1963])

    def observe(s_only=None):
        x = r.random()
        gs = list(sh.gh.keys())
        if gs and x < 0.55:
            h = r.choice(gs) if s_only is None else s_only
            k = sh.gh[h][0]
            mem = sh.objs[k]["members"]
            c = r.randrange(20)
            if c >= 13:
                vcls = [sh.objs[v]["cls"] for v in sh.alive("s") if sh.objs[v]["cls"]]
                if c == 13:
                    L.append("vsgetvdatasg %d %d %d" % (h, r.choice([0, 0, 0, 1, 2, 5]), r.choice([0, 1, 2, 3, 10])))
                elif c == 14:
                    q = query(vcls)
                    L.append("vsofclassg %d %s %d %d" % (h, hexs(q), r.choice([0, 0, 0, 1, 2]), r.choice([0, 1, 2, 10])))
                elif c == 15:
                    L.append("countvgroupsg %d %d" % (h, r.choice([0, 0, 1, 2, 4])))
                elif c == 16:
                    L.append("querytag %d" % h)
                elif c == 17:
                    L.append("gisinternal %d" % h)
                elif c == 18:
                    L.append("flocate %d %s" % (h, r.choice(["66", "66", "67", "7a7a"])))
                else:
                    L.append("vsgetvdatasg %d 0 64" % h)
                return
            if c == 0:
                L.append("ntagrefs %d" % h)
            elif c == 1:
                L.append("gettagrefs %d %d" % (h, r.choice([0, 1, len(mem), len(mem), max(0, len(mem) - 1), len(mem) + 3])))
            elif c == 2:
                L.append("gettagref %d %d" % (h, r.choice([0, len(mem) - 1, len(mem), len(mem) // 2, -1])))
            elif c == 3:
                if mem and r.random() < 0.7:
                    t, rt = r.choice(mem)
                else:
                    t, rt = tagpick(), reftok()
                L.append("inqtagref %d %d %s" % (h, t, rt))
            elif c == 4:
                L.append("nrefs %d %d" % (h, tagpick()))
            elif c == 5:
                L.append("getname %d" % h)
            elif c == 6:
                L.append("getclass %d" % h)
            elif c == 7:
                L.append("inquire %d" % h)
            elif c == 8:
                L.append("queryref %d" % h)
            elif c == 9:
                L.append("%s %d %s" % (r.choice(["isvg", "isvs"]), h, reftok()))
            elif c == 10:
                L.append("getvgroupsg %d %d %d" % (h, r.choice([0, 0, 0, 1, 2, 5]), r.choice([1, 2, 3, 10])))
            elif c == 11:
                L.append("getnext %d %s" % (h, r.choice(["-1", reftok()])))
            else:
                L.append("msize %d" % h)
            return
        c = r.randrange(17)
        if c >= 12:
            vcls = [sh.objs[v]["cls"] for v in sh.alive("s") if sh.objs[v]["cls"]]
            if c == 12:
                L.append("vsgetvdatasf %d %d" % (r.choice([0, 0, 0, 1, 2, 7]), r.choice([0, 1, 2, 3, 10, 40])))
            elif c == 13:
                q = query(vcls)
                L.append("vsofclassf %s %d %d" % (hexs(q), r.choice([0, 0, 0, 1, 2]), r.choice([0, 1, 2, 10])))
            elif c == 14:
                L.append("countvgroupsf %d" % r.choice([0, 0, 0, 1, 3]))
            else:
                L.append("ventries %s" % r.choice(["0", "-1", reftok(), reftok()]))
            return
        if c == 0:
            L.append("lone %d" % r.choice([0, 1, 3, 40]))
        elif c == 1:
            L.append("vslone %d" % r.choice([0, 1, 3, 40]))
        elif c == 2:
            L.append("iter")
        elif c == 3:
            L.append("vsiter")
        elif c == 4:
            L.append("getid %s" % r.choice(["-1", reftok(), reftok()]))
        elif c == 5:
            L.append("vsgetid %s" % r.choice(["-1", reftok(), reftok()]))
        elif c in (6, 7):
            gl = sh.alive("g")
            attr = r.choice(["name", "cls"])
            nm = query([sh.objs[g_][attr] for g_ in gl], long_names)
            if nm:
                L.append("%s %s" % ("find" if attr == "name" else "findclass", hexs(nm)))
        elif c == 8:
            sl = sh.alive("s")
            attr = r.choice(["name", "cls"])
            nm = query([sh.objs[v_][attr] for v_ in sl])
            if nm:
                L.append("%s %s" % ("vsfind" if attr == "name" else "vsfindclass", hexs(nm)))
        elif c == 9:
            L.append("getvgroupsf %d %d" % (r.choice([0, 0, 0, 1, 2, 7]), r.choice([1, 2, 3, 10, 40])))
        elif c == 10 and sh.alive("g"):
            L.append("rawvg @%d" % r.choice(sh.alive("g")))
        else:
            L.append("lone 40")

    def dump_all(final=False):
        """attach every live vgroup and read everything back"""
        for k in sh.alive("g"):
            L.append("vgattach 15 @%d %s" % (k, r.choice(["r", "w"])))
            n = len(sh.objs[k]["members"])
            L.append("ntagrefs 15")
            L.append("gettagrefs 15 %d" % (n + 1))
            L.append("getname 15")
            L.append("getclass 15")
            L.append("msize 15")
            if r.random() < 0.5:
                L.extend(["vsgetvdatasg 15 0 64", "getvgroupsg 15 0 64"])
            L.append("vgdetach 15")
        L.extend(["iter", "vsiter", "getvgroupsf 0 64", "vsgetvdatasf 0 64"])
        if final:
            # every existing name and class is looked up once, through every lookup routine
            seen = set()
            for k in sh.alive("s"):
                o = sh.objs[k]
                if o["cls"] and ("c", o["cls"]) not in seen:
                    seen.add(("c", o["cls"]))
                    L.extend(["vsofclassf %s 0 64" % hexs(o["cls"]), "vsfindclass %s" % hexs(o["cls"])])
                if o["name"] and ("n", o["name"]) not in seen:
                    seen.add(("n", o["name"]))
                    L.append("vsfind %s" % hexs(o["name"]))
            for k in sh.alive("g"):
                o = sh.objs[k]
                if o["cls"] and ("gc", o["cls"]) not in seen:
                    seen.add(("gc", o["cls"]))
                    L.append("findclass %s" % hexs(o["cls"]))
                if o["name"] and ("gn", o["name"]) not in seen:
                    seen.add(("gn", o["name"]))
                    L.append("find %s" % hexs(o["name"]))
        if final or r.random() < 0.25:
            L.extend(["lone 64", "vslone 64"])

    def detach_all(observe_first):
        hs_ = list(sh.gh.keys())
        r.shuffle(hs_)
        for h in hs_:
            if observe_first:
                n = len(sh.objs[sh.gh[h][0]]["members"])
                L.extend(["gettagrefs %d %d" % (h, n + 1), "getname %d" % h, "getclass %d" % h])
            L.append("vgdetach %d" % h)
            del sh.gh[h]
        for h in list(sh.sh.keys()):
            L.append("vsdetach %d" % h)
            del sh.sh[h]

    nops = r.randrange(20, 90)
    for _ in range(nops):
        k = r.choices(kinds, weights=w)[0]
        if not sh.alive("g") and k not in ("new", "vsnew", "obs"):
            k = "new"
        if k == "new" and r.random() < 0.3 and len(sh.alive("g")) < 10:
            # VHmakegroup: a whole vgroup from tag/ref arrays, duplicates (adjacent, apart, same ref other tag) included
            lab = sh.next
            sh.next += 1
            n = r.choice([0, 1, 2, 3, 5, 8, 8, 66])
            pool = [(tagpick(), reftok()) for _ in range(max(1, min(n, 4)))]
            mem = []
            for _ in range(n):
                x = r.random()
                if mem and x < 0.25:
                    mem.append(mem[-1])                          # adjacent duplicate
                elif mem and x < 0.45:
                    mem.append(r.choice(mem))                    # duplicate further back
                elif mem and x < 0.55:
                    mem.append((tagpick(), mem[-1][1]))          # same ref under another tag
                else:
                    mem.append(r.choice(pool) if r.random() < 0.5 else (tagpick(), reftok()))
            nm = None if r.random() < 0.2 else fname(long_names)
            cl = None if r.random() < 0.4 else (r.choice(INTERNAL) if r.random() < 0.15 else fname())
            L.append("vhmakegroup %s %s =%d%s" % ("~" if nm is None else hexs(nm), "~" if cl is None else hexs(cl), lab,
                                                  "".join(" %d %s" % p for p in mem)))
            sh.objs[lab] = dict(kind="g", alive=True, members=list(mem), name=nm or b"", cls=cl or b"", acc=False)
            continue
        if k == "new":
            h = free_g()
            if h is None or len(sh.alive("g")) >= 10:
                continue
            lab = sh.next
            sh.next += 1
            L.append("vgnew %d =%d" % (h, lab))
            sh.objs[lab] = dict(kind="g", alive=True, members=[], name=b"", cls=b"", acc=True)
            sh.gh[h] = (lab, True)
        elif k == "att":
            h = free_g()
            if h is None:
                continue
            if r.random() < 0.93:
                lab = r.choice(sh.alive("g"))
                mode = r.choice(["w", "w", "w", "r"])
                L.append("vgattach %d @%d %s" % (h, lab, mode))
                # the access mode belongs to the vgroup, not to the handle: "w" once, writable for all handles
                o = sh.objs[lab]
                o["acc"] = (o["acc"] or mode == "w") if sh.attached(lab) else (mode == "w")
                sh.gh[h] = (lab, mode == "w")
            else:
                L.append("vgattach %d %s w" % (h, reftok()))     # mostly non-existing: must fail (or attach)
                L.append("vgdetach %d" % h)                       # (fails too when the attach failed)
        elif k == "det":
            if not sh.gh:
                continue
            h = r.choice(list(sh.gh.keys()))
            L.append("vgdetach %d" % h)
            del sh.gh[h]
        elif k == "name":
            ws = writable_handles()
            if ws and isinstance(ws[0], tuple):
                ro_edit(ws[0][1])
                continue
            if not ws:
                continue
            h = r.choice(ws)
            nm = fname(long_names)
            if r.random() < 0.12:
                nm = r.choice(INTERNAL) + (b"" if r.random() < 0.5 else b"x")
            which = r.choice(["name", "cls"])
            cur = sh.objs[sh.gh[h][0]][which]
            if cur and r.random() < 0.4:
                nm = r.choice(siblings(cur))          # a near miss of the current value: the record shrinks / grows by 1-3 bytes
            L.append("%s %d %s" % ("setname" if which == "name" else "setclass", h, hexs(nm)))
            sh.objs[sh.gh[h][0]][which] = nm
        elif k == "add":
            ws = writable_handles()
            if ws and isinstance(ws[0], tuple):
                ro_edit(ws[0][1])
                continue
            if not ws:
                continue
            h = r.choice(ws)
            mem = sh.objs[sh.gh[h][0]]["members"]
            if mem and r.random() < 0.25:
                t, rt = r.choice(mem)           # a duplicate
            else:
                t, rt = tagpick(), reftok()
            L.append("addtagref %d %d %s" % (h, t, rt))
            mem.append((t, rt))
        elif k == "many":
            ws = writable_handles()
            if ws and isinstance(ws[0], tuple):
                ro_edit(ws[0][1])
                continue
            if not ws:
                continue
            h = r.choice(ws)
            mem = sh.objs[sh.gh[h][0]]["members"]
            n = len(mem)
            # aim at the capacity steps 64 / 128 / 256 / 512: stop just below, at, or just above one
            targets = [t + d for t in (64, 128, 256, 512) for d in (-1, 0, 1, 2) if t + d > n]
            cnt = (r.choice(targets[:8]) - n) if targets and r.random() < 0.8 else r.randrange(1, 40)
            if n + cnt > 700:
                continue
            t = tagpick()
            step = r.choice([0, 1, 1, 2])
            base = r.randrange(1, 200)
            L.append("addmany %d %d %d %d %d" % (h, t, base, cnt, step))
            mem.extend((t, str(base + i * step)) for i in range(cnt))
        elif k == "ins":
            ws = writable_handles()
            if ws and isinstance(ws[0], tuple):
                ro_edit(ws[0][1])
                continue
            if not ws:
                continue
            h = r.choice(ws)
            if r.random() < 0.55 and len(sh.gh) >= 1:
                h2 = r.choice(list(sh.gh.keys()))
                L.append("insertvg %d %d" % (h, h2))
                p = (VG, "@%d" % sh.gh[h2][0])
            else:
                sl = sh.alive("s")
                if not sl:
                    continue
                if not sh.sh or r.random() < 0.5:
                    s2 = free_s()
                    if s2 is None:
                        continue
                    lab = r.choice(sl)
                    L.append("vsattach %d @%d" % (s2, lab))
                    sh.sh[s2] = lab
                s2 = r.choice(list(sh.sh.keys()))
                L.append("insertvs %d %d" % (h, s2))
                p = (VH, "@%d" % sh.sh[s2])
                if r.random() < 0.6:
                    L.append("vsdetach %d" % s2)
                    del sh.sh[s2]
            mem = sh.objs[sh.gh[h][0]]["members"]
            if p not in mem:
                mem.append(p)
        elif k == "del":
            ws = writable_handles()
            if ws and isinstance(ws[0], tuple):
                ro_edit(ws[0][1])
                continue
            if not ws:
                continue
            h = r.choice(ws)
            mem = sh.objs[sh.gh[h][0]]["members"]
            if mem and r.random() < 0.88:
                i = r.choice([0, len(mem) - 1, len(mem) // 2, r.randrange(len(mem)), r.randrange(len(mem))])
                t, rt = mem[i]
                L.append("deltagref %d %d %s" % (h, t, rt))
                mem.remove((t, rt))
            else:
                L.append("deltagref %d %d %s" % (h, tagpick(), reftok()))
                # (shadow not updated: only steers)
        elif k == "vdel":
            c = [g for g in sh.alive("g") if not sh.attached(g)]
            if c and r.random() < 0.85:
                g = r.choice(c)
                L.append("vdelete @%d" % g)
                sh.objs[g]["alive"] = False
            elif r.random() < 0.5:
                L.append("vdelete %s" % r.choice(["0", "1", "77", "65535", "300"]))
        elif k == "vsnew":
            if len(sh.alive("s")) >= 8:
                continue
            lab = sh.next
            sh.next += 1
            nm, cl = fname() or b"v", fname()
            if sh.alive("s") and r.random() < 0.35:
                oc = sh.objs[r.choice(sh.alive("s"))]["cls"]
                if oc:
                    cl = r.choice(siblings(oc, 60))   # a second vdata whose class is a near miss of an existing one
            if r.random() < 0.3:
                cl = r.choice(INTERNAL_VS) + (b"" if r.random() < 0.6 else b"7")
            if r.random() < 0.3 and sh.alive("s"):
                nm = sh.objs[r.choice(sh.alive("s"))]["name"]      # duplicate vdata names
            if r.random() < 0.7:
                L.append("vsnew %s %s %d =%d" % (hexs(nm), hexs(cl), r.choice([1, 3, 10]), lab))
            else:
                L.append("vsnewempty %s %s =%d" % (hexs(nm), hexs(cl), lab))
            sh.objs[lab] = dict(kind="s", alive=True, members=[], name=nm, cls=cl)
        elif k == "vsdel":
            c = [v for v in sh.alive("s") if not sh.attached(v)]
            if c:
                v = r.choice(c)
                L.append("vsdelete @%d" % v)
                sh.objs[v]["alive"] = False
        elif k == "reopen":
            detach_all(r.random() < 0.5)
            L.append(r.choice(["reopen", "reopen", "reopen v"]))
            if r.random() < 0.5:
                dump_all()
        else:
            observe()
    detach_all(r.random() < 0.5)
    if r.random() < 0.3:
        dump_all()
    L.append("reopen")
    dump_all(True)
    return L


# --------------------------------------------------------------------------------------------------
# record-codec histories (R vs M only): hand-built DFTAG_VG records of both versions
# --------------------------------------------------------------------------------------------------

def u16(v):
    return bytes([(v >> 8) & 255, v & 255])


def u32(v):
    return bytes([(v >> 24) & 255, (v >> 16) & 255, (v >> 8) & 255, v & 255])


def vg_record(members, name, cls, version, flags=0, attrs=None, extag=0, exref=0, more=0):
    b = u16(len(members))
    b += b"".join(u16(t) for t, _ in members) + b"".join(u16(rf) for _, rf in members)
    b += u16(len(name)) + name + u16(len(cls)) + cls + u16(extag) + u16(exref)
    if version == 4:
        b += u32(flags)
        if flags & 1:
            b += u32(len(attrs)) + b"".join(u16(t) + u16(rf) for t, rf in attrs)
    return b + u16(version) + u16(more) + b"\0"


def gen_codec_history(r, name):
    L = ["history " + name, "open"]
    # a first vgroup so that the file has the Vset structures; its ref tells which refs are in use
    L += ["vgnew 0 =0", "vgdetach 0"]
    refs = []
    for i in range(r.randrange(1, 5)):
        ref = r.choice([20, 21, 22, 30, 31, 100, 101, 300, 4000]) + i * 1000
        n = r.choice([0, 1, 2, 5, 63, 64, 65, 100, 128, 129, 257])
        members = [(r.choice([VG, VH, 720, 306, 1]), r.randrange(0, 65536) if r.random() < 0.2 else r.randrange(1, 40))
                   for _ in range(n)]
        nm, cl = rname(r, r.random() < 0.4), rname(r, r.random() < 0.2)
        version = r.choice([2, 3, 3, 4, 4, 4])
        flags, attrs = 0, []
        if version == 4:
            flags = r.choice([1, 1, 1, 2, 3, 0x10001])
            attrs = [(VH, r.randrange(1, 500)) for _ in range(r.choice([0, 1, 2, 7]))]
        rec = vg_record(members, nm, cl, version, flags, attrs, r.choice([0, 0, 5]), r.choice([0, 0, 9]),
                        r.choice([0, 0, 1]))
        L.append("putraw %d %s" % (ref, hexs(rec)))
        refs.append((ref, n))
    L.append("reopen")
    L.append("iter")
    L.append("lone 64")
    for ref, n in refs:
        L += ["vgattach 1 %d w" % ref, "ntagrefs 1", "msize 1", "gettagrefs 1 %d" % (n + 1), "getname 1", "getclass 1"]
        for _ in range(r.randrange(0, 4)):
            c = r.random()
            if c < 0.4:
                L.append("addtagref 1 %d %d" % (r.choice([VG, VH, 720]), r.randrange(1, 40)))
            elif c < 0.6:
                L.append("addmany 1 720 1 %d 1" % r.choice([1, 2, 63, 64, 65]))
            elif c < 0.8:
                L.append("setname 1 %s" % hexs(rname(r, True)))
            else:
                L.append("deltagref 1 %d %d" % (r.choice([VG, VH, 720]), r.randrange(1, 40)))
            L.append("msize 1")
        L += ["vgdetach 1", "rawvg %d" % ref]
    L.append("reopen")
    for ref, n in refs:
        L += ["vgattach 1 %d r" % ref, "gettagrefs 1 800", "getname 1", "getclass 1", "msize 1", "vgdetach 1", "rawvg %d" % ref]
    return L


def gen_store_history(r, name):
    """the element under a record (R vs M on the raw bytes; R vs S on what is read back):
    (a) Hputelement over an existing element: a shorter record is written in place and the old length stays, a longer
        one is refused -- never reopened afterwards, the element is not a record any more;
    (b) Vdetach of a vgroup whose record shrinks / grows by 1..5 bytes or by a whole member: the element is exactly
        the new record every time, also after a reopen"""
    L = ["history " + name, "open", "vgnew 0 =0", "vgdetach 0"]
    if r.random() < 0.4:
        ref = r.choice([500, 501, 4000])
        n = r.choice([0, 1, 3, 70])
        mem = [(720, i + 1) for i in range(n)]
        a = vg_record(mem, rname(r, True) or b"abc", rname(r) or b"c", 3)
        L += ["putraw %d %s" % (ref, hexs(a)), "rawvg %d" % ref]
        for _ in range(r.randrange(1, 4)):
            d = r.choice([-5, -4, -3, -2, -1, 0, 1, 2, 9])
            nm = bytes(97 + i % 26 for i in range(max(1, len(a) - 15 - 4 * n - 1 + d)))
            b = vg_record(mem, nm, b"", 3)
            L += ["putraw %d %s" % (ref, hexs(b)), "rawvg %d" % ref]
        return L
    nm = bytes(r.randrange(97, 123) for _ in range(r.choice([3, 10, 64, 65, 70])))
    cl = bytes(r.randrange(97, 123) for _ in range(r.choice([0, 4, 9])))
    L += ["vgattach 1 @0 w", "setname 1 %s" % hexs(nm)] + (["setclass 1 %s" % hexs(cl)] if cl else []) + \
         ["addmany 1 1965 1 %d 1" % r.choice([1, 2, 5]), "vgdetach 1", "rawvg @0"]
    for _ in range(r.randrange(2, 6)):
        c = r.randrange(5)
        L.append("vgattach 1 @0 w")
        if c == 0 and len(nm) > 1:
            nm = nm[:len(nm) - r.choice([1, 1, 2, 3, 4, 5])] or b"n"
            L.append("setname 1 %s" % hexs(nm))
        elif c == 1:
            nm = nm + bytes(r.randrange(97, 123) for _ in range(r.choice([1, 2, 3])))
            L.append("setname 1 %s" % hexs(nm))
        elif c == 2:
            cl = cl[:-1] if cl and r.random() < 0.6 else cl + b"z"
            L.append("setclass 1 %s" % hexs(cl))
        elif c == 3:
            L.append("deltagref 1 1965 %d" % r.choice([1, 2, 3]))
        else:
            L.append("addtagref 1 1962 7")
        L += ["vgdetach 1", "rawvg @0"]
        if r.random() < 0.6:
            L += [r.choice(["reopen", "reopen v"]), "vgattach 2 @0 r", "getname 2", "getclass 2", "gettagrefs 2 9",
                  "vgdetach 2", "find %s" % hexs(nm)]
    return L


def tree_history(name, kind, n, dels, r=None):
    """the per-file tables (a threaded balanced tree in the library): n objects created in order, the ones in `dels`
    deleted in that order, the whole table enumerated after every deletion IN THE SAME SESSION (forwards from -1 and
    from every surviving key), then lookups that depend on the enumeration, then again after a reopen"""
    L = ["history " + name, "open"]
    for i in range(n):
        if kind == "g":
            L.append("vhmakegroup %s ~ =%d" % (hexs(b"t%d" % i), i))
        else:
            L.append("vsnew %s %s 1 =%d" % (hexs(b"v%d" % i), hexs(b"k%d" % (i % 3)), i))
    it, dl, gid = ("iter", "vdelete", "getid") if kind == "g" else ("vsiter", "vsdelete", "vsgetid")
    L.append(it)
    alive = list(range(n))
    for d in dels:
        L.append("%s @%d" % (dl, d))
        alive.remove(d)
        L.append(it)
        L += ["%s @%d" % (gid, a) for a in alive[-3:]] + ["%s @%d" % (gid, d)]
        if r is not None and r.random() < 0.3 and len(alive) < 14:      # a new object goes in between
            k = n + len(L)
            L.append(("vhmakegroup %s ~ =%d" % (hexs(b"n%d" % k), k)) if kind == "g" else
                     ("vsnewempty %s - =%d" % (hexs(b"n%d" % k), k)))
            alive.append(k)
            L.append(it)
    if kind == "g":
        L += ["lone 64", "find %s" % hexs(b"t%d" % (n - 1)), "find %s" % hexs(b"t0")]
    else:
        L += ["vslone 64", "vsfind %s" % hexs(b"v%d" % (n - 1)), "vsfindclass 6b31"]
    # (the Vgetvgroups / VSgetvdatas family is asked only after the reopen: on a damaged tree it would spin)
    L += ["reopen", it, "countvgroupsf 0" if kind == "g" else "vsgetvdatasf 0 0"]
    return L


def gen_tree_histories(r, tier):
    """every ordered pair of deletions among n = 3..10 vgroups and n = 3..8 vdatas (complete), plus random longer
    deletion sequences with creations in between"""
    out = []
    for n in range(3, 11):
        for a in range(n):
            for b in range(n):
                if a != b:
                    out.append(tree_history("treeg%d_%d_%d" % (n, a, b), "g", n, [a, b]))
    for n in range(3, 9):
        for a in range(n):
            for b in range(n):
                if a != b:
                    out.append(tree_history("trees%d_%d_%d" % (n, a, b), "s", n, [a, b]))
    for i in range(40 if tier == "quick" else 800):
        n = r.randrange(4, 17)
        k = r.randrange(2, n)
        out.append(tree_history("treer%d" % i, r.choice("gs"), n, r.sample(range(n), k), r))
    return out


def gen_error_history(r, name):
    """refused calls must change nothing: over-long names (65536 / 65537 / 70000 bytes) on vgroups with and without
    a name, duplicate Vinsert, absent Vdeletetagref, attaching / deleting what does not exist, edits of a read-only
    vgroup, out-of-range queries -- each followed by a full read-back through the handle, then an edit that marks
    the vgroup, detach, reopen and read-back"""
    L = ["history " + name, "open", "vgnew 0 =0"]
    named = r.random() < 0.8
    nm, cl = rname(r, True) or b"nm", rname(r) or b"cl"
    if named:
        L += ["setname 0 %s" % hexs(nm), "setclass 0 %s" % hexs(cl)]
    L += ["addtagref 0 1965 @0", "addtagref 0 720 3"]
    if r.random() < 0.5:
        L += ["vgdetach 0", r.choice(["reopen", "reopen v"]), "vgattach 0 @0 w"]
    dump = ["getname 0", "getclass 0", "gettagrefs 0 9", "ntagrefs 0", "find %s" % hexs(nm), "findclass %s" % hexs(cl)]
    big = lambda k: "61" * k
    bad = ["setname 0 %s" % big(r.choice([65536, 65537, 70000])), "setclass 0 %s" % big(r.choice([65536, 65537, 70000])),
           "insertvg 0 0", "insertvg 0 0", "deltagref 0 720 9", "deltagref 0 1 1", "vgattach 5 999 w", "vdelete 999",
           "vsdelete 999", "gettagref 0 7", "gettagref 0 -1", "getvgroupsg 0 5 3", "vsgetvdatasg 0 4 2", "ventries 0",
           "vsattach 3 999", "flocate 0 66"]
    r.shuffle(bad)
    for b in bad[:r.randrange(4, 10)]:
        L.append(b)
        L += dump if (b.startswith("set") or r.random() < 0.3) else dump[:3]
    # the longest accepted name still works
    if r.random() < 0.3:
        L += ["setname 0 %s" % big(65535), "ntagrefs 0"]
        nm = b"a" * 65535
    L += ["addtagref 0 1962 4", "vgdetach 0", r.choice(["reopen", "reopen v"]), "vgattach 1 @0 r"]
    L += [d.replace(" 0", " 1", 1) if d.split()[0] in ("getname", "getclass", "gettagrefs", "ntagrefs") else d for d in dump]
    L += ["addtagref 1 720 5", "setname 1 6e", "gettagrefs 1 9", "vgdetach 1"]
    return L


# --------------------------------------------------------------------------------------------------
# running
# --------------------------------------------------------------------------------------------------

CREATE = {"vgnew": 2, "vsnew": 4, "vsnewempty": 3, "vhmakegroup": 3}      # op -> index of the "=k" label token


def resolve(hist, rout):
    """replace every @k by the reference number the library chose (from R's output of the creating op) and the
    label =k of a creating op by that number.  rout: list of R's result strings, aligned with hist."""
    lab = {}
    out = []
    for i, l in enumerate(hist):
        t = l.split()
        if not t:
            out.append(l)
            continue
        t = [(str(lab.get(int(x[1:]), 0)) if re.fullmatch(r"@\d+", x) else x) for x in t]
        if t[0] in CREATE:
            ref = 0
            rr = rout[i].split() if i < len(rout) else []
            if len(rr) >= 2 and rr[0] == "ok":
                ref = int(rr[1])
            j = CREATE[t[0]]
            if len(t) > j and t[j].startswith("="):
                lab[int(t[j][1:])] = ref
                t[j] = str(ref)
            else:
                t = t[:j] + [str(ref)]
        out.append(" ".join(t))
    return out


def split_histories(lines):
    out, cur = [], []
    for l in lines:
        if l.startswith("history ") and cur:
            out.append(cur)
            cur = []
        cur.append(l)
    if cur:
        out.append(cur)
    return out


def by_line(lines, n):
    """harness / driver output -> list of n result strings (index = input line); missing lines after a crash
    become 'crash <code>'"""
    res = [None] * n
    crash_at = []
    for l in lines:
        m = re.match(r"^(\d+) (.*)$", l)
        if not m:
            continue
        k = int(m.group(1)) - 1
        if m.group(2).startswith("crash"):
            crash_at.append((k, m.group(2)))
        elif 0 <= k < n:
            res[k] = m.group(2)
    for k, txt in crash_at:          # the crash line carries the number of the history's last line
        j = k
        while j >= 0 and res[j] is None:
            res[j] = txt
            j -= 1
    return [x if x is not None else "missing" for x in res]


def run_all(ctx, hists, tag, want_m=True):
    exe = ctx.harness("drive_vg", ["drive_vg.c"])
    mod = ctx.model("vgraph_model", ["vgraph_main.ml"], ["vg_c08"])
    wd = os.path.join(ctx.bdir, "harness", "c08-%s-%d" % (tag, os.getpid()))
    os.makedirs(wd, exist_ok=True)
    flat = [l for h in hists for l in h]
    p = os.path.join(wd, "in.hist")
    open(p, "w").write("\n".join(flat) + "\n")
    rc, out = vc.run_lines(exe, p, timeout=1800, args=[wd])
    R = by_line(out, len(flat))
    # resolve per history
    res, pos = [], 0
    for h in hists:
        res += resolve(h, R[pos:pos + len(h)])
        pos += len(h)
    p2 = os.path.join(wd, "resolved.hist")
    open(p2, "w").write("\n".join(res) + "\n")
    rcs, outs = vc.run_lines(mod, p2, timeout=1800, args=["S"])
    S = by_line(outs, len(flat))
    if rcs != 0 or "missing" in S:
        raise vc.BuildError("spec driver failed rc=%d: %s" % (rcs, outs[-3:]))
    M = None
    if want_m:
        rcm, outm = vc.run_lines(mod, p2, timeout=1800, args=["M"])
        M = by_line(outm, len(flat))
        if rcm != 0 or "missing" in M:
            raise vc.BuildError("model driver failed rc=%d: %s" % (rcm, outm[-3:]))
    shutil.rmtree(wd, ignore_errors=True)
    return rc, R, S, M, flat, res


def first_bad_s(R, S, lo, hi):
    """first operation of [lo,hi) on which the library leaves the specification (None: none).  Comparison of a
    history stops at the first operation the specification marks as outside the property's domain."""
    for i in range(lo, hi):
        if S[i] == "unspec":
            return None
        if S[i] in ("nospec", "skip", "history"):
            if R[i].startswith("crash") or R[i] == "missing":
                return i
            continue
        if R[i] != S[i]:
            return i
    return None


def first_bad_m(R, M, S, lo, hi):
    """first operation on which the library and the implementation model differ.  M covers the operations S leaves
    open (capacity, raw record bytes, Vgetnext, raw records put into the file); comparison stops where M itself
    declares the domain left."""
    for i in range(lo, hi):
        if M[i] == "unspec":
            return None
        if M[i] in ("nospec", "skip", "history"):
            continue
        if R[i] != M[i]:
            return i
    return None


def shrink(ctx, hist, bad_fn, limit=60):
    def fails(h):
        rc, R, S, M, flat, _ = run_all(ctx, [h], "shrink", want_m=bad_fn is first_bad_m)
        return (bad_fn(R, S, 0, len(flat)) if bad_fn is first_bad_s else bad_fn(R, M, S, 0, len(flat))) is not None
    cur = list(hist)
    # nothing after the first failing operation matters
    rc, R, S, M, flat, _ = run_all(ctx, [cur], "shrink", want_m=bad_fn is first_bad_m)
    i0 = bad_fn(R, S, 0, len(flat)) if bad_fn is first_bad_s else bad_fn(R, M, S, 0, len(flat))
    if i0 is not None and i0 + 1 < len(cur) and fails(cur[:i0 + 1]):
        cur = cur[:i0 + 1]
    n = 0
    chunk = max(1, (len(cur) - 2) // 2)
    while chunk >= 1 and n < limit:
        i = 2
        progressed = False
        while i < len(cur) and n < limit:
            cand = cur[:i] + cur[i + chunk:]
            n += 1
            if len(cand) > 2 and fails(cand):
                cur = cand
                progressed = True
            else:
                i += chunk
        if not progressed:
            chunk //= 2
    return cur


def replay_text(kind, small, flat, res, R, X, j, rc, xname):
    return "\n".join(
        ["# C08 replay: Vgroup history; library (R) vs %s differ at the marked operation" % kind,
         "# run: bin/check C08 --replay <this file>"] + small +
        ["# first difference at op %d: %s" % (j, (flat[j] if j < len(flat) else "?")[:200]),
         "#   resolved     : %s" % (res[j] if j < len(res) else "?")[:200],
         "#   library      : %s" % (R[j] if j < len(R) else "crash (harness rc=%d)" % rc)[:400],
         "#   %-13s: %s" % (xname, (X[j] if j < len(X) else "?")[:400])])


def check_api_driven(ctx):
    """the functions theorem api_accounted lists as driven must really be called by the harness"""
    txt = open(os.path.join(vc.VERIF, "coq", "VGProofs.v")).read()
    m = re.search(r"Definition api_driven : list string :=\s*\[(.*?)\]%string", txt, flags=re.S)
    names = re.findall(r'"([A-Za-z_0-9]+)"', m.group(1)) if m else []
    har = open(os.path.join(vc.VERIF, "harness", "drive_vg.c")).read()
    missing = [n for n in names if not re.search(r"\b%s\s*\(" % re.escape(n), har)]
    if not names or missing:
        ctx.violation("entry points listed as driven are not called by harness/drive_vg.c: %s" % (missing or "list not found"),
                      "# C08: api_driven (coq/VGProofs.v) vs harness/drive_vg.c\nmissing: %s" % " ".join(missing),
                      found=False, suffix="txt")
    ctx.corr("api", entry_points_driven=len(names), not_called=missing)


def run(ctx):
    check_api_driven(ctx)
    r = ctx.rng
    corpus = []
    cdir = os.path.join(vc.VERIF, "corpus", "C08")
    for fn in sorted(os.listdir(cdir)) if os.path.isdir(cdir) else []:
        corpus += split_histories([l for l in open(os.path.join(cdir, fn)).read().splitlines()
                                   if l.strip() and not l.startswith("#")])
    per = 60 if ctx.tier == "quick" else 1200
    hists = list(corpus)
    for prof in ("edit", "growth", "names", "hier"):
        hists += [gen_history(r, "%s%d" % (prof, i), prof) for i in range(per)]
    ncodec = 40 if ctx.tier == "quick" else 800
    hists += [gen_codec_history(r, "codec%d" % i) for i in range(ncodec)]
    nstore = 30 if ctx.tier == "quick" else 600
    hists += [gen_store_history(r, "codecstore%d" % i) for i in range(nstore)]
    trees = gen_tree_histories(r, ctx.tier)
    hists += trees
    nerr = 24 if ctx.tier == "quick" else 400
    hists += [gen_error_history(r, "err%d" % i) for i in range(nerr)]
    rc, R, S, M, flat, res = run_all(ctx, hists, "main")
    opmix, fails_r, nviol_s, nviol_m = {}, 0, 0, 0
    maxmem, growth_hits, name_lens, unspec_h, codec_ops, unspec_ops = 0, set(), set(), 0, 0, {}
    pos = 0
    for h in hists:
        lo, hi = pos, pos + len(h)
        pos = hi
        seg = R[lo:hi]
        for l in h[1:]:
            opmix[l.split()[0]] = opmix.get(l.split()[0], 0) + 1
        fails_r += sum(1 for x in seg if x == "fail")
        for l, x in zip(h, seg):
            t = l.split()
            if t[0] == "msize" and x.startswith("ok"):
                nv, ms = int(x.split()[1]), int(x.split()[2])
                maxmem = max(maxmem, nv)
                growth_hits.add(ms)
            if t[0] in ("setname", "setclass") and x == "ok":
                name_lens.add(0 if t[2] == "-" else len(t[2]) // 2)
        if any(x == "unspec" for x in S[lo:hi]) and not h[0].startswith("history codec"):
            unspec_h += 1
            fo = h[S[lo:hi].index("unspec")].split()[0]
            unspec_ops[fo] = unspec_ops.get(fo, 0) + 1
        seen_reopen = False
        nontriv = False
        edited = any(l.split()[0] in ("addtagref", "addmany", "insertvg", "insertvs", "deltagref") for l in h)
        for l, x in zip(h, seg):
            if l.startswith("reopen"):
                seen_reopen = True
            if seen_reopen and edited and l.startswith("gettagrefs") and x.startswith("ok") and x != "ok 0":
                nontriv = True
        ctx.case(tuple(h[1:]), nontriv,
                 sample={"history": h[1:10], "library": seg[1:10]} if len(ctx.coverage["samples"]) < 3 else None)
        i = first_bad_s(R, S, lo, hi)
        if i is not None and nviol_s < 3:
            nviol_s += 1
            small = shrink(ctx, h, first_bad_s, 150 if ctx.tier == "quick" else 400)
            rc2, R2, S2, M2, flat2, res2 = run_all(ctx, [small], "rep", want_m=False)
            j = first_bad_s(R2, S2, 0, len(flat2))
            j = j if j is not None else 0
            ctx.violation("library differs from the graph specification at: %s" % flat2[j][:120],
                          replay_text("the graph specification S", small, flat2, res2, R2, S2, j, rc2, "specification"),
                          found=True)
        k = first_bad_m(R, M, S, lo, hi)
        if k is not None and i is None and nviol_m < 2:
            nviol_m += 1
            small = shrink(ctx, h, first_bad_m, 40)
            rc2, R2, S2, M2, flat2, res2 = run_all(ctx, [small], "repm")
            j = first_bad_m(R2, M2, S2, 0, len(flat2))
            j = j if j is not None else 0
            js = first_bad_s(R2, S2, 0, len(flat2))
            txt = replay_text("the implementation model M (VGModel.v)", small, flat2, res2, R2, M2, j, rc2, "model")
            if js is not None:
                txt += "\n# the library also leaves the specification at op %d: %s\n#   specification: %s" % (
                    js, flat2[js][:200], S2[js][:300])
            ctx.violation("correspondence library ~ VGModel broken at: %s" % flat2[j][:120], txt, found=js is not None)
        if h[0].startswith("history codec"):
            codec_ops += len(h)
    ctx.corr("V~VGraphSpec", histories=len(hists), operations=len(flat), op_mix=opmix, library_fail_results=fails_r,
             corpus_histories=len(corpus), histories_leaving_domain=unspec_h, first_op_outside_domain=unspec_ops, max_members_seen=maxmem,
             capacities_seen=sorted(growth_hits), name_lengths_set=sorted(name_lens), mismatching_histories=nviol_s)
    ctx.corr("tables", delete_pair_histories_complete=len(trees) - (40 if ctx.tier == "quick" else 800),
             random_delete_sequences=(40 if ctx.tier == "quick" else 800), error_path_histories=nerr)
    ctx.corr("V~VGModel", histories=len(hists), codec_histories=ncodec, codec_operations=codec_ops,
             mismatching_histories=nviol_m)


def replay(ctx, path):
    lines = [l for l in open(path).read().splitlines() if l.strip() and not l.startswith("#")]
    rc, R, S, M, flat, res = run_all(ctx, [lines], "replay")
    bad = False
    s_off = m_off = False        # nothing is compared after the first operation outside the domain
    for i, l in enumerate(flat):
        if l.startswith("history "):
            s_off = m_off = False
        s_off = s_off or S[i] == "unspec"
        m_off = m_off or M[i] == "unspec"
        okS = s_off or S[i] in ("nospec", "skip", "history") or R[i] == S[i]
        okM = m_off or M[i] in ("nospec", "skip", "history") or R[i] == M[i]
        mark = "  " if okS and okM else "!!"
        bad = bad or not (okS and okM)
        print("%s %-44s R: %-36s M: %-36s S: %s" % (mark, res[i][:44], R[i][:36], M[i][:36], S[i][:60]))
    i = first_bad_s(R, S, 0, len(flat))
    k = first_bad_m(R, M, S, 0, len(flat))
    print("harness rc = %d; first R/S difference: %s; first R/M difference: %s" % (
        rc, "none" if i is None else "op %d" % i, "none" if k is None else "op %d" % k))
    return 1 if (i is not None or k is not None) else 0
