"""C14 -- read-only access never alters a file; write requests through it are refused.

R (library, harness/drive_ro.c with fwrite/fputc/fopen interposition, SHA-256 of every file, canonical object dump)
vs S (coq/ROSpec.v, a monitor over the observed trace: the must-fail list, zero device writes while read-only,
identical bytes at the end, identical objects after a write-mode open/close without edits) on generated
histories = [build a file with H / Vdata / Vgroup / SD / GR / AN content] + [program through read-only handles];
R vs M (coq/ROModel.v, the L1 effect model: access flags, the mode checks, version-tag update, DD cache) on
element-level histories: result class and "did a write reach the device" per call."""
import os
import re
import shutil
import vcommon as vc

RULE = ("histories = build phase (one PRNG, VERIF_SEED): a fresh HDF file with a random subset of plain / linked-block "
        "/ external / compressed (RLE, skipping-Huffman, deflate) / chunked / length-less elements, 0-3 Vdatas (with "
        "attributes), 0-2 Vgroups, file/object annotations, 0-2 raster images (plain, chunked, compressed, palette, "
        "attributes), 0-4 SDSs (fixed, unlimited, chunked, chunked+compressed, compressed, external; attributes, "
        "named dimensions, scales), ndds in {4,16}, optionally a stale or missing version element, optionally a "
        "missing external file; then EITHER a program of 25-70 calls drawn from the full H/V/VS/SD/GR/AN read, "
        "inquiry and mutation API list (about 150 calls, ~45% mutators) through handles opened with DFACC_READ "
        "(Hopen, Vstart, SDstart, GRstart, ANstart, 1-2 opens of the same file) OR a write-mode open (Hopen/SDstart "
        "DFACC_RDWR + Vstart/GRstart/ANstart) with read/inquiry calls only and a close. A history is non-trivial "
        "when its read-only phase executed >= 5 mutating calls (not 'na') or it is a write-mode no-edit history on "
        "a file with >= 3 objects; distinct by full text")
TRUSTED = ["Coq 8.16.1 kernel",
           "translator gen/gen_consts.py + plugin gen/plugins/ro_conds.py (DFACC_* constants; the guard conditions of "
           "Hstartaccess/Hwrite/Htrunc/Hsetlength/HLcreate/HLconvert/HXcreate/HCcreate/HMCcreate/Hdupdd/Hdeldd/"
           "Vattach/VSattach/VSwrite/H*Istaccess/Hclose/HIcheckfileversion taken from the preprocessed sources)",
           "extraction: Require Extraction + ExtrOcamlBasic only; Z/positive/nat/string/ascii extracted as inductives",
           "OCaml drivers extract/ro_main.ml, extract/romodel_main.ml; C harness harness/drive_ro.c (link-time "
           "interposition of fwrite/fputc/fopen; own SHA-256); generator, shrinking and comparison in checks/C14.py",
           "modelled, not verified: the SD, GR and AN layers (no faithful model: decided by the device-level theorem "
           "plus the correspondence on return codes), stdio (a write 'reaches the device' when fwrite/fputc is called "
           "on a stream of the file), the contents of special-element headers"]
ASSUMPTIONS = ["the file is open only for reading: no write-mode handle on the same path is open in the process",
               "JPEG / IMCOMP / szip / n-bit content is not generated",
               "'appearing to succeed' is judged on the call's return value (FAIL vs not FAIL)"]

MUT_H = ["putelement", "startwrite", "write", "trunc", "setlength", "hlcreate", "hlconvert", "hxcreate", "hccreate",
         "hmccreate", "dupdd", "deldd", "reuse", "startbitwrite"]


def nm(r, pfx):
    return "%s%d" % (pfx, r.randrange(1000))


class Inv:
    """what the build phase put into the file (steers the program generator only; never an oracle)"""
    def __init__(self):
        self.elems = []     # (tag, ref, kind)
        self.vdatas = []    # (name, fields string, nrec)
        self.vgroups = []   # name
        self.sds = []       # (name, rank, unlimited, chunked)
        self.sdattrs = 0
        self.images = []    # name
        self.anns = [0, 0, 0, 0]   # data labels, data descs, file labels, file descs
        self.ext = []       # external file numbers in use
        self.attrs = {}     # kind -> list of (object index, name, nt code, count): existing attributes
        self.nobj = 0


def gen_build(r):
    inv = Inv()
    L = []
    ndds = r.choice([4, 16, 16])
    L.append("hopen 0 4 %d" % ndds)
    if r.random() < 0.3:
        L.append("hcache 0 %d" % r.choice([0, 1]))
    # ---- H elements
    kinds = ["plain", "plain", "linked", "ext", "comp", "chunk", "nolen"]
    nel = r.choice([0, 1, 2, 3, 4, 6])
    for i in range(nel):
        k = r.choice(kinds)
        tag, ref = 1000 + r.randrange(4), len(inv.elems) + 1
        n = r.choice([1, 5, 16, 40, 100, 300])
        seed = r.randrange(200)
        if k == "plain":
            L.append("putelement 0 %d %d %d %d" % (tag, ref, n, seed))
        elif k == "linked":
            L += ["hlcreate 0 0 %d %d %d %d" % (tag, ref, r.choice([4, 16, 64]), r.choice([1, 2, 4])),
                  "write 0 %d %d" % (n, seed), "endaccess 0"]
        elif k == "ext":
            x = len(inv.ext)
            inv.ext.append(x)
            L += ["hxcreate 0 0 %d %d %d %d 0" % (tag, ref, x, r.choice([0, 0, 8])), "write 0 %d %d" % (n, seed), "endaccess 0"]
        elif k == "comp":
            L += ["hccreate 0 0 %d %d %d" % (tag, ref, r.choice([1, 2, 3])), "write 0 %d %d" % (n, seed), "endaccess 0"]
        elif k == "chunk":
            cl = r.choice([4, 8])
            L += ["hmccreate 0 0 %d %d %d %d" % (tag, ref, cl * r.choice([2, 3]), cl), "write 0 %d %d" % (cl, seed), "endaccess 0"]
        else:
            L += ["startaccess 0 0 %d %d 3" % (tag, ref), "endaccess 0"]
        inv.elems.append((tag, ref, k))
    # ---- Vdata / Vgroup
    L.append("vstart 0")
    for i in range(r.choice([0, 1, 1, 2, 3])):
        name = "vd%d" % i
        flds = [("a", 2, 1)] + ([("b", 3, 2)] if r.random() < 0.6 else []) + ([("c", 0, 3)] if r.random() < 0.3 else [])
        L.append("vsattach %d 0 -1 w" % i)
        L.append("vssetname %d %s" % (i, name))
        if r.random() < 0.5:
            L.append("vssetclass %d cls%d" % (i, i))
        state = r.choice(["full"] * 5 + ["nofields", "norecords"])   # unusual stored objects: a vdata without fields / records
        fs = ",".join(f for f, _, _ in flds)
        nrec = 0
        if state != "nofields":
            for f, t, o in flds:
                L.append("vsfdefine %d %s %d %d" % (i, f, t, o))
            L.append("vsdefinefields %d %s" % (i, fs))
        else:
            fs = ""
        if state == "full":
            if r.random() < 0.15:
                x = len(inv.ext)
                inv.ext.append(x)
                L.append("vssetexternalfile %d %d 0" % (i, x))
            nrec = r.choice([1, 3, 10, 40])
            L.append("vswrite %d %d %d" % (i, nrec, r.randrange(100)))
        if r.random() < 0.5:
            nt_, n_ = r.randrange(4), r.choice([1, 3])
            L.append("vssetattr %d -1 va%d %d %d %d" % (i, i, nt_, n_, r.randrange(50)))
            inv.attrs.setdefault("vs", []).append((i, "va%d" % i, nt_, n_))
        if r.random() < 0.25:
            L.append("vssetattr %d 0 fa%d 0 2 %d" % (i, i, r.randrange(50)))
        inv.vdatas.append((name, fs, nrec))
    for i in range(r.choice([0, 1, 1, 2])):
        name = "vg%d" % i
        L.append("vattach %d 0 -1 w" % i)
        L.append("vsetname %d %s" % (i, name))
        if r.random() < 0.5:
            L.append("vsetclass %d gcls" % i)
        for (t, rf, k) in inv.elems[:3]:
            if r.random() < 0.6:
                L.append("vaddtagref %d %d %d" % (i, t, rf))
        for j in range(len(inv.vdatas)):
            if r.random() < 0.5:
                L.append("vinsertvs %d %d" % (i, j))
        if i > 0 and r.random() < 0.5:
            L.append("vinsertvg %d 0" % i)
        if r.random() < 0.5:
            nt_, n_ = r.randrange(4), r.choice([1, 4])
            L.append("vsetattr %d ga%d %d %d %d" % (i, i, nt_, n_, r.randrange(50)))
            inv.attrs.setdefault("vg", []).append((i, "ga%d" % i, nt_, n_))
        inv.vgroups.append(name)
    for i in range(len(inv.vdatas)):
        L.append("vsdetach %d" % i)
    for i in range(len(inv.vgroups)):
        L.append("vdetach %d" % i)
    # ---- annotations
    if r.random() < 0.6:
        L.append("anstart 0 0")
        k = 0
        for _ in range(r.choice([1, 2, 3])):
            t = r.randrange(4)
            if t >= 2:
                L.append("ancreatef %d 0 %d" % (k, t))
            elif inv.elems:
                e = r.choice(inv.elems)
                L.append("ancreate %d 0 %d %d %d" % (k, e[0], e[1], t))
            else:
                continue
            L.append("anwriteann %d %d %d" % (k, r.choice([1, 12, 80]), r.randrange(50)))
            L.append("anendaccess %d" % k)
            inv.anns[t] += 1
        L.append("anend 0")
    # ---- raster images
    if r.random() < 0.6:
        L.append("grstart 0 0")
        for i in range(r.choice([1, 1, 2])):
            name = "img%d" % i
            L.append("grcreate %d 0 %s %d %d %d %d" % (i, name, r.choice([1, 3]), r.choice([0, 0, 1, 2]), r.choice([3, 8, 16]), r.choice([2, 7, 10])))
            v = r.random()
            if v < 0.2:
                L.append("grsetchunk %d" % i)
            elif v < 0.4:
                L.append("grsetcompress %d %d" % (i, r.choice([1, 3])))
            elif v < 0.5:
                x = len(inv.ext)
                inv.ext.append(x)
                L.append("grsetexternalfile %d %d 0" % (i, x))
            if r.random() < 0.88:     # else: an image that was created but never written
                L.append("grwriteimage %d %d" % (i, r.randrange(100)))
            if r.random() < 0.5:
                nt_, n_ = r.randrange(4), r.choice([1, 5])
                L.append("grsetattr 1 %d ra%d %d %d %d" % (i, i, nt_, n_, r.randrange(50)))
                inv.attrs.setdefault("ri", []).append((i, "ra%d" % i, nt_, n_))
            if r.random() < 0.3:
                L.append("grwritelut %d %d" % (i, r.randrange(50)))
            L.append("grendaccess %d" % i)
            inv.images.append(name)
        if r.random() < 0.4:
            nt_ = r.randrange(4)
            L.append("grsetattr 0 0 gfa %d 3 %d" % (nt_, r.randrange(50)))
            inv.attrs.setdefault("gr", []).append((0, "gfa", nt_, 3))
        L.append("grend 0")
    L.append("hclose 0")
    # ---- SD
    if r.random() < 0.75:
        L.append("sdstart 0 0 3")
        for i in range(r.choice([1, 2, 2, 3, 4])):
            name = "sds%d" % i
            rank = r.choice([1, 1, 2, 2, 3])
            kind = r.choice(["fixed", "fixed", "unlim", "chunk", "chunkcomp", "comp", "ext"])
            if any(x_[2] for x_ in inv.sds) and r.random() < 0.5:
                kind = "unlim"      # several record datasets holding different numbers of records
            dims = [r.choice([2, 3, 5, 8]) for _ in range(rank)]
            if kind == "unlim":
                dims[0] = 0
            nt = r.choice([0, 1, 2, 3, 5])
            L.append("sdcreate %d 0 %s %d %d %s" % (i, name, nt, rank, " ".join(map(str, dims))))
            if r.random() < 0.3:
                L.append("sdsetfillvalue %d %d" % (i, r.randrange(50)))
            if kind == "chunk":
                L.append("sdsetchunk %d 0" % i)
            elif kind == "chunkcomp":
                L.append("sdsetchunk %d %d" % (i, r.choice([1, 3])))
            elif kind == "comp":
                L.append("sdsetcompress %d %d" % (i, r.choice([1, 2, 3])))
            elif kind == "ext":
                x = len(inv.ext)
                inv.ext.append(x)
                L.append("sdsetexternalfile %d %d 0" % (i, x))
            if r.random() < 0.9:
                if kind == "unlim":
                    L.append("sdwritedata %d %d %d 0" % (i, r.randrange(100), r.choice([1, 2, 3, 4, 5])))
                else:
                    L.append("sdwritedata %d %d 0 0" % (i, r.randrange(100)))
            if r.random() < 0.5:
                nt_, n_ = r.randrange(6), r.choice([1, 3])
                L.append("sdsetattr 1 %d 0 sa%d %d %d %d" % (i, i, nt_, n_, r.randrange(50)))
                inv.attrs.setdefault("sds", []).append((i, "sa%d" % i, nt_, n_))
            if r.random() < 0.4:
                L.append("sdsetdimname %d 0 dn%d" % (i, r.randrange(3)))
            if r.random() < 0.3 and kind != "unlim":
                L.append("sdsetdimscale %d 0 %d %d" % (i, r.randrange(4), r.randrange(50)))
            if r.random() < 0.2:
                L.append("sdsetdatastrs %d" % i)
            if r.random() < 0.2:
                L.append("sdsetcal %d" % i)
            if r.random() < 0.2:
                L.append("sdsetattr 2 %d 0 da%d 0 2 %d" % (i, i, r.randrange(50)))
                inv.attrs.setdefault("dim", []).append((i, "da%d" % i, 0, 2))
            L.append("sdendaccess %d" % i)
            inv.sds.append((name, rank, kind == "unlim", kind.startswith("chunk")))
        if r.random() < 0.5:
            nt_, n_ = r.randrange(6), r.choice([1, 4])
            L.append("sdsetattr 0 0 0 fattr %d %d %d" % (nt_, n_, r.randrange(50)))
            inv.attrs.setdefault("sd", []).append((0, "fattr", nt_, n_))
            inv.sdattrs = 1
        L.append("sdend 0")
    L.append("closeall")
    v = r.random()
    if v < 0.15:
        L.append("oldversion 0")
    elif v < 0.25:
        L += ["hopen 0 3 0", "deldd 0 30 1", "hclose 0"]
    if inv.ext and r.random() < 0.12:
        L.append("rmfile %d" % r.choice(inv.ext))
    inv.nobj = len(inv.elems) + len(inv.vdatas) + len(inv.vgroups) + len(inv.images) + len(inv.sds) + sum(inv.anns)
    L += ["snapshot", "dump 0"]
    return L, inv


def pick_elem(r, inv, fresh=0.2):
    if inv.elems and r.random() > fresh:
        e = r.choice(inv.elems)
        return e[0], e[1]
    return r.choice([1000, 1001, 1500, 720, 1962, 306]), r.randrange(1, 40)


def ro_call(r, inv):
    """one call of the read-only program; slots are picked blindly among the low numbers (invalid -> 'na')"""
    t, rf = pick_elem(r, inv)
    a, s, g, d, i, n = r.randrange(3), r.randrange(3), r.randrange(3), r.randrange(3), r.randrange(3), r.randrange(3)
    vdn = r.choice(inv.vdatas)[0] if inv.vdatas and r.random() < 0.85 else "nosuch"
    vgn = r.choice(inv.vgroups) if inv.vgroups and r.random() < 0.85 else "nosuch"
    x = r.choice(inv.ext + [7]) if r.random() < 0.5 else 7

    def name_of(kind, pfx):
        """a rename / creation target: half of the time the name of ANOTHER existing object of that kind (the library
        then takes its 'name in use' / sharing / lookup path before or instead of the plain one)"""
        pool = {"vd": [v[0] for v in inv.vdatas], "vg": list(inv.vgroups), "sds": [x_[0] for x_ in inv.sds],
                "img": list(inv.images), "dim": ["dn0", "dn1", "dn2"] + ["fakeDim%d" % k for k in range(8)],
                "cls": ["cls0", "cls1", "gcls", "Var0.0", "Dim0.0", "RI0.0", "Attr0.0", "CDF0.0"]}.get(kind, [])
        if pool and r.random() < 0.5:
            return r.choice(pool)
        return nm(r, pfx)

    def attr_of(kind, slotmax=3):
        """(slot, name, nt, count): an EXISTING attribute of an object of this kind half of the time (same type, same or
        smaller count: the library then takes its update-in-place path), else a new name"""
        ex = [a for a in inv.attrs.get(kind, []) if a[0] < slotmax]
        if ex and r.random() < 0.5:
            o, name, nt_, n_ = r.choice(ex)
            return o, name, nt_, r.choice([n_, n_, 1])
        return r.randrange(3), nm(r, "at"), r.randrange(4), r.choice([1, 3])
    a_sd, a_sds, a_dim, a_gr, a_ri, a_vg, a_vs = (attr_of("sd", 1), attr_of("sds"), attr_of("dim"), attr_of("gr", 1), attr_of("ri"),
                                                   attr_of("vg"), attr_of("vs"))
    cands = [
        # ---- H mutators
        (4, "putelement 0 %d %d %d %d" % (t, rf, r.choice([1, 20, 200]), r.randrange(50))),
        (3, "startwrite %d 0 %d %d %d" % (a, t, rf, r.choice([0, 10, 100]))),
        (4, "startaccess %d 0 %d %d %d" % (a, t, rf, r.choice([3, 3, 2, 19, 35]))),
        (5, "write %d %d %d" % (a, r.choice([1, 4, 50]), r.randrange(50))),
        (3, "trunc %d %d" % (a, r.choice([0, 1, 3]))),
        (3, "setlength %d %d" % (a, r.choice([0, 4, 64]))),
        (3, "hlcreate %d 0 %d %d %d %d" % (a, t, rf, r.choice([4, 32]), r.choice([1, 3]))),
        (3, "hlconvert %d %d %d" % (a, r.choice([4, 32]), r.choice([1, 3]))),
        (3, "hxcreate %d 0 %d %d %d 0 0" % (a, t, rf, x)),
        (3, "hccreate %d 0 %d %d %d" % (a, t, rf, r.choice([1, 2, 3]))),
        (3, "hmccreate %d 0 %d %d 12 4" % (a, t, rf)),
        (4, "dupdd 0 %d %d %d %d" % (r.choice([1100, 1101]), r.randrange(1, 30), t, rf)),
        (4, "deldd 0 %d %d" % (t, rf)),
        (3, "reuse 0 %d %d" % (t, rf)),
        (2, "startbitwrite %d 0 %d %d 8" % (r.randrange(2), t, rf)),
        # ---- H readers / neutral
        (6, "startaccess %d 0 %d %d 1" % (a, t, rf)),
        (4, "startread %d 0 %d %d" % (a, t, rf)),
        (5, "read %d %d" % (a, r.choice([0, 1, 7, 100]))),
        (3, "seek %d %d %d" % (a, r.choice([0, 1, 5]), r.choice([0, 1, 2]))),
        (1, "tell %d" % a), (2, "inquire %d" % a), (2, "appendable %d" % a), (2, "setaccesstype %d" % a),
        (4, "endaccess %d" % a),
        (3, "getelement 0 %d %d" % (t, rf)), (2, "length 0 %d %d" % (t, rf)), (1, "exist 0 %d %d" % (t, rf)),
        (1, "number 0 %d" % t), (2, "newref 0"), (2, "hsync 0"), (3, "hcache 0 %d" % r.choice([0, 1])),
        (1, "fileversion 0"), (1, "fidinquire 0"),
        (1, "startbitread %d 0 %d %d" % (r.randrange(2), t, rf)), (1, "bitread %d 5" % r.randrange(2)),
        (1, "bitwrite %d 5 9" % r.randrange(2)), (1, "endbit %d" % r.randrange(2)),
        # ---- Vgroup
        (3, "vattachn %d 0 %s %s" % (g, vgn, r.choice(["r", "r", "w"]))),
        (3, "vattach %d 0 -1 w" % g),
        (3, "vsetname %d %s" % (g, name_of("vg", "n"))), (2, "vsetclass %d %s" % (g, name_of("cls", "c"))),
        (3, "vaddtagref %d %d %d" % (g, t, rf)), (2, "vinsertvs %d %d" % (g, s)), (1, "vinsertvg %d %d" % (g, (g + 1) % 3)),
        (3, "vdeletetagref %d %d %d" % (g, t, rf)), (3, "vdeleten 0 %s" % vgn),
        (3, "vsetattr %d %s %d %d %d" % (a_vg[0], a_vg[1], a_vg[2], a_vg[3], r.randrange(50))),
        (2, "vgetattr %d 0" % g), (3, "vinfo %d" % g), (1, "vgetid 0 -1"), (1, "vfind 0 %s" % vgn), (1, "vlone 0"),
        (2, "vdetach %d" % g),
        # ---- Vdata
        (4, "vsattachn %d 0 %s %s" % (s, vdn, r.choice(["r", "r", "w"]))),
        (3, "vsattach %d 0 -1 w" % s),
        (3, "vssetname %d %s" % (s, name_of("vd", "n"))), (2, "vssetclass %d %s" % (s, name_of("cls", "c"))),
        (2, "vsfdefine %d q%d %d 1" % (s, r.randrange(3), r.randrange(4))),
        (3, "vssetfields %d %s" % (s, r.choice([v[1] for v in inv.vdatas if v[1]] + ["a"]))),
        (4, "vsdefinefields %d %s" % (s, r.choice(["a", "a,b", "PX", "PX,PY", "q0", "q1,q2", "IDX"]))),
        (4, "vswrite %d %d %d" % (s, r.choice([1, 5]), r.randrange(50))),
        (3, "vsread %d %d" % (s, r.choice([1, 3]))), (2, "vsseek %d %d" % (s, r.choice([0, 1, 2]))),
        (3, "vssetattr %d -1 %s %d %d %d" % (a_vs[0], a_vs[1], a_vs[2], a_vs[3], r.randrange(50))),
        (1, "vssetattr %d 0 %s %d %d %d" % (s, nm(r, "at"), r.randrange(4), r.choice([1, 3]), r.randrange(50))),
        (2, "vsgetattr %d -1 0" % s), (3, "vsdeleten 0 %s" % vdn), (4, "vsinfo %d" % s), (1, "vsfind 0 %s" % vdn),
        (1, "vsgetid 0 -1"), (1, "vslone 0"), (2, "vssetinterlace %d %d" % (s, r.choice([0, 1]))),
        (1, "vssetblocksize %d 128" % s), (1, "vssetnumblocks %d 4" % s), (1, "vsappendable %d 64" % s),
        (2, "vssetexternalfile %d %d 0" % (s, x)),
        (2, "vhstoredata 0 %d %d %s hc" % (r.choice([1, 4]), r.randrange(50), name_of("vd", "h"))),
        (2, "vhmakegroup 0 %d %d %d %d %s gc" % (t, rf, t, rf, nm(r, "hg"))),
        (2, "vsdetach %d" % s),
        # ---- SD
        (3, "sdcreate %d 0 %s %d %d %s" % (d, name_of("sds", "ns"), r.randrange(6), r.choice([1, 2]), "4 3")),
        (6, "sdselect %d 0 %d" % (d, r.randrange(max(1, len(inv.sds) + 1)))),
        (5, "sdwritedata %d %d %d 0" % (d, r.randrange(50), r.choice([0, 0, 1, 2]))),
        (4, "sdreaddata %d" % d), (4, "sdreadrec %d %d %d" % (d, r.choice([0, 0, 1, 3]), r.choice([1, 2, 4, 5, 9]))),
        (2, "sdsetattr 0 0 0 %s %d %d %d" % (a_sd[1], a_sd[2], a_sd[3], r.randrange(50))),
        (3, "sdsetattr 1 %d 0 %s %d %d %d" % (a_sds[0], a_sds[1], a_sds[2], a_sds[3], r.randrange(50))),
        (2, "sdsetattr 2 %d 0 %s %d %d %d" % (a_dim[0], a_dim[1], a_dim[2], a_dim[3], r.randrange(50))),
        (4, "sdwritedim %d %d %d" % (d, r.choice([0, 0, 1]), r.randrange(50))),
        (2, "sdreadattr %d %d 0 0" % (r.choice([0, 1, 2]), d)),
        (5, "sdsetdimname %d %d %s" % (d, r.choice([0, 0, 1, 2]), name_of("dim", "dn"))), (3, "sdsetdimscale %d 0 %d %d" % (d, r.randrange(4), r.randrange(50))),
        (5, "sdgetdimscale %d 0" % d), (2, "sdsetdimstrs %d 0" % d), (2, "sdsetdimval_comp %d 0 %d" % (d, r.choice([0, 1]))),
        (3, "sdsetdatastrs %d" % d), (3, "sdsetcal %d" % d), (3, "sdsetfillvalue %d %d" % (d, r.randrange(50))),
        (3, "sdsetrange %d %d" % (d, r.randrange(50))), (3, "sdsetcompress %d %d" % (d, r.choice([1, 2, 3]))),
        (3, "sdsetchunk %d %d" % (d, r.choice([0, 1, 3]))), (3, "sdsetexternalfile %d %d 0" % (d, x)),
        (1, "sdsetnbitdataset %d" % d), (2, "sdsetfillmode 0 %d" % r.choice([0, 256])), (1, "sdsetblocksize %d 512" % d),
        (1, "sdsetchunkcache %d 2" % d), (2, "sdsetaccesstype %d" % d), (3, "sdwritechunk %d %d" % (d, r.randrange(50))),
        (2, "sdreadchunk %d" % d), (5, "sdinfo %d" % d), (1, "sdfileinfo 0"), (1, "sdnametoindex 0 sds0"), (1, "sdfindattr 0 fattr"),
        (3, "sdendaccess %d" % d),
        # ---- GR
        (3, "grcreate %d 0 %s %d %d 4 3" % (i, name_of("img", "ni"), r.choice([1, 3]), r.randrange(3))),
        (5, "grselect %d 0 %d" % (i, r.randrange(max(1, len(inv.images) + 1)))),
        (4, "grwriteimage %d %d" % (i, r.randrange(50))), (4, "grreadimage %d" % i),
        (3, "grsetattr 0 0 %s %d %d %d" % (a_gr[1], a_gr[2], a_gr[3], r.randrange(50))),
        (4, "grsetattr 1 %d %s %d %d %d" % (a_ri[0], a_ri[1], a_ri[2], a_ri[3], r.randrange(50))),
        (2, "grgetattr %d %d 0" % (r.choice([0, 1]), i)), (3, "grwritelut %d %d" % (i, r.randrange(50))), (2, "grreadlut %d" % i),
        (3, "grsetcompress %d %d" % (i, r.choice([1, 3]))), (3, "grsetchunk %d" % i), (3, "grsetexternalfile %d %d 0" % (i, x)),
        (2, "grsetaccesstype %d" % i), (1, "grsetchunkcache %d 2" % i), (1, "grreqimageil %d %d" % (i, r.choice([0, 1, 2]))),
        (3, "grinfo %d" % i), (1, "grfileinfo 0"), (1, "grnametoindex 0 img0"), (3, "grendaccess %d" % i),
        # ---- AN
        (3, "ancreate %d 0 %d %d %d" % (n, t, rf, r.choice([0, 1]))), (3, "ancreatef %d 0 %d" % (n, r.choice([2, 3]))),
        (4, "anselect %d 0 %d %d" % (n, r.randrange(2), r.randrange(4))),
        (5, "anwriteann %d %d %d" % (n, r.choice([1, 30]), r.randrange(50))), (3, "anreadann %d" % n),
        (1, "aninfo 0 %d %d" % (t, rf)), (3, "anendaccess %d" % n),
    ]
    tot = sum(w for w, _ in cands)
    k = r.randrange(tot)
    for w, l in cands:
        if k < w:
            return l
        k -= w
    return cands[0][1]


def gen_ro_program(r, inv):
    L = []
    same_twice = r.random() < 0.2
    L.append("hopen 0 1 0")
    if same_twice:
        L.append("hopen 1 1 0 0")
    L.append("vstart 0")
    if r.random() < 0.85:
        L.append("sdstart 0 0 1")
    if r.random() < 0.8:
        L.append("grstart 0 0")
    if r.random() < 0.8:
        L.append("anstart 0 0")
    # attach a few read handles first so that later calls find valid slots
    for (t, rf, k) in inv.elems[:3]:
        if r.random() < 0.6:
            L.append("startaccess %d 0 %d %d 1" % (len([x for x in L if x.startswith("startaccess")]) % 3, t, rf))
    for j, v in enumerate(inv.vdatas[:3]):
        if r.random() < 0.7:
            L.append("vsattachn %d 0 %s r" % (j, v[0]))
            if v[1]:
                L.append("vssetfields %d %s" % (j, v[1]))
    for j, v in enumerate(inv.vgroups[:3]):
        if r.random() < 0.7:
            L.append("vattachn %d 0 %s r" % (j, v))
    # a second attach of an object that is attached already (first vs. repeated attach take different paths)
    if inv.vdatas and r.random() < 0.5:
        L.append("vsattachn 3 0 %s %s" % (inv.vdatas[0][0], r.choice("rw")))
    if inv.vgroups and r.random() < 0.5:
        L.append("vattachn 3 0 %s %s" % (inv.vgroups[0], r.choice("rw")))
    if inv.sds and r.random() < 0.4:
        L.append("sdselect 3 0 0")
    if inv.images and r.random() < 0.4:
        L.append("grselect 3 0 0")
    for j in range(min(3, len(inv.sds))):
        if r.random() < 0.8:
            L.append("sdselect %d 0 %d" % (j, j))
    for j in range(min(3, len(inv.images))):
        if r.random() < 0.8:
            L.append("grselect %d 0 %d" % (j, j))
    for t in range(4):
        if inv.anns[t] and r.random() < 0.7:
            L.append("anselect %d 0 0 %d" % (t % 3, t))
    n = r.randrange(25, 70)
    refuse_at = r.randrange(n) if r.random() < 0.35 and not same_twice else -1
    INFO = {"vs": "vsinfo %s", "v": "vinfo %s", "sd": "sdinfo %s", "gr": "grinfo %s"}
    for k in range(n):
        if k == refuse_at:
            L += refused_write_open(r)
        c = ro_call(r, inv)
        t = c.split()
        # inquiry - mutator - inquiry: a refused request must leave no trace in what the handle shows
        pfx = next((p_ for p_ in ("vs", "sd", "gr", "v") if t[0].startswith(p_) and t[0] not in ("vstart", "vend")), None)
        if pfx and t[0] in MUT_ALL and r.random() < 0.6 and len(t) > 1 and t[1].isdigit():
            slot = t[2] if t[0] in ("sdsetattr", "grsetattr") and len(t) > 2 else t[1]
            # a READING call on the same handle first (it leaves access ids / caches attached: the refusal of the mutator
            # must not depend on that), then inquiry - mutator - inquiry - the same read again
            rd = {"vs": ["vsread %s 1", "vsseek %s 0"], "v": ["vgetattr %s 0", "vinfo %s"], "sd": ["sdreaddata %s", "sdreadchunk %s", "sdreadattr 1 %s 0 0"],
                  "gr": ["grreadimage %s", "grreadimage %s", "grreadlut %s", "grgetattr 1 %s 0"]}[pfx]
            pre = [r.choice(rd) % slot] if r.random() < 0.7 else []
            L += pre + [INFO[pfx] % slot, c, INFO[pfx] % slot] + pre
        else:
            L.append(c)
    L += ["closeall", "check", "dump 0"]
    return L


def refused_write_open(r):
    """a write-mode open of the path that is already open read-only, made to FAIL by hiding the file for a moment
    (works for any uid); every later mutator still goes through the old, read-only id"""
    how = r.choice(["h", "h", "sd"])
    return ["hide 0", "hopen 1 %d 0 0" % r.choice([3, 2, 3]) if how == "h" else "sdstart 1 0 3", "unhide 0"]


def gen_os_history(r, name):
    """OS-level scenario: the HDF file is write-protected (mode 0444) and the process runs as an unprivileged user, the
    external files stay writable; a write-mode open of the already read-open path is refused by the OS; then the
    mutators of every layer through the read-only ids, first of all writes to the external elements"""
    b, inv = gen_build(r)
    b = [l for l in b if l not in ("snapshot", "dump 0") and not l.startswith("rmfile")]
    # make sure there is an external element and an external SDS to aim at
    extra = ["hopen 0 3 0", "hxcreate 0 0 1003 77 8 0 0", "write 0 40 9", "endaccess 0", "putelement 0 1002 78 24 3", "hclose 0"]
    inv.elems += [(1003, 77, "ext"), (1002, 78, "plain")]
    L = ["history " + name] + b + extra + ["closeall", "chmodro f0.hdf", "dropuid", "snapshot", "dump 0"]
    L += ["hopen 0 1 0", "vstart 0"]
    if r.random() < 0.7:
        L.append("sdstart 0 0 1")
    if r.random() < 0.7:
        L.append("grstart 0 0")
    for j in range(min(3, len(inv.sds))):
        L.append("sdselect %d 0 %d" % (j, j))
    for j in range(min(3, len(inv.images))):
        L.append("grselect %d 0 %d" % (j, j))
    # the refused write-open: by permission (no hiding needed when the uid could be dropped), or by hiding
    if r.random() < 0.5:
        L += ["hopen 1 3 0 0"]
    else:
        L += refused_write_open(r)
    L += ["startaccess 3 0 1003 77 3", "write 3 16 5", "endaccess 3", "startwrite 3 0 1001 97 10", "endaccess 3",
          "deldd 0 1002 78", "getelement 0 1002 78", "dupdd 0 1100 9 1002 78", "hxcreate 3 0 1002 78 6 0 0", "endaccess 3"]
    for _ in range(r.randrange(10, 30)):
        L.append(ro_call(r, inv))
    L += ["closeall", "regainuid", "check", "dump 0"]
    return L, inv, "ro"


def gen_rw_noop(r, inv):
    L = []
    v = r.random()
    if v < 0.7:
        L.append("hopen 0 3 0")
        if r.random() < 0.7:
            L.append("vstart 0")
        if r.random() < 0.5:
            L.append("grstart 0 0")
        if r.random() < 0.5:
            L.append("anstart 0 0")
    if v > 0.4:
        L.append("sdstart 0 0 3")
    # read-only / inquiry traffic
    for _ in range(r.randrange(0, 12)):
        t, rf = pick_elem(r, inv, 0.1)
        L.append(r.choice([
            "startaccess 0 0 %d %d 1" % (t, rf), "read 0 0", "endaccess 0", "getelement 0 %d %d" % (t, rf),
            "length 0 %d %d" % (t, rf), "hsync 0", "fileversion 0", "sdselect 0 0 0", "sdreaddata 0", "sdinfo 0", "sdendaccess 0",
            "grselect 0 0 0", "grreadimage 0", "grinfo 0", "grendaccess 0", "vsattachn 0 0 vd0 r", "vsinfo 0", "vsdetach 0",
            "vattachn 0 0 vg0 r", "vinfo 0", "vdetach 0", "anselect 0 0 0 2", "anreadann 0", "anendaccess 0", "hcache 0 1", "hcache 0 0",
            "sdfileinfo 0", "grfileinfo 0", "vlone 0", "vslone 0", "newref 0"]))
    # plus readers drawn from the full call list (mutators filtered out), with their boundary arguments
    for j in range(min(3, len(inv.sds))):
        L.append("sdselect %d 0 %d" % (j, j))
    for j in range(min(3, len(inv.images))):
        L.append("grselect %d 0 %d" % (j, j))
    for j, v in enumerate(inv.vdatas[:3]):
        L.append("vsattachn %d 0 %s r" % (j, v[0]))
    k = 0
    while k < 25:
        c = ro_call(r, inv)
        t = c.split()
        k += 1
        if t[0] in MUT_ALL or t[0] in NOT_READERS or (t[0] in ("startaccess", "vattach", "vsattach", "vattachn", "vsattachn") and (t[-1] in ("w", "3", "2", "19", "35"))):
            continue
        L.append(c)
    L += ["closeall", "check", "dump 0"]
    return L


NOT_READERS = set("""startbitwrite bitwrite hlconvert setlength appendable setaccesstype sdsetaccesstype grsetaccesstype vsfdefine vssetinterlace
vssetblocksize vssetnumblocks vsappendable sdsetfillmode sdsetblocksize ancreate ancreatef hcache newref startwrite hxcreate hlcreate hccreate
hmccreate""".split())


def gen_history(r, name):
    if r.random() < 0.12:
        return gen_os_history(r, name)
    b, inv = gen_build(r)
    if r.random() < 0.8:
        return ["history " + name] + b + gen_ro_program(r, inv), inv, "ro"
    return ["history " + name] + b + gen_rw_noop(r, inv), inv, "rw"


# --------------------------------------------------------------------------------------------
def split_histories(lines):
    out, cur = [], []
    for l in lines:
        if l.startswith("history ") and cur:
            out.append(cur)
            cur = []
        cur.append(l)
    if cur:
        out.append(cur)
    return out


def tools(ctx):
    exe = ctx.harness("drive_ro", ["drive_ro.c"], wraps=["fwrite", "fputc", "fopen"])
    spec = ctx.model("ro_spec", ["ro_main.ml"], ["ro_spec"])
    return exe, spec


def run_histories(ctx, hists, tag):
    """-> (flat lines, R lines (text after the line number, by index), S verdict lines)"""
    exe, spec = tools(ctx)
    wd = os.path.join(ctx.bdir, "harness", "c14-%s-%d" % (tag, os.getpid()))
    shutil.rmtree(wd, ignore_errors=True)
    os.makedirs(wd)
    flat = [l for h in hists for l in h]
    p = os.path.join(wd, "in.hist")
    open(p, "w").write("\n".join(flat) + "\n")
    rc, R = vc.run_lines(exe, p, timeout=1500, args=[wd])
    po = os.path.join(wd, "out.txt")
    open(po, "w").write("\n".join(R) + "\n")
    rcs, S = vc.run_lines(spec, po, timeout=600, args=[p])
    shutil.rmtree(wd, ignore_errors=True)
    if rcs != 0 or len(S) != len(flat):
        raise vc.BuildError("spec driver failed rc=%d (%d lines for %d): %s" % (rcs, len(S), len(flat), "\n".join(S[-5:])))
    Rl = [""] * len(flat)
    PRE.clear()
    for l in R:
        m = re.match(r"^(\d+) (.*)$", l)
        if m and m.group(2).startswith("pre "):
            PRE[int(m.group(1)) - 1] = m.group(2)[4:]
            continue
        if m and 1 <= int(m.group(1)) <= len(flat) and not Rl[int(m.group(1)) - 1]:
            Rl[int(m.group(1)) - 1] = m.group(2)
    S = [l.split(" ", 1)[1] if " " in l else l for l in S]
    return flat, Rl, S


CLAUSE = {"1": "mutator-succeeded", "2": "write-reached-device", "3": "file-created", "4": "bytes-changed",
          "5": "objects-changed", "6": "inquiry-changed", "8": "unknown-op", "9": "crash"}


def violations_of(S, lo, hi):
    return [(i, S[i].split()[1].split(",")) for i in range(lo, hi) if S[i].startswith("VIOLATION")]


PRE = {}   # line index -> context printed by the harness before a seek/read ran (for crash signatures)


def sig_of(line, codes, idx=None, pre=None):
    s = "%s:%s" % (line.split()[0], "+".join(CLAUSE.get(c, c) for c in codes))
    pre = PRE if pre is None else pre
    if codes == ["9"] and idx in pre:
        s += ":" + pre[idx].replace(" ", ":")
    return s


def shrink(ctx, hist, want_sig, limit=60):
    """delta debugging on the lines of one history; keeps 'history', 'snapshot'; target: some line still yields
    the wanted signature"""
    def fails(h):
        flat, R, S = run_histories(ctx, [h], "shrink")
        return any(sig_of(flat[i], c, i) == want_sig for i, c in violations_of(S, 0, len(flat)))
    cur = list(hist)
    n = 0
    chunk = max(1, (len(cur) - 1) // 2)
    while chunk >= 1 and n < limit:
        i = 1
        progressed = False
        while i < len(cur) and n < limit:
            seg = cur[i:i + chunk]
            if any(l.split()[0] in ("snapshot", "closeall") or l.startswith("hopen 0 4") for l in seg):
                i += 1
                continue
            cand = cur[:i] + cur[i + chunk:]
            n += 1
            if len(cand) > 2 and fails(cand):
                cur = cand
                progressed = True
            else:
                i += chunk
        if not progressed:
            chunk //= 2
    return cur


def report(ctx, hist, flat, R, S, lo, hi, seen_sigs, budget, pre):
    """turn the violations of one history into VIOLATION / KNOWN-FINDING lines"""
    vs = violations_of(S, lo, hi)
    for i, codes in vs:
        sig = sig_of(flat[i], codes, i, pre)
        if sig == "dump:objects-changed" and any(" empty=1" in R[j] for j in range(lo, i)) and \
                any(flat[j].split()[:1] in (["hopen"], ["sdstart"]) and flat[j].split()[-2 if flat[j].startswith("hopen") and len(flat[j].split()) > 3 else -1] in ("3", "2")
                    for j in range(lo, i)):
            # a write-mode session read a dataset / dimension scale that holds no data yet (the harness marks those calls)
            sig += ":after-read-of-empty-dataset-in-write-mode"
        if sig in seen_sigs:
            continue
        seen_sigs.add(sig)
        if ctx.match_known(sig) is not None:
            ctx.violation("known finding", "", found=True, signature=sig)
            continue
        if budget[0] <= 0:
            continue
        budget[0] -= 1
        small = shrink(ctx, hist, sig, 40 if ctx.tier == "quick" else 150)
        f2, R2, S2 = run_histories(ctx, [small], "rep")
        txt = ["# C14 replay: library (R) vs monitor specification ROSpec (S); signature %s" % sig,
               "# run: bin/check C14 --replay <this file>"] + small + ["# ---- observed / verdict"]
        for j, l in enumerate(f2):
            if S2[j].startswith("VIOLATION"):
                txt.append("#   line %d: %-40s R: %-30s S: %s (%s)" % (
                    j + 1, l, R2[j][:30], S2[j], "+".join(CLAUSE.get(c, c) for c in S2[j].split()[1].split(","))))
        ctx.violation("read-only property violated: %s at '%s' (library: %s)" % (sig, flat[i], R[i][:60]), "\n".join(txt), found=True)


def run(ctx):
    r = ctx.rng
    corpus = []
    cdir = os.path.join(vc.VERIF, "corpus", "C14")
    for fn in sorted(os.listdir(cdir)) if os.path.isdir(cdir) else []:
        corpus += split_histories([l for l in open(os.path.join(cdir, fn)).read().splitlines() if l.strip() and not l.startswith("#")])
    nh = 160 if ctx.tier == "quick" else 3000
    gen = [gen_history(r, "g%d" % i) for i in range(nh)]
    hists = corpus + [g[0] for g in gen]
    kinds = ["corpus"] * len(corpus) + [g[2] for g in gen]
    invs = [None] * len(corpus) + [g[1] for g in gen]
    flat, R, S = run_histories(ctx, hists, "main")
    pre_main = dict(PRE)
    opmix, rcmix = {}, {"ok": 0, "fail": 0, "na": 0}
    mut_exec, mut_failed, nviol_h = 0, 0, 0
    pos = 0
    seen, budget = set(), [3]
    buildkinds = {}
    for h, kind, inv in zip(hists, kinds, invs):
        lo, hi = pos, pos + len(h)
        pos = hi
        snap = next((i for i in range(lo, hi) if flat[i] == "snapshot"), hi)
        nm_ = 0
        for i in range(snap, hi):
            op = flat[i].split()[0]
            opmix[op] = opmix.get(op, 0) + 1
            c = R[i].split()[0] if R[i] else "missing"
            if c in rcmix:
                rcmix[c] += 1
            if c in ("ok", "fail") and op in MUT_ALL:
                nm_ += 1
                mut_exec += 1
                mut_failed += c == "fail"
        if inv is not None:
            for e in inv.elems:
                buildkinds["elem-" + e[2]] = buildkinds.get("elem-" + e[2], 0) + 1
            buildkinds["vdata"] = buildkinds.get("vdata", 0) + len(inv.vdatas)
            buildkinds["vgroup"] = buildkinds.get("vgroup", 0) + len(inv.vgroups)
            buildkinds["sds"] = buildkinds.get("sds", 0) + len(inv.sds)
            buildkinds["image"] = buildkinds.get("image", 0) + len(inv.images)
            buildkinds["annotation"] = buildkinds.get("annotation", 0) + sum(inv.anns)
            buildkinds["external-files"] = buildkinds.get("external-files", 0) + len(inv.ext)
        nontriv = (kind == "ro" and nm_ >= 5) or (kind == "rw" and inv is not None and inv.nobj >= 3) or kind == "corpus"
        ctx.case(tuple(h[1:]), nontriv, sample={"kind": kind, "program": [flat[i] for i in range(snap, min(hi, snap + 10))],
                                                "library": [R[i][:50] for i in range(snap, min(hi, snap + 10))]}
                 if len(ctx.coverage["samples"]) < 3 else None)
        if violations_of(S, lo, hi):
            nviol_h += 1
            report(ctx, h, flat, R, S, lo, hi, seen, budget, pre_main)
    ctx.corr("R~ROSpec", histories=len(hists), corpus_histories=len(corpus), operations=len(flat),
             ro_histories=kinds.count("ro"), rw_noedit_histories=kinds.count("rw"), op_mix_after_snapshot=opmix,
             result_classes=rcmix, mutators_executed_read_only=mut_exec, mutators_refused=mut_failed,
             histories_with_violation=nviol_h, built_content=buildkinds, distinct_signatures=sorted(seen))
    run_model(ctx)


def gen_model_history(r, name):
    """element-level history for the R-vs-M correspondence: build, ddlist (the model's initial state), one session
    through a read-only (75%) or write-mode handle; handles are released explicitly so that Hclose is compared too"""
    b, inv = gen_build(r)
    b = [l for l in b if l not in ("snapshot", "dump 0")]
    L = ["history " + name] + b + ["ddlist 0", "snapshot"]
    ro = r.random() < 0.75
    L.append("hopen 0 %d 0" % (r.choice([1, 1, 1, 5]) if ro else 3))
    slots = {}
    if ro:
        L.append("vstart 0")
    n = r.randrange(8, 40)
    for _ in range(n):
        t, rf = pick_elem(r, inv, 0.15)
        a = r.randrange(4)
        if ro:
            vdn = r.choice(inv.vdatas)[0] if inv.vdatas and r.random() < 0.9 else "nosuch"
            vgn = r.choice(inv.vgroups) if inv.vgroups and r.random() < 0.9 else "nosuch"
            s_, g_ = r.randrange(3), r.randrange(3)
            L.append(r.choice([
                "startaccess %d 0 %d %d 1" % (a, t, rf), "startaccess %d 0 %d %d 1" % (a, t, rf), "startread %d 0 %d %d" % (a, t, rf),
                "startaccess %d 0 %d %d %d" % (a, t, rf, r.choice([3, 2, 19])), "startwrite %d 0 %d %d %d" % (a, t, rf, r.choice([0, 8])),
                "write %d %d 3" % (a, r.choice([1, 9])), "read %d %d" % (a, r.choice([0, 1, 4])), "seek %d 1 0" % a,
                "trunc %d %d" % (a, r.choice([0, 2])), "setlength %d %d" % (a, r.choice([0, 6])), "appendable %d" % a,
                "endaccess %d" % a, "endaccess %d" % a, "putelement 0 %d %d 12 4" % (t, rf),
                "dupdd 0 1100 %d %d %d" % (r.randrange(1, 9), t, rf), "deldd 0 %d %d" % (t, rf), "reuse 0 %d %d" % (t, rf),
                "hlcreate %d 0 %d %d 8 2" % (a, t, rf), "hxcreate %d 0 %d %d 7 0 0" % (a, t, rf), "hccreate %d 0 %d %d 1" % (a, t, rf),
                "hmccreate %d 0 %d %d 12 4" % (a, t, rf), "hlconvert %d 8 2" % a, "hsync 0", "hcache 0 %d" % r.choice([0, 1]),
                "vattach %d 0 -1 w" % g_, "vsattach %d 0 -1 w" % s_, "vattachn %d 0 %s %s" % (g_, vgn, r.choice("rrw")),
                "vsattachn %d 0 %s %s" % (s_, vdn, r.choice("rrw")), "vsetname %d x" % g_, "vsetclass %d x" % g_,
                "vaddtagref %d %d %d" % (g_, t, rf), "vdeletetagref %d %d %d" % (g_, t, rf), "vssetname %d x" % s_,
                "vssetclass %d x" % s_, "vswrite %d 1 2" % s_, "vsdefinefields %d PX" % s_, "vsdefinefields %d a" % s_, "vdetach %d" % g_, "vsdetach %d" % s_,
                "vdeleten 0 %s" % vgn, "vsdeleten 0 %s" % vdn]))
        else:
            L.append(r.choice([
                "startaccess %d 0 %d %d 1" % (a, t, rf), "startread %d 0 %d %d" % (a, t, rf), "read %d %d" % (a, r.choice([0, 1, 4])),
                "seek %d 1 0" % a, "endaccess %d" % a, "endaccess %d" % a, "hsync 0", "hcache 0 %d" % r.choice([0, 1])]))
    for a in range(4):
        L.append("endaccess %d" % a)
    for k in range(3):
        L += ["vsdetach %d" % k, "vdetach %d" % k]
    if ro and r.random() < 0.6:
        # a read-only SD session on the same file: the SD guard-structure model (SDModel) against the library
        L.append("sdstart 0 0 %d" % r.choice([1, 1, 1]))
        for j in range(min(3, len(inv.sds))):
            L.append("sdselect %d 0 %d" % (j, j))
        for _ in range(r.randrange(4, 16)):
            d = r.randrange(3)
            L.append(r.choice([
                "sdcreate %d 0 %s %d 1 4" % (d, nm(r, "ns"), r.randrange(4)), "sdsetdimname %d 0 %s" % (d, r.choice(["dn0", "fakeDim0", nm(r, "dn")])),
                "sdsetrange %d 3" % d, "sdsetattr 1 %d 0 %s 0 2 1" % (d, r.choice(["sa0", "sa1", nm(r, "at")])), "sdsetattr 0 0 0 fattr 0 2 1",
                "sdsetattr 2 %d 0 da0 0 2 1" % d, "sdsetdatastrs %d" % d, "sdsetcal %d" % d, "sdsetfillvalue %d 3" % d, "sdsetdimstrs %d 0" % d,
                "sdsetdimscale %d 0 2 1" % d, "sdsetdimval_comp %d 0 1" % d, "sdwritedata %d 5 0 0" % d, "sdwritedim %d 0 4" % d,
                "sdsetexternalfile %d 7 0" % d, "sdsetcompress %d 1" % d, "sdsetchunk %d 0" % d, "sdsetnbitdataset %d" % d,
                "sdwritechunk %d 3" % d, "sdsetfillmode 0 %d" % r.choice([0, 256]), "sdgetdimscale %d 0" % d, "sdreaddata %d" % d,
                "sdinfo %d" % d, "sdfileinfo 0", "sdselect %d 0 %d" % (d, r.randrange(4)), "sdendaccess %d" % d]))
        L.append("sdend 0")
    L += ["hclose 0", "closeall", "check"]
    return L


RC_DECISIVE = set("""startaccess startread startwrite write trunc setlength putelement dupdd deldd reuse hlcreate hxcreate hccreate
hmccreate hlconvert hsync hcache vattach vsattach vattachn vsattachn vsetname vsetclass vaddtagref vdeletetagref vssetname vssetclass
vswrite vsdefinefields vdeleten vsdeleten appendable endaccess vdetach vsdetach hclose hopen
sdstart sdend sdcreate sdsetdimname sdsetrange sdsetattr sdsetdatastrs sdsetcal sdsetfillvalue sdsetdimstrs sdsetdimscale sdsetdimval_comp
sdwritedata sdwritedim sdsetexternalfile sdsetcompress sdsetchunk sdsetnbitdataset sdwritechunk sdsetfillmode""".split())


def run_model(ctx):
    """R vs M (coq/ROModel.v, extracted) on element-level sessions: result class of every decisive call and
    'did a write reach the device' of every modelled call"""
    r = ctx.rng
    exe, spec = tools(ctx)
    mod = ctx.model("ro_model", ["romodel_main.ml"], ["ro_model"])
    nh = 120 if ctx.tier == "quick" else 2000
    hists = [gen_model_history(r, "m%d" % i) for i in range(nh)]
    wd = os.path.join(ctx.bdir, "harness", "c14m-%d" % os.getpid())
    shutil.rmtree(wd, ignore_errors=True)
    os.makedirs(wd)
    flat = [l for h in hists for l in h]
    p = os.path.join(wd, "in.hist")
    open(p, "w").write("\n".join(flat) + "\n")
    rc, R = vc.run_lines(exe, p, timeout=1500, args=[wd])
    po = os.path.join(wd, "out.txt")
    open(po, "w").write("\n".join(R) + "\n")
    rcm, M = vc.run_lines(mod, po, timeout=600, args=[p])
    rcs, S = vc.run_lines(spec, po, timeout=600, args=[p])
    shutil.rmtree(wd, ignore_errors=True)
    if rcm != 0 or len(M) != len(flat):
        raise vc.BuildError("model driver failed rc=%d (%d lines for %d): %s" % (rcm, len(M), len(flat), "\n".join(M[-5:])))
    Rl = [""] * len(flat)
    for l in R:
        m = re.match(r"^(\d+) (.*)$", l)
        if m and not m.group(2).startswith("pre ") and 1 <= int(m.group(1)) <= len(flat) and not Rl[int(m.group(1)) - 1]:
            Rl[int(m.group(1)) - 1] = m.group(2)
    compared, rc_compared, mism, opk, ro_s, rw_s, rw_close_w = 0, 0, [], {}, 0, 0, 0
    pos = 0
    for h in hists:
        lo, hi = pos, pos + len(h)
        pos = hi
        mode_ro = None
        bad = None
        for i in range(lo, hi):
            mt = M[i].split()
            if len(mt) < 4 or mt[1] != "M":
                continue
            op = flat[i].split()[0]
            rt = Rl[i].split()
            if not rt or rt[0] not in ("ok", "fail"):
                continue
            if op == "hopen":
                mode_ro = (int(flat[i].split()[2]) & 2) == 0
                ro_s += mode_ro
                rw_s += not mode_ro
            wf = next((x for x in rt if x.startswith("w=")), "w=0,0,0")
            rw = "w0" if wf.split(",")[1] == "0" else "w1"
            compared += 1
            opk[op] = opk.get(op, 0) + 1
            if op == "hclose" and not mode_ro and rw == "w1":
                rw_close_w += 1
            if op in RC_DECISIVE:
                rc_compared += 1
                if rt[0] != mt[2] and bad is None:
                    bad = (i, "result R=%s M=%s" % (rt[0], mt[2]))
            if rw != mt[3] and bad is None:
                bad = (i, "device write R=%s M=%s" % (rw, mt[3]))
        ctx.case(("model",) + tuple(h[1:]), True)
        if bad is not None:
            mism.append((h, bad, lo))
    for h, (i, what), lo in mism[:2]:
        # is it also a failing input of the property? (the monitor's verdict on the same run)
        sv = [j for j in range(lo, lo + len(h)) if S[j].split(" ", 1)[-1].startswith("VIOLATION")]
        txt = ["# C14: element-level session; library (R) vs Coq effect model ROModel (M) differ (%s)" % what,
               "# run: bin/check C14 --replay <this file>"] + h + [
               "# first R/M difference at line %d: %s" % (i - lo + 1, flat[i]), "#   library: %s" % Rl[i][:80], "#   model  : %s" % M[i]]
        if sv:
            txt.append("# the monitor specification also flags line %d: %s" % (sv[0] - lo + 1, flat[sv[0]]))
        ctx.violation("R-vs-M correspondence broken (%s) at: %s" % (what, flat[i]), "\n".join(txt), found=bool(sv))
    ctx.corr("R~ROModel", histories=len(hists), read_only_sessions=ro_s, write_mode_sessions=rw_s, calls_compared=compared,
             result_classes_compared=rc_compared, mismatching_histories=len(mism), op_mix=opk,
             write_mode_closes_that_wrote_the_version=rw_close_w)


MUT_ALL = set("""putelement startwrite write trunc setlength hlcreate hlconvert hxcreate hccreate hmccreate dupdd deldd reuse
startbitwrite bitwrite vsetname vsetclass vaddtagref vinsertvs vinsertvg vdeletetagref vdelete vdeleten vsetattr vswrite
vssetname vssetclass vssetattr vsdelete vsdeleten vssetexternalfile vhstoredata vhmakegroup sdcreate sdwritedata sdsetattr
sdwritedim sdsetdimname sdsetdimscale sdsetdimstrs sdsetdimval_comp sdsetdatastrs sdsetcal sdsetfillvalue sdsetrange sdsetcompress
sdsetchunk sdsetexternalfile sdsetnbitdataset sdwritechunk grcreate grwriteimage grsetattr grwritelut grsetcompress grsetchunk
grsetexternalfile anwriteann""".split())   # statistics only (the oracle's list is ROSpec.mutators)


def replay(ctx, path):
    lines = [l for l in open(path).read().splitlines() if l.strip() and not l.startswith("#")]
    flat, R, S = run_histories(ctx, [lines], "replay")
    bad = 0
    for i, l in enumerate(flat):
        mark = "!!" if S[i].startswith("VIOLATION") else "  "
        bad += S[i].startswith("VIOLATION")
        extra = ""
        if S[i].startswith("VIOLATION"):
            extra = " (" + "+".join(CLAUSE.get(c, c) for c in S[i].split()[1].split(",")) + ")"
        print("%s %-46s R: %-44s S: %s%s" % (mark, l[:46], R[i][:44], S[i], extra))
    print("violations:", bad)
    return 1 if bad else 0
