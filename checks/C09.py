"""C09 -- general raster images and palettes.  Correspondence: the GR interface of the freshly built library (R)
vs the extracted implementation model (M: pointer walk of GRIil_convert, Hseek/Hwrite/Hread streams of
GRwriteimage/GRreadimage with the address arithmetic regenerated from mfgr.c) vs the abstract specification
(S: height x width x ncomp array with fill, closed-form interlace index functions) on generated histories."""
import glob
import os
import vcommon as vc

RULE = ("histories drawn from one PRNG (VERIF_SEED): GRcreate (dims 1..9 x 1..9, ncomp 1..5, the 10 standard number "
        "types and their DFNT_LITEND flavours, creation interlace 0..2), optional FillValue attribute, optional "
        "GRsetcompress (RLE / skipping Huffman / deflate) or GRsetchunk (plain or compressed chunks), then a sequence of "
        "GRwriteimage (whole image, solid rectangles, strided lattices, all inside the image; first write partial or "
        "whole), GRreqimageil (0..2), GRreadimage (whole / rectangle / strided), GRgetiminfo, raw element dump and "
        "GRend/Hclose/reopen; palettes (GRwritelut, GRreqlutil, GRreadlut, GRgetlutinfo, invalid palette shapes); "
        "two images interleaved in one file; direct calls of GRIil_convert for all 3x3 interlace pairs; rejected "
        "arguments (stride or count < 1); palettes attached or replaced in a LATER session for every image kind; "
        "old-style rasters (DFR8addimage with and without RLE, widths 1..9, 60, 119..131, 255..260 with runs of "
        "119..300 equal pixels; DF24addimage) read, dumped, rewritten through GR and reopened; direct DFCIrle + "
        "DFCIunrle on rows of up to 400 bytes; GRwritechunk / GRreadchunk on chunk lengths dividing the dimensions.  Every storage kind is rewritten (whole / region / strided) in the creating session and "
        "after reopen; the fill value is set and changed while an image is still empty, between reads of the empty image "
        "and before the first partial write; the FillValue attribute is read back.  A case is one compared operation result; it is non-trivial when "
        "it lies in the property's domain and transfers at least one pixel; distinct by (geometry, interlaces, "
        "storage, region, data)")
TRUSTED = ["Coq 8.16.1 kernel",
           "translator gen/gen_consts.py + plugin gen/plugins/gr_exprs.py (initial component pointers, pixel/line "
           "increments, loop bounds, copy length and wrap condition of GRIil_convert; img_offset, fill_lo/hi/line/"
           "stride sizes, pix_len, stride_add, row increments and trailing-line loops of GRwriteimage/GRreadimage; "
           "count[] of GRreadlut; run window, run threshold, literal flush limit, count flag and mask of dfrle.c) "
           "run on mfgr.c / dfrle.c through gcc -E",
           "extraction: Require Extraction + ExtrOcamlBasic; no Extract Constant; nat/Z extracted as inductives",
           "OCaml driver extract/gr_main.ml, C harness harness/drive_gr.c (Hseek/Hwrite/Hread observed through "
           "-Wl,--wrap), comparison in checks/C09.py",
           "modelled, not verified: the control skeleton of GRwriteimage/GRreadimage (which branch issues which calls; "
           "tied by the call-trace correspondence), the layers below (an element is a byte stream: Hseek/Hwrite/Hread, "
           "compression and chunking are transparent -- properties C01/C04/C05), DFKconvert per component "
           "(a bijection with inverse; property C06), metadata records of GRend (tied by reopen correspondence only), "
           "int32 width of offsets (images kept small)"]
ASSUMPTIONS = ["host is little-endian", "every generated history except the rejected-argument ones is in the domain: a "
               "'nodomain' answer of the specification on any other history, or a number type that never reaches the "
               "comparison, is reported as a violation of the check itself (no-failing-input-found)", "regions lie inside the image (GRwriteimage/GRreadimage do not check this)",
               "the FillValue attribute is set before the image is made chunked / first written",
               "DFNT_NATIVE number types are outside the domain (their file representation is machine-dependent)",
               "an image receives its first write in the session that created it (a partial first write in a later "
               "session is rejected by the library: fill_img is a per-session flag of GRcreate)",
               "the fill value is set / changed only while the image has no data (afterwards it no longer influences pixels)",
               "GRwritechunk / GRreadchunk are driven for chunk lengths that divide the image dimensions",
               "an old-style compressed raster (DFTAG_RLE) is rewritten through GR only with data of the same "
               "compressed size (it is recompressed in place and cannot grow; a larger image makes GRend FAIL)"]

NTS = {3: 1, 4: 1, 20: 1, 21: 1, 22: 2, 23: 2, 24: 4, 25: 4, 5: 4, 6: 8}
LITEND = 16384


# ---------------------------------------------------------------------------------------------------------
# generators
# ---------------------------------------------------------------------------------------------------------

class Img:
    def __init__(self, r, k, small=False):
        self.k = k
        hi = 5 if small else 9
        self.x = r.choice([1, 2, 3, 4, 5, 6, 7, 8, 9][:hi])
        self.y = r.choice([1, 2, 3, 4, 5, 6, 7, 8, 9][:hi])
        self.nc = r.choice([1, 1, 2, 3, 3, 4, 5])
        base = r.choice(list(NTS))
        self.cs = NTS[base]
        self.nt = base | (LITEND if r.random() < 0.25 else 0)
        self.il = r.randrange(3)
        self.store = "plain"
        self.written = False
        self.haslut = False

    def psz(self):
        return self.nc * self.cs


def rand_bytes(r, n):
    mode = r.randrange(4)
    if mode == 0:
        return [r.randrange(256) for _ in range(n)]
    if mode == 1:   # long runs (exercises RLE / Huffman)
        out = []
        while len(out) < n:
            out += [r.choice([0, 1, 255, r.randrange(256)])] * r.choice([1, 2, 3, 5, 9, 130])
        return out[:n]
    if mode == 2:
        return [(i * 7 + 3) & 255 for i in range(n)]
    return [r.choice([0, 255, 127, 128]) for _ in range(n)]


def rand_region(r, im, kind=None):
    kind = kind or r.choice(["whole", "solid", "solid", "strided", "strided", "strided", "pixel", "edge"])
    if kind == "whole":
        return (0, 0, 1, 1, im.x, im.y)

    def axis(n, strided):
        t = 1
        if strided and n > 1:
            t = r.randrange(1, n + 1)
        s = r.randrange(n)
        cmax = (n - 1 - s) // t + 1
        c = r.randrange(1, cmax + 1)
        return s, t, c
    if kind == "pixel":
        return (r.randrange(im.x), r.randrange(im.y), r.choice([1, 2]), r.choice([1, 2]), 1, 1)
    if kind == "edge":      # touches the last row and column
        sx, tx, cx = axis(im.x, r.random() < 0.5)
        sy, ty, cy = axis(im.y, r.random() < 0.5)
        sx += im.x - 1 - (sx + (cx - 1) * tx)
        sy += im.y - 1 - (sy + (cy - 1) * ty)
        return (sx, sy, tx, ty, cx, cy)
    st = kind == "strided"
    sx, tx, cx = axis(im.x, st)
    sy, ty, cy = axis(im.y, st and r.random() < 0.8)
    if st and tx == 1 and ty == 1 and im.y > 1:
        ty = 2
        sy = r.randrange(im.y)
        cy = r.randrange(1, (im.y - 1 - sy) // ty + 2)
    return (sx, sy, tx, ty, cx, cy)


def op_create(im):
    return "C %d %d %d %d %d %d" % (im.k, im.x, im.y, im.nc, im.nt, im.il)


def op_fill(r, im):
    b = [r.choice([0x77, 1, 255, r.randrange(256)]) for _ in range(im.psz())]
    return "F %d %d %s" % (im.k, len(b), " ".join(map(str, b)))


def op_write(r, im, reg):
    n = reg[4] * reg[5] * im.psz()
    return "W %d %d %d %d %d %d %d %d %s" % ((im.k,) + reg + (n, " ".join(map(str, rand_bytes(r, n)))))


def op_read(im, reg):
    return "R %d %d %d %d %d %d %d" % ((im.k,) + reg)


def gen_image_history(r, hid, stats):
    ops = ["H %d" % hid]
    nimg = 2 if r.random() < 0.15 else 1
    ims = [Img(r, k, small=(nimg == 2)) for k in range(nimg)]
    for im in ims:
        ops.append(op_create(im))
        if r.random() < 0.6:
            ops.append(op_fill(r, im))
            stats["fill_set"] += 1
        else:
            stats["fill_unset"] += 1
        sk = r.random()
        if sk < 0.25:
            ct = r.choice([1, 3, 4])
            ops.append("Z %d %d %d" % (im.k, ct, {1: 0, 3: r.choice([1, 2, 4]), 4: r.choice([1, 6, 9])}[ct]))
            im.store = "comp%d" % ct
        elif sk < 0.5:
            ct = r.choice([0, 0, 1, 3, 4])
            ops.append("K %d %d %d %d %d" % (im.k, r.randrange(1, im.x + 1), r.randrange(1, im.y + 1), ct,
                                             {0: 0, 1: 0, 3: r.choice([1, 2]), 4: r.choice([1, 6])}[ct]))
            im.store = "chunk%d" % ct
        stats["store_" + im.store] += 1
        stats["nt_%d" % im.nt] += 1
    nops = r.randrange(4, 12)
    for _ in range(nops):
        im = r.choice(ims)
        c = r.random()
        if not im.written and not im.store.startswith("chunk") and r.random() < 0.35:
            # the image has no data yet: read it (fill pixels), then set / change the fill value, read again ...
            if r.random() < 0.5:
                ops.append(op_read(im, rand_region(r, im)))
                stats["read_unwritten"] += 1
                im.read_empty = True
            else:
                ops.append(op_fill(r, im))
                stats["fill_changed_before_data"] += 1
                if getattr(im, "read_empty", False):
                    stats["fill_changed_after_empty_read"] += 1
            continue
        if c < 0.3:
            reg = rand_region(r, im, "whole" if (im.store.startswith("comp") and r.random() < 0.3) else None)
            if im.store.startswith("comp") and im.written:
                stats["comp_rewrite_%s" % ("later_session" if getattr(im, "reopened", False) else "same_session")] += 1
            ops.append(op_write(r, im, reg))
            kind = "whole" if reg == (0, 0, 1, 1, im.x, im.y) else ("solid" if reg[2] == 1 and reg[3] == 1 else "strided")
            stats["write_" + kind] += 1
            if not im.written and kind != "whole" and not im.store.startswith("chunk"):
                stats["first_write_fill_" + kind] += 1
                if reg[1] + (reg[5] - 1) * reg[3] + 1 < im.y:
                    stats["first_write_trailing_rows"] += 1
            stats["wil_%d" % im.il] += 1
            im.written = True
            im.dirty = True
        elif c < 0.42:
            il = r.randrange(3)
            ops.append("I %d %d" % (im.k, il))
            im.ril = il
        elif c < 0.8:
            reg = rand_region(r, im)
            ops.append(op_read(im, reg))
            kind = "whole" if reg == (0, 0, 1, 1, im.x, im.y) else ("solid" if reg[2] == 1 and reg[3] == 1 else "strided")
            stats["read_" + kind] += 1
            stats["ilpair_%d_%d" % (im.il, getattr(im, "ril", 0))] += 1
            if not im.written:
                stats["read_unwritten"] += 1
        elif c < 0.84:
            ops.append("G %d" % im.k)
        elif c < 0.87:
            ops.append("A %d" % im.k)
        elif c < 0.9:
            # the raw element of a compressed image is only current once the buffered access has been ended
            if not (im.store.startswith("comp") and getattr(im, "dirty", False)):
                ops.append("D %d" % im.k)
        else:
            if not all(j.written or j.store.startswith("chunk") for j in ims):
                continue            # an image gets its first write in the session that created it
            ops.append("E")
            stats["reopen"] += 1
            for j in ims:
                j.il = 0
                j.ril = 0
                j.reopened = True
                j.dirty = False
    # always finish with reopen + full reads in a random interlace
    ops.append("E")
    for im in ims:
        im.il = 0
        il = r.randrange(3)
        ops.append("I %d %d" % (im.k, il))
        ops.append(op_read(im, (0, 0, 1, 1, im.x, im.y)))
        ops.append("G %d" % im.k)
        ops.append("A %d" % im.k)
        stats["ilpair_0_%d" % il] += 1
    return ops


def gen_lut_history(r, hid, stats):
    ops = ["H %d" % hid]
    im = Img(r, 0, small=True)
    ops.append(op_create(im))
    ops.append("P 0")
    if r.random() < 0.3:   # rejected palette shapes
        bad = r.choice([(4, 21, 0, 256), (3, 22, 0, 256), (3, 21, 1, 256), (3, 21, 0, 16), (1, 21, 0, 256)])
        n = bad[0] * bad[3] * NTS.get(bad[1], 1)
        ops.append("L 0 %d %d %d %d %d %s" % (bad + (n, " ".join(map(str, rand_bytes(r, n))))))
        ops.append("P 0")
        stats["lut_rejected"] += 1
    for _ in range(r.randrange(1, 3)):
        ops.append("L 0 3 %d 0 256 768 %s" % (r.choice([21, 21, 3]), " ".join(map(str, rand_bytes(r, 768)))))
        stats["lut_written"] += 1
        for _ in range(r.randrange(1, 4)):
            c = r.random()
            if c < 0.4:
                il = r.randrange(3)
                ops.append("J 0 %d" % il)
                stats["lut_il_%d" % il] += 1
            elif c < 0.8:
                ops.append("P 0")
            else:
                ops.append("E")
    if r.random() < 0.5:
        ops.append(op_write(r, im, (0, 0, 1, 1, im.x, im.y)))
    ops += ["E", "P 0", "J 0 %d" % r.randrange(3), "P 0", "G 0"]
    return ops


def gen_conv_history(r, hid, stats, pair=None):
    ops = ["H %d" % hid]
    for _ in range(6):
        a, b = pair if pair else (r.randrange(3), r.randrange(3))
        x, y, nc = r.randrange(1, 10), r.randrange(1, 10), r.randrange(1, 6)
        base = r.choice(list(NTS))
        n = x * y * nc * NTS[base]
        ops.append("V %d %d %d %d %d %d %d %s" % (a, b, x, y, nc, base, n, " ".join(map(str, rand_bytes(r, n)))))
        stats["conv_%d_%d" % (a, b)] += 1
    return ops


def gen_malformed_history(r, hid, stats):
    ops = ["H %d" % hid]
    MALFORMED_IDS.add(ops[0])
    im = Img(r, 0, small=True)
    ops.append(op_create(im))
    ops.append(op_write(r, im, (0, 0, 1, 1, im.x, im.y)))
    for _ in range(3):
        bad = r.choice([(0, 0, 0, 1, 1, 1), (0, 0, 1, 0, 1, 1)])
        ops.append(op_read(im, bad))
        n = im.psz()
        ops.append("W 0 %d %d %d %d 1 1 %d %s" % (bad[0], bad[1], bad[2], bad[3], n, " ".join(map(str, rand_bytes(r, n)))))
        stats["rejected_args"] += 2
    ops.append(op_read(im, (0, 0, 1, 1, im.x, im.y)))
    ops.append("C 1 3 3 1 21 7")      # invalid interlace
    ops.append("I 0 5")
    ops.append("J 0 3")
    return ops


def long_run_row(r, w):
    """a row of w bytes with runs whose lengths sit around the coder limits (3, 120, 121, 127..131, 255..260)"""
    out = []
    while len(out) < w:
        c = r.random()
        if c < 0.45:
            n = r.choice([119, 120, 121, 122, 126, 127, 128, 129, 130, 131, 240, 241, 255, 256, 257, 260, 300])
            out += [r.choice([0, 7, 200, 255, r.randrange(256)])] * n
        elif c < 0.6:
            out += [r.randrange(256)] * r.choice([1, 2, 3, 4])
        elif c < 0.8:   # literals without repeats (exercises the 120/121 literal flush)
            n = r.choice([1, 5, 119, 120, 121, 122, 125])
            st = r.randrange(256)
            out += [(st + 3 * i + (i * i) % 5) & 255 for i in range(n)]
        else:
            out += [r.randrange(256) for _ in range(r.randrange(1, 9))]
    return out[:w]


def gen_legacy_history(r, hid, stats):
    """old-style rasters (DFR8addimage with RLE / without, DF24addimage) read and rewritten through GR"""
    ops = ["H %d" % hid]
    ims = []
    for k in range(r.choice([1, 1, 2])):
        im = Img(r, k, small=True)
        im.cs = 1
        if r.random() < 0.8:
            im.nc = 1
            im.x = r.choice([1, 3, 9, 60, 119, 120, 121, 122, 123, 127, 128, 129, 130, 131, 255, 256, 257, 258, 260])
            im.y = r.choice([1, 2, 3, 4])
            ct = 1 if r.random() < 0.85 else 0
            data = []
            for _ in range(im.y):
                data += long_run_row(r, im.x)
            im.store = "oldrle" if ct else "old8"
        else:
            im.nc = 3
            im.x, im.y = r.randrange(1, 10), r.randrange(1, 6)
            ct = 0
            data = rand_bytes(r, im.x * im.y * 3)
            im.store = "old24"
        im.il = 0
        im.nt = 3
        im.written = True
        im.data = data
        ops.append("O %d %d %d %d %d %d %s" % (k, im.x, im.y, im.nc, ct, len(data), " ".join(map(str, data))))
        stats["store_" + im.store] += 1
        stats["legacy_width_%s" % ("ge255" if im.x >= 255 else "120_131" if im.x >= 119 else "small")] += 1
        ims.append(im)
    for _ in range(r.randrange(3, 8)):
        im = r.choice(ims)
        c = r.random()
        if c < 0.5:
            ops.append(op_read(im, rand_region(r, im)))
            stats["read_legacy"] += 1
        elif c < 0.6:
            ops.append("I %d %d" % (im.k, r.randrange(3)))
        elif c < 0.7:
            if not getattr(im, "dirty", False):     # the buffered rewrite reaches the file when the access ends
                ops.append("D %d" % im.k)
        elif c < 0.8:
            ops.append("G %d" % im.k)
        elif c < 0.9:
            im.dirty = True
            # rewrite through GR.  An old-style compressed raster is recompressed in place and cannot grow,
            # so the new pixels are a byte substitution of the old ones (same run structure, same size).
            n = im.x * im.y * im.nc
            d = r.randrange(1, 256)
            im.data = [(v + d) & 255 for v in im.data]
            ops.append("W %d 0 0 1 1 %d %d %d %s" % (im.k, im.x, im.y, n, " ".join(map(str, im.data))))
            stats["write_legacy_whole"] += 1
        else:
            ops.append("E")
            for j in ims:
                j.dirty = False
    ops.append("E")
    for im in ims:
        ops.append("I %d %d" % (im.k, r.randrange(3)))
        ops.append(op_read(im, (0, 0, 1, 1, im.x, im.y)))
        ops.append("D %d" % im.k)
    return ops


def gen_rle_history(r, hid, stats):
    ops = ["H %d" % hid]
    for _ in range(5):
        w = r.choice([1, 2, 3, 4, 119, 120, 121, 122, 127, 128, 129, 130, 131, 240, 241, 242, 255, 256, 257, 260, 300, 400])
        ops.append("U %d %s" % (w, " ".join(map(str, long_run_row(r, w)))))
        stats["rle_rows"] += 1
    return ops


def gen_late_lut_history(r, hid, stats):
    """palette attached / replaced in a LATER session than the one that created the image, for every image kind"""
    ops = ["H %d" % hid]
    ims = [Img(r, k, small=True) for k in range(r.choice([1, 1, 2, 3]))]
    kind_cycle = r.randrange(4)
    for im in ims:
        c = (kind_cycle + im.k) % 4
        if c == 0:
            im.nt, im.cs, im.nc = 21, 1, r.choice([1, 3])      # the images that also get an old-style RIG
        elif c == 1:
            im.nt, im.cs, im.nc = 21, 1, r.choice([2, 4, 5])
        ops.append(op_create(im))
        sk = r.random()
        if sk < 0.2:
            ops.append("Z %d %d %d" % (im.k, r.choice([1, 4]), 6))
            im.store = "comp"
        elif sk < 0.4:
            ops.append("K %d %d %d 0 0" % (im.k, r.randrange(1, im.x + 1), r.randrange(1, im.y + 1)))
            im.store = "chunk"
        ops.append(op_write(r, im, (0, 0, 1, 1, im.x, im.y)))
        stats["late_lut_kind_nt%d_nc%d_%s" % (im.nt & 4095, min(im.nc, 4), im.store)] += 1
    early = [im for im in ims if r.random() < 0.25]
    for im in early:
        ops.append("L %d 3 21 0 256 768 %s" % (im.k, " ".join(map(str, rand_bytes(r, 768)))))
    ops.append("E")
    for rounds in range(r.choice([1, 2])):
        touched = [im for im in ims if r.random() < 0.7] or [ims[0]]
        for im in touched:
            if r.random() < 0.3:
                ops.append("P %d" % im.k)
            ops.append("L %d 3 %d 0 256 768 %s" % (im.k, r.choice([21, 3]), " ".join(map(str, rand_bytes(r, 768)))))
            stats["lut_late_session"] += 1
            if r.random() < 0.3:
                ops.append("J %d %d" % (im.k, r.randrange(3)))
                ops.append("P %d" % im.k)
        ops.append("E")
        for im in ims:
            ops.append("P %d" % im.k)
    im = r.choice(ims)
    ops.append(op_read(im, (0, 0, 1, 1, im.x, im.y)))
    ops.append("G %d" % im.k)
    return ops


def gen_chunk_history(r, hid, stats):
    """GRwritechunk / GRreadchunk mixed with region access; chunk lengths divide the image dimensions"""
    ops = ["H %d" % hid]
    im = Img(r, 0)
    ops.append(op_create(im))
    if r.random() < 0.6:
        ops.append(op_fill(r, im))
    c0 = r.choice([d for d in range(1, im.x + 1) if im.x % d == 0])
    c1 = r.choice([d for d in range(1, im.y + 1) if im.y % d == 0])
    ct = r.choice([0, 0, 1, 3, 4])
    ops.append("K 0 %d %d %d %d" % (c0, c1, ct, {0: 0, 1: 0, 3: 2, 4: 6}[ct]))
    im.store = "chunk%d" % ct
    n = c0 * c1 * im.psz()
    stats["chunk_store_%d" % ct] += 1
    for _ in range(r.randrange(4, 11)):
        c = r.random()
        o0, o1 = r.randrange(im.x // c0), r.randrange(im.y // c1)
        if c < 0.3:
            ops.append("X 0 %d %d %d %d %d %s" % (c0, c1, o0, o1, n, " ".join(map(str, rand_bytes(r, n)))))
            stats["chunk_write"] += 1
            stats["chunk_wil_%d" % im.il] += 1
        elif c < 0.55:
            ops.append("Y 0 %d %d %d %d %d" % (c0, c1, o0, o1, n))
            stats["chunk_read"] += 1
        elif c < 0.65:
            ops.append(op_write(r, im, rand_region(r, im)))
        elif c < 0.8:
            ops.append(op_read(im, rand_region(r, im)))
        elif c < 0.9:
            ops.append("I 0 %d" % r.randrange(3))
        else:
            ops.append("E")
            im.il = 0
    ops.append("E")
    ops.append("I 0 %d" % r.randrange(3))
    ops.append("Y 0 %d %d %d %d %d" % (c0, c1, r.randrange(im.x // c0), r.randrange(im.y // c1), n))
    ops.append(op_read(im, (0, 0, 1, 1, im.x, im.y)))
    return ops


class Stats(dict):
    def __missing__(self, k):
        return 0


def gen_histories(ctx):
    r = ctx.rng
    stats = Stats()
    hs = []
    n = 260 if ctx.tier == "quick" else 5000
    hid = 1000
    for a in range(3):
        for b in range(3):
            hs.append(gen_conv_history(r, hid, stats, (a, b)))
            hid += 1
    for i in range(n):
        c = r.random()
        if c < 0.56:
            hs.append(gen_image_history(r, hid, stats))
        elif c < 0.61:
            hs.append(gen_lut_history(r, hid, stats))
        elif c < 0.70:
            hs.append(gen_late_lut_history(r, hid, stats))
        elif c < 0.80:
            hs.append(gen_legacy_history(r, hid, stats))
        elif c < 0.83:
            hs.append(gen_rle_history(r, hid, stats))
        elif c < 0.91:
            hs.append(gen_chunk_history(r, hid, stats))
        elif c < 0.96:
            hs.append(gen_conv_history(r, hid, stats))
        else:
            hs.append(gen_malformed_history(r, hid, stats))
        hid += 1
    return hs, stats


# ---------------------------------------------------------------------------------------------------------
# running and comparing
# ---------------------------------------------------------------------------------------------------------

def tools(ctx):
    exe = ctx.harness("drive_gr", ["drive_gr.c"], wraps=["Hwrite", "Hread", "Hseek"])
    mod = ctx.model("gr_model", ["gr_main.ml"], ["gr_model"])
    return exe, mod


def split_hist(lines):
    """output lines -> list of per-history line lists (each begins with its H line)"""
    out = []
    for l in lines:
        if l.startswith("H "):
            out.append([l])
        elif out:
            out[-1].append(l)
    return out


def run_hist_file(ctx, hists, tag):
    """Run harness and model on the histories.  Returns (R, MS): per-history output line lists; R may be
    shorter than the input for a history in which the harness died (crash => the lines are missing)."""
    exe, mod = tools(ctx)
    p = os.path.join(ctx.bdir, "harness", "c09-%s-%d.in" % (tag, os.getpid()))
    R = []
    todo = list(hists)
    crashes = []
    while todo:
        with open(p, "w") as fh:
            fh.write("\n".join("\n".join(h) for h in todo) + "\n")
        rc, lines = vc.run_lines(exe, p, timeout=900)
        got = split_hist([l for l in lines if l[:2] in ("H ", "C ", "F ", "Z ", "K ", "W ", "I ", "J ", "R ", "G ", "L ",
                                                        "P ", "E ", "E", "X ", "Y ", "D ", "V ", "O ", "U ", "A ")])
        if rc == 0 and len(got) == len(todo):
            R += got
            break
        # the harness died in history len(got)-1 (or before printing anything)
        idx = max(len(got) - 1, 0)
        R += got[:idx]
        R.append(got[idx] if got else [])
        crashes.append((len(R) - 1, rc, [l for l in lines if "ERROR" in l or "SUMMARY" in l or "runtime error" in l][:4]))
        todo = todo[idx + 1:]
    with open(p, "w") as fh:
        fh.write("\n".join("\n".join(h) for h in hists) + "\n")
    rcm, mlines = vc.run_lines(mod, p, timeout=1800)
    for f in (p, p + ".hdf"):
        try:
            os.unlink(f)
        except OSError:
            pass
    MS = split_hist(mlines)
    if rcm != 0 or len(MS) != len(hists):
        raise vc.BuildError("model driver failed (rc=%d, %d histories for %d)" % (rcm, len(MS), len(hists)))
    return R, MS, crashes


def parse_r(line):
    op = line[:1]
    rest = line[2:] if len(line) > 1 else ""
    if " |" in rest:
        res, tr = rest.split(" |", 1)
    else:
        res, tr = rest, None
    return op, res.strip(), (tr.strip() if tr is not None else None)


def parse_ms(line):
    op = line[:1]
    m, s = line[2:].split(" ; S ", 1)
    m = m[2:] if m.startswith("M ") else m
    if " |" in m:
        mres, mtr = m.split(" |", 1)
    else:
        mres, mtr = m, None
    return op, mres.strip(), (mtr.strip() if mtr is not None else None), s.strip()


def compare_history(h, r_lines, ms_lines):
    """-> (rs_mismatch or None, rm_mismatch or None, ncompared, ntransfer).  A mismatch is (index, op line, r, m, s)."""
    rs = rm = nodom = None
    ncmp = ntr = 0
    for i, opline in enumerate(h):
        if i >= len(ms_lines):
            break
        op, mres, mtr, sres = parse_ms(ms_lines[i])
        if i >= len(r_lines):
            if rs is None:
                rs = (i, opline, "(no output: harness died)", mres, sres)
            break
        rop, rres, rtr = parse_r(r_lines[i])
        if op == "A" and sres == "none" and rres.startswith("ok") and all(t == "0" for t in rres.split()[1:]):
            rres = "none"       # after a first partial write the library stores the default all-zero fill value
        if op == "A" and mres == "none" and rres == "none":
            mres = "none"
        if op == "P" and rres.startswith("ok 3 3 "):
            rres = "ok 3 21 " + rres[7:]      # DFNT_UCHAR8 and DFNT_UINT8 are the same 8-bit palette type
        if sres == "nodomain":
            # outside the property's domain: nothing more is compared in this history.  Only the rejected-argument
            # histories are meant to get here; for every other generated history this is a defect of the check
            # (a silently shrinking domain) and is reported by check_batch.
            nodom = (i, opline, rres, mres, sres)
            break
        if op == "H":
            continue
        if sres != "-":
            ncmp += 1
            if op in "RPVUY" and sres.startswith("ok "):
                ntr += 1
            if rres != sres and rs is None:
                rs = (i, opline, rres, mres, sres)
                break
        if op == "D" and rres == "none":
            continue             # data of a compressed image reaches the file when the access ends
        if mtr == "-":
            rtr = mtr = None     # special storage: the trace is not part of the model
        if (rres != mres or ((rtr is not None or mtr is not None) and (rtr or "") != (mtr or ""))) and rm is None:
            rm = (i, opline, rres + (" |" + rtr if rtr is not None else ""), mres + (" |" + mtr if mtr is not None else ""), sres)
    compare_history.last_nodomain = nodom
    return rs, rm, ncmp, ntr


def fails_rs(ctx, h, opkind=None):
    R, MS, crashes = run_hist_file(ctx, [h], "shrink")
    rs, rm, _, _ = compare_history(h, R[0] if R else [], MS[0])
    # a shrunk history must fail in the same kind of operation (removing operations can leave the domain, e.g. a
    # first write that moves behind a reopen)
    return rs is not None and (opkind is None or rs[1][:1] == opkind)


def shrink(ctx, h, budget=60, opkind=None):
    """greedy delta debugging on the operation list (H and C lines are kept)"""
    cur = list(h)
    changed = True
    while changed and budget > 0:
        changed = False
        i = len(cur) - 1
        firstw = {}
        for n, l in enumerate(cur):
            t = l.split()
            if t[0] in "WKO" and t[1] not in firstw:
                firstw[t[1]] = n
        while i >= 1 and budget > 0:
            if cur[i][:1] not in "HC" and i not in firstw.values():
                cand = cur[:i] + cur[i + 1:]
                budget -= 1
                try:
                    if fails_rs(ctx, cand, opkind):
                        cur = cand
                        changed = True
                except vc.BuildError:
                    pass
            i -= 1
    return cur


def signature(h, mis):
    """call pattern of a failing history, for known_findings matching"""
    i, opline = mis[0], mis[1]
    k = opline.split()[1] if len(opline.split()) > 1 else "0"
    store = "plain"
    coder = ""
    nt = 0
    seen_write = reopened_after_write = rewritten_later = False
    for l in h[:i]:
        t = l.split()
        if t[0] == "C" and t[1] == k:
            nt = int(t[5])
        if t[0] == "Z" and t[1] == k:
            store = "compressed"
            coder = {"1": "rle", "3": "skphuff", "4": "deflate"}.get(t[2], t[2])
        if t[0] == "K" and t[1] == k:
            store = "chunked"
        if t[0] == "W" and t[1] == k:
            if reopened_after_write:
                rewritten_later = True
            seen_write, reopened_after_write = True, False
        if t[0] == "E":
            reopened_after_write = seen_write
    parts = ["op=" + opline[:1], "storage=" + store]
    if coder:
        parts.append("coder=" + coder)
    if store == "compressed" and seen_write and not reopened_after_write and opline[:1] in "RD" and not rewritten_later:
        parts.append("read-in-write-session")
    if store == "compressed" and rewritten_later:
        parts.append("rewritten-in-later-session")
    return " ".join(parts)


def replay_text(h, mis, R, MS, note):
    txt = ["# C09 replay: run  bin/check C09 --replay <this file>  (history for harness drive_gr / model gr_model)",
           "# " + note,
           "# first disagreement at operation %d: %s" % (mis[0], mis[1][:160]),
           "#   library (R): " + mis[2][:300], "#   model   (M): " + mis[3][:300], "#   spec    (S): " + mis[4][:300]]
    return "\n".join(txt + h)


MALFORMED_IDS = set()
nodom_first = [None]


def check_batch(ctx, hists, tag, stats):
    R, MS, crashes = run_hist_file(ctx, hists, tag)
    rm_first = None
    for n, h in enumerate(hists):
        r_lines = R[n] if n < len(R) else []
        rs, rm, ncmp, ntr = compare_history(h, r_lines, MS[n])
        nodom = compare_history.last_nodomain
        if nodom is not None:
            stats["nodomain_histories"] += 1
            if not any(l.startswith("#malformed") for l in h[:1]) and h[0] not in MALFORMED_IDS and nodom_first[0] is None:
                nodom_first[0] = (h, nodom)
        for l in h:
            t = l.split()
            if t[0] == "C" and nodom is None:
                stats["compared_nt_%s" % t[5]] += 1
        stats["histories"] += 1
        stats["ops"] += len(h)
        stats["compared_results"] += ncmp
        for i, opline in enumerate(h):
            if opline[:1] in "RWPVGOUXYA":
                ctx.case((opline,), nontrivial=True,
                         sample=({"history": h[0], "op": opline[:100], "lib": (r_lines[i][:100] if i < len(r_lines) else "")}
                                 if (n % 53 == 0 and opline[:1] == "R") else None))
        crashed = [c for c in crashes if c[0] == n]
        if rs is not None and ctx.match_known(signature(h, rs)) is not None:
            ctx.violation("known finding", "\n".join(h), found=True, signature=signature(h, rs))
            stats["known_finding_hits"] += 1
            continue
        if rs is not None:
            small = h
            if len(ctx.violations) < 3:
                try:
                    small = shrink(ctx, h, opkind=rs[1][:1])
                    R1, MS1, _ = run_hist_file(ctx, [small], "rep")
                    rs1 = compare_history(small, R1[0] if R1 else [], MS1[0])[0]
                    if rs1 is not None:
                        rs = rs1
                    else:
                        small = h
                except vc.BuildError:
                    small = h
            what = "GR result differs from the raster-image specification at '%s': library %s, spec %s" % (
                rs[1][:60], rs[2][:80], rs[4][:80])
            if crashed:
                what += " (harness died rc=%d %s)" % (crashed[0][1], " ".join(crashed[0][2])[:200])
            ctx.violation(what, replay_text(small, rs, R, MS, "R differs from S (in-domain input)"), found=True,
                          signature=signature(small, rs))
            stats["rs_mismatch"] += 1
            if len(ctx.violations) >= 4:
                break
        elif rm is not None and rm_first is None:
            rm_first = (h, rm)
            stats["rm_mismatch"] += 1
    return rm_first


def run(ctx):
    hs, gstats = gen_histories(ctx)
    stats = Stats()
    corpus = []
    for f in sorted(glob.glob(os.path.join(vc.VERIF, "corpus", "C09", "*.hist"))):
        lines = [l.strip() for l in open(f).read().splitlines() if l.strip() and not l.startswith("#")]
        cur = None
        for l in lines:
            if l.startswith("H "):
                cur = [l]
                corpus.append(cur)
            elif cur is not None:
                cur.append(l)
    stats["corpus_histories"] = len(corpus)
    rm_first = None
    if corpus:
        rm_first = check_batch(ctx, corpus, "corpus", stats)
    if len(ctx.violations) < 4:
        rm2 = check_batch(ctx, hs, "main", stats)
        rm_first = rm_first or rm2
    if rm_first is not None and not any(v["found"] for v in ctx.violations):
        h, rm = rm_first
        ctx.violation("correspondence R~M broken (library results equal the specification on every explored input, but "
                      "the implementation model no longer describes the code: relation GRwriteimage/GRreadimage call "
                      "trace or element contents) at '%s'" % rm[1][:60],
                      replay_text(h, rm, None, None, "R equals S everywhere explored, R differs from M "
                                  "(theorems region_refines_image / first_write_fills_image / il_walk_eq_index "
                                  "are about a model that no longer matches)"), found=False)
    if nodom_first[0] is not None and not any(v["found"] for v in ctx.violations):
        h, nd = nodom_first[0]
        ctx.violation("the specification left its domain on a history the generator means to be in-domain (the check "
                      "would silently stop comparing this class of inputs) at '%s'" % nd[1][:60],
                      replay_text(h, nd, None, None, "S answered nodomain on an in-domain history: defect of the check "
                                  "(model of the domain), not of the library"), found=False)
    starved = [nt for nt in ([b for b in NTS] + [b | LITEND for b in NTS]) if stats["compared_nt_%d" % nt] == 0]
    if starved and not ctx.violations:
        ctx.violation("number types never compared in this run (starved generator or shrunken domain): %s" % starved,
                      "# C09: no history with these number types reached the comparison: %s" % starved, found=False)
    d = dict(gstats)
    d.update(stats)
    ctx.corr("GR~model~spec", **d)


def replay(ctx, path):
    lines = [l.strip() for l in open(path).read().splitlines() if l.strip() and not l.startswith("#")]
    hists = []
    for l in lines:
        if l.startswith("H "):
            hists.append([l])
        elif hists:
            hists[-1].append(l)
        else:
            hists.append(["H 1", l])
    R, MS, crashes = run_hist_file(ctx, hists, "replay")
    bad = 0
    for n, h in enumerate(hists):
        r_lines = R[n] if n < len(R) else []
        for i, opline in enumerate(h):
            print("op  %s" % opline[:200])
            print("  R %s" % (r_lines[i][:400] if i < len(r_lines) else "(no output: harness died)"))
            if i < len(MS[n]):
                op, mres, mtr, sres = parse_ms(MS[n][i])
                print("  M %s%s" % (mres[:400], " |" + mtr if mtr is not None else ""))
                print("  S %s" % sres[:400])
        rs, rm, _, _ = compare_history(h, r_lines, MS[n])
        if rs is not None:
            bad += 1
            print("DISAGREEMENT R/S at op %d: %s\n  R %s\n  S %s" % (rs[0], rs[1][:120], rs[2][:300], rs[4][:300]))
        elif rm is not None:
            print("DISAGREEMENT R/M at op %d: %s\n  R %s\n  M %s" % (rm[0], rm[1][:120], rm[2][:300], rm[3][:300]))
    for c in crashes:
        print("harness died in history %d rc=%d %s" % (c[0], c[1], " ".join(c[2])))
    return 1 if bad else 0
