"""C10 -- attributes and descriptive metadata are returned exactly as last set.
R (library, harness/drive_attr.c) vs S (coq/AttrSpec.v, extracted) on generated attribute histories over an SD file
(file / dataset / dimension attributes, predefined metadata, name/index/ref lookups) and an H-level file (GR file and
image attributes, Vdata / Vdata-field attributes, Vgroup attributes), across close + reopen in write and read mode;
R vs M (coq/AttrModel.v, extracted) at function level: SDIputattr / NC_findattr on a bare attribute list, and the
raw attribute tables of Vdata / Vgroup / GR objects."""
import os
import re
import shutil
import vcommon as vc

RULE = ("histories of 30-90 operations over one SD file and one H-level file: object creation (SDcreate rank 1-3, "
        "GRcreate, Vdata with 1-4 fields, Vgroup) interleaved with SDsetattr/GRsetattr/VSsetattr/Vsetattr (new names and "
        "re-sets with same or different type/count), SDsetdimname/SDsetdimscale/SDsetdimstrs/SDsetdatastrs/SDsetcal/"
        "SDsetrange/SDsetfillvalue, their getters, full attribute listings (info + values + find by name per index), "
        "name/index/ref lookups, and close + reopen in write and read mode; 10 number types (+ little-endian "
        "variants), counts 1..2000 biased to 1/2/boundaries (GR cache threshold 2048 bytes, 65535-byte limit), names "
        "from a pool with shared prefixes, lengths 1..64 (..256 for SD); all choices from one PRNG (VERIF_SEED); a "
        "light shadow state only steers weights; a malformed stream adds out-of-range indices, unknown names, sets in "
        "read mode and over-limit counts.  Non-trivial = at least one successful set and one listing returning it; "
        "distinct by op text")
TRUSTED = ["Coq 8.16.1 kernel", "translator plugin gen/plugins/attr_literals.py (string literals / statement shapes of cdf.c)", "extraction (ExtrOcamlBasic only; Z/positive/nat inductive)",
           "OCaml drivers extract/attr_main.ml, extract/attrm_main.ml; C harness harness/drive_attr.c; generator and "
           "comparison in checks/C10.py",
           "translator gen_consts.py for the constants, strings and switch tables in gen/Gen_Attr.v",
           "modelled at the level of the Vgroup / Vdata records (AttrPersistModel.v) and proved to round-trip: the SD "
           "metadata rewrite at SDend / reload at SDstart; covered by the correspondence across reopen only: "
           "GRend/GRstart, the storage of Vgroups and Vdatas themselves (C07, C08)"]
ASSUMPTIONS = ["domain: names of Vdata/Vgroup attributes <= VSNAMELENMAX, of GR attributes <= FIELDNAMELENMAX and "
               "without ','; dataset/dimension names 1..60 bytes not starting with 'fakeDim' or a blank; no set "
               "operation on an SD / GR interface opened read-only (C14); SDgetrange / SDgetfillvalue on an attribute "
               "of that name but of a foreign type or count, and SDgetdimscale of a dimension without scale, are "
               "unspecified; names the library chooses for unnamed dimensions are not compared"]

NTS = [3, 4, 20, 21, 22, 23, 24, 25, 5, 6]
NTSZ = {3: 1, 4: 1, 20: 1, 21: 1, 22: 2, 23: 2, 24: 4, 25: 4, 5: 4, 6: 8}
LITEND = 16384
PREDEF = ["long_name", "units", "format", "coordsys", "valid_range", "scale_factor", "scale_factor_err", "add_offset",
          "add_offset_err", "calibrated_nt", "_FillValue"]


def hx(b):
    if isinstance(b, str):
        b = b.encode()
    return b.hex() if b else "-"


def rdata(r, n):
    style = r.randrange(4)
    if style == 0:
        return bytes([r.randrange(1, 255)]) * n
    if style == 1:
        s = r.randrange(256)
        return bytes((s + i) & 255 for i in range(n))
    return bytes(r.randrange(256) for _ in range(n))


def rtext(r, n):
    return bytes(r.choice(b"abcdefghijklmnopqrstuvwxyzABCXYZ0123456789_ .-%") for _ in range(n))


class NamePool:
    """attribute names with shared prefixes, duplicates-by-prefix and boundary lengths"""

    def __init__(self, r, longmax):
        base = r.choice(["a", "attr", "Attr", "x_1", "long name with blanks", "units2", "v"])
        self.names = [base, base + "1", base + "10", base + "_", base[:-1] if len(base) > 1 else "b", "zz",
                      base.upper() if base.upper() != base else base.lower()]
        stem = "p" * 57
        self.names += [stem + "abcde", stem + "abcdf", stem + "abcdefg", ("q" * 63), ("q" * 64)]
        if longmax > 64:
            self.names += ["r" * 65, "s" * 64 + "A", "s" * 64 + "B", "t" * 128, "u" * 129, "w" * 255, "w" * 256, "w" * 257]
        self.longmax = longmax

    def pick(self, r):
        return r.choice(self.names[:7] * 4 + self.names)


def pick_count(r, sz, gr=False):
    c = r.choice([1, 1, 1, 2, 2, 3, 5, 8, 17, 64, 255, 256, 1000, 2000])
    if gr and r.random() < 0.3:
        c = r.choice([2047, 2048, 2049]) // sz + r.choice([0, 0, 1])
    if r.random() < 0.02:
        c = 65535 // sz
    return max(1, min(c, 65535 // sz))


def pick_nt(r):
    nt = r.choice(NTS)
    if r.random() < 0.12:
        nt |= LITEND
    return nt


class Shadow:
    def __init__(self):
        self.sd_mode = None
        self.h_mode = None
        self.vars = []        # (kind, rank, nt)  -- only datasets created by us are tracked precisely
        self.nvars = 0        # lower bound of the number of variables (coordinate variables add to it)
        self.sdattr = {}      # obj token -> {name: (nt, count)}
        self.imgs = 0
        self.vds = []         # number of fields
        self.vgs = 0
        self.hattr = {}
        self.dimnames = []
        self.scaled = set()
        self.scalesz = {}
        self.uscale = {}


def gen_set(r, sh, lines, iface, objtok, names, malformed):
    """one set operation through interface iface on objtok (token(s) already formatted)"""
    table = sh.sdattr if iface == "sd" else sh.hattr
    cur = table.setdefault(iface + objtok, {})
    if cur and r.random() < 0.4:
        name = r.choice(list(cur))
        nt, cnt = cur[name]
        how = r.random()
        if how < 0.5:
            pass                                     # same type and count: a plain replace
        elif how < 0.75:
            cnt = pick_count(r, NTSZ[nt & 255], iface == "gr")
        else:
            nt = pick_nt(r)
            cnt = min(cnt, 65535 // NTSZ[nt & 255]) if r.random() < 0.5 else pick_count(r, NTSZ[nt & 255])
    else:
        name = names.pick(r)
        if iface == "sd" and r.random() < 0.06:
            name = r.choice(PREDEF)
        nt = pick_nt(r)
        cnt = pick_count(r, NTSZ[nt & 255], iface == "gr")
    if malformed and r.random() < 0.15:
        cnt = r.choice([0, -1, 65535 // NTSZ[nt & 255] + 1, 70000])
        data = b"\0" * max(0, min(cnt, 70000) * NTSZ[nt & 255])
        if len(data) > 300000:
            data = data[:300000]
    else:
        data = rtext(r, cnt) if (nt & 255) in (3, 4) and r.random() < 0.7 else rdata(r, cnt * NTSZ[nt & 255])
    if malformed and r.random() < 0.05:
        nt = r.choice([0, 7, 26, 4096 | 24])
        data = b"\0" * (4 if nt == 4096 | 24 else 16)
        cnt = 1
    lines.append("%s.setattr %s %s %d %d %s" % (iface, objtok, hx(name), nt, cnt, hx(data)))
    if cnt >= 1 and (nt & 255) in NTSZ and not (nt & 4096):
        cur.setdefault(name, (nt, cnt))
        if iface == "sd" or (iface == "gr" and cur[name][0] == nt):
            cur[name] = (nt, cnt)


def hash_colliding(r, base):
    """a different name with the same additive 4-byte-word hash as base (len(base) >= 8): 4-byte blocks permuted, or
    bytes at the same offset exchanged between two blocks"""
    b = bytearray(base.encode())
    nblk = len(b) // 4
    for _ in range(8):
        c = bytearray(b)
        i, j = r.sample(range(nblk), 2)
        if r.random() < 0.6:
            c[4 * i:4 * i + 4], c[4 * j:4 * j + 4] = c[4 * j:4 * j + 4], c[4 * i:4 * i + 4]
        else:
            o = r.randrange(4)
            c[4 * i + o], c[4 * j + o] = c[4 * j + o], c[4 * i + o]
        if c != b:
            return c.decode()
    return base + "x"


def sd_obj(r, sh, dims_ok=True):
    if not sh.vars or r.random() < 0.2:
        return "F"
    i = r.randrange(len(sh.vars))
    v = sh.vars[i]
    if v[0] == "sds" and dims_ok and r.random() < 0.35:
        return "D%d.%d" % (i, r.randrange(v[1]))
    return "V%d" % i


def gen_history(r, name, malformed=False):
    sh = Shadow()
    L = ["history " + name]
    sdn = NamePool(r, 256 if r.random() < 0.12 else 64)
    hn = NamePool(r, 64)
    dsnames = [r.choice(["ds", "data", "T", "lat", "x"]) + s for s in ["", "1", "10", "_b", ""]]
    dimpool = ["lat", "lon", "x", "time", "x1", "lat"] + dsnames[:2]
    # dimension-heavy histories: few sizes, names whose NC_string hash (sum of 4-byte words) collides
    dimheavy = r.random() < 0.22
    # record-heavy histories: most datasets have an unlimited first dimension, each with a scale of its own length
    recheavy = (not dimheavy) and r.random() < 0.18
    sizes = [1, 2, 3, 4, 5, 7]
    if dimheavy:
        base = r.choice(["DateTime", "lat_lon_", "abcdWXYZ", "TimeDateZone", "north_south_east"])
        dimpool = [base, hash_colliding(r, base), hash_colliding(r, base), base, "lat"]
        sizes = [r.choice([2, 3, 6])] * 3 + [r.choice([2, 3, 4])]
    want_sd = r.random() < 0.85
    want_h = r.random() < 0.8 or not want_sd
    if want_sd:
        L.append("sd.start c")
        sh.sd_mode = "c"
    if want_h:
        L.append("h.start c")
        sh.h_mode = "c"
    nops = r.randrange(30, 90)
    for _ in range(nops):
        use_sd = want_sd and (not want_h or r.random() < 0.55)
        a = r.random()
        if use_sd:
            wr = sh.sd_mode in ("c", "w")
            if sh.sd_mode is None:
                m = r.choice(["w", "w", "r"])
                L.append("sd.start " + m)
                sh.sd_mode = m
                continue
            if a < 0.04:
                L.append("sd.end")
                sh.sd_mode = None
                continue
            if (a < 0.16 or not sh.vars) and wr and len(sh.vars) < 8:
                rank = r.choice([1, 1, 2, 2, 3])
                nt = r.choice(NTS) | (LITEND if r.random() < 0.2 else 0)
                dims = [r.choice(sizes) for _ in range(rank)]
                if r.random() < (0.85 if recheavy else 0.22):
                    dims[0] = 0                          # an unlimited (record) dimension
                L.append("sd.create %s %d %d %s" % (hx(r.choice(dsnames)), nt, rank, " ".join(map(str, dims))))
                sh.vars.append(("sds", rank, nt, dims))
                continue
            if not wr and not (malformed and r.random() < 0.1) and a < 0.62:
                a = 0.62 + a / 2     # read mode: observers only
            if a < 0.40:
                gen_set(r, sh, L, "sd", sd_obj(r, sh), sdn, malformed)
            elif a < 0.62 and sh.vars:
                i = r.randrange(len(sh.vars))
                kind, rank, nt, dims = sh.vars[i]
                sz = NTSZ[nt & 255]
                p = r.random()
                if dimheavy and r.random() < 0.55:
                    p = 0.54 + 0.16 * r.random()          # mostly SDsetdimname
                if recheavy and r.random() < 0.6:
                    p = 0.70 + 0.16 * r.random()          # mostly SDsetdimscale (scales of different lengths)
                if r.random() < 0.10:
                    # the valid range stored the netCDF way (valid_max / valid_min), possibly beside a valid_range of
                    # another type class; SDgetrange then takes its fall-back branch
                    pre = []
                    if r.random() < 0.3:
                        fnt = r.choice([n for n in NTS if NTSZ[n] != sz or (n in (5, 6)) != ((nt & 255) in (5, 6))])
                        pre.append("sd.setattr V%d %s %d 2 %s" % (i, hx("valid_range"), fnt, hx(rdata(r, 2 * NTSZ[fnt]))))
                    two = [("valid_max", rdata(r, sz)), ("valid_min", rdata(r, sz))]
                    if r.random() < 0.5:
                        two.reverse()
                    wnt = nt if r.random() < 0.9 else r.choice(NTS)
                    L.extend(pre)
                    for nm_, dat in two:
                        cnt_ = 1 if r.random() < 0.9 else 2
                        L.append("sd.setattr V%d %s %d %d %s" % (i, hx(nm_), wnt, cnt_, hx((dat * cnt_)[:cnt_ * NTSZ[wnt & 255]] if NTSZ[wnt & 255] <= sz else rdata(r, cnt_ * NTSZ[wnt & 255]))))
                    L.append("sd.getrange V%d" % i)
                    continue
                if p < 0.18:
                    ss = [r.choice(["-", "e", hx(rtext(r, r.choice([1, 3, 8, 20, 40])))]) for _ in range(4)]
                    L.append("sd.setdatastrs V%d %s" % (i, " ".join(ss)))
                elif p < 0.30:
                    L.append("sd.setcal V%d %s %d" % (i, hx(rdata(r, 32)), r.choice(NTS + [0, -5, 70000])))
                elif p < 0.42:
                    L.append("sd.setrange V%d %s %s" % (i, hx(rdata(r, sz)), hx(rdata(r, sz))))
                elif p < 0.54:
                    L.append("sd.setfill V%d %s" % (i, hx(rdata(r, sz))))
                elif p < 0.70:
                    d = r.randrange(rank)
                    L.append("sd.setdimname D%d.%d %s" % (i, d, hx(r.choice(dimpool))))
                elif p < 0.86:
                    d = r.randrange(rank)
                    snt = r.choice(NTS)
                    prev = sh.scalesz.get((i, d))
                    if prev is not None and NTSZ[snt] > prev and r.random() < 0.9:
                        snt = r.choice([n for n in NTS if NTSZ[n] <= prev])   # a wider type over an existing scale: known finding, rare
                    if r.random() < 0.2:
                        snt |= LITEND
                    if dims[d] == 0:
                        # unlimited dimension: any number of values; a re-set keeps the type and does not shrink
                        pu = sh.uscale.get((i, d))
                        cnt = r.choice([1, 2, 3, 5, 7])
                        if pu is not None and r.random() < 0.9:
                            snt, cnt = pu[0], max(cnt, pu[1])
                        sh.uscale[(i, d)] = (snt, cnt)
                        sh.scaled.add((i, d))
                    else:
                        cnt = dims[d] if r.random() < 0.9 else dims[d] + 1
                        if cnt == dims[d]:
                            sh.scaled.add((i, d))
                            sh.scalesz[(i, d)] = NTSZ[snt & 255]
                    L.append("sd.setdimscale D%d.%d %d %d %s" % (i, d, cnt, snt, hx(rdata(r, cnt * NTSZ[snt & 255]))))
                else:
                    d = r.randrange(rank)
                    ss = [r.choice(["-", "e", hx(rtext(r, r.choice([1, 4, 12, 30])))]) for _ in range(3)]
                    L.append("sd.setdimstrs D%d.%d %s" % (i, d, " ".join(ss)))
            else:
                p = r.random()
                o = sd_obj(r, sh)
                if p < 0.30:
                    L.append("sd.attrs " + o)
                elif p < 0.36:
                    L.append("sd.attrinfo %s %d" % (o, r.choice([0, 0, 1, 2, 5, -1] if malformed else [0, 0, 1, 2])))
                elif p < 0.44:
                    cur = sh.sdattr.get("sd" + o, {})
                    nm = r.choice(list(cur)) if cur and r.random() < 0.7 else sdn.pick(r)
                    L.append("sd.findattr %s %s" % (o, hx(nm)))
                elif p < 0.52:
                    L.append("sd.lookup")
                elif sh.vars:
                    i = r.randrange(len(sh.vars))
                    rank = sh.vars[i][1]
                    d = r.randrange(rank) if not (malformed and r.random() < 0.1) else rank
                    cands = ["sd.getdatastrs V%d %d" % (i, r.choice([1, 4, 8, 41, 100])), "sd.getcal V%d" % i,
                             "sd.getrange V%d" % i, "sd.getfill V%d" % i, "sd.diminfo D%d.%d" % (i, d),
                             "sd.diminfo D%d.%d" % (i, d), "sd.getdimstrs D%d.%d %d" % (i, d, r.choice([1, 5, 13, 64]))]
                    if (i, d) in sh.scaled or r.random() < 0.05:
                        cands += ["sd.getdimscale D%d.%d" % (i, d)] * (8 if recheavy else 2)
                    L.append(r.choice(cands))
        else:
            wr = sh.h_mode in ("c", "w")
            if sh.h_mode is None:
                m = r.choice(["w", "w", "r"])
                L.append("h.start " + m)
                sh.h_mode = m
                continue
            if a < 0.04:
                L.append("h.end")
                sh.h_mode = None
                continue
            if a < 0.16 and wr:
                k = r.random()
                if k < 0.35 and sh.imgs < 4:
                    L.append("gr.create %s %d %d %d %d" % (hx(r.choice(dsnames)), r.choice([1, 3]), r.choice([21, 20, 23, 5]),
                                                           r.choice([1, 2, 3]), r.choice([1, 2])))
                    sh.imgs += 1
                elif k < 0.7 and len(sh.vds) < 4:
                    nf = r.choice([1, 2, 2, 3, 4])
                    L.append("vs.create %s %d" % (hx(r.choice(dsnames)), nf))
                    sh.vds.append(nf)
                elif sh.vgs < 4:
                    L.append("vg.create %s" % hx(r.choice(dsnames)))
                    sh.vgs += 1
                continue
            # choose an object
            kinds = ["G"] + ["I"] * min(sh.imgs, 2) + ["S"] * min(len(sh.vds), 2) * 2 + ["V"] * min(sh.vgs, 2)
            k = r.choice(kinds)
            if k == "G":
                iface, o = "gr", "G"
            elif k == "I":
                iface, o = "gr", "I%d" % r.randrange(sh.imgs)
            elif k == "S":
                j = r.randrange(len(sh.vds))
                fi = r.choice([-1] + list(range(sh.vds[j])))
                if malformed and r.random() < 0.1:
                    fi = r.choice([sh.vds[j], -2, 99])
                iface, o = "vs", "%d %d" % (j, fi)
            else:
                iface, o = "vg", "%d" % r.randrange(sh.vgs)
            if malformed and r.random() < 0.05:
                o = {"gr": "I9", "vs": "9 0", "vg": "9"}[iface]
            if iface in ("vs", "vg") and r.random() < 0.10:
                # the object attached for reading (in a file that is usually open for writing): sets must be refused
                if r.random() < 0.7:
                    n0 = len(L)
                    gen_set(r, Shadow(), L, iface, o, hn, False)
                    L[n0] = L[n0].replace(iface + ".setattr", iface + ".rsetattr", 1)
                    cur = sh.hattr.get(iface + o, {})
                    if cur and r.random() < 0.6:         # aim at an existing attribute: an in-place overwrite if not refused
                        t = L[n0].split()
                        nm0 = r.choice(list(cur))
                        nt0, c0 = cur[nm0]
                        L[n0] = " ".join(t[:-4] + [hx(nm0), str(nt0), str(c0), hx(rdata(r, c0 * NTSZ[nt0 & 255]))])
                    L.append("%s.attrs %s" % (iface, o))
                else:
                    L.append("%s.rattrs %s" % (iface, o))
                continue
            setok = wr or iface != "gr" or (malformed and r.random() < 0.1)
            if a < 0.55 and setok and (wr or r.random() < 0.2):
                gen_set(r, sh, L, iface, o, hn, malformed)
            else:
                p = r.random()
                if p < 0.62:
                    L.append("%s.attrs %s" % (iface, o))
                elif p < 0.75:
                    L.append("%s.attrinfo %s %d" % (iface, o, r.choice([0, 0, 1, 2, 7, -1] if malformed else [0, 0, 1, 2])))
                elif p < 0.92:
                    cur = sh.hattr.get(iface + o, {})
                    nm = r.choice(list(cur)) if cur and r.random() < 0.7 else hn.pick(r)
                    L.append("%s.findattr %s %s" % (iface, o, hx(nm)))
                else:
                    L.append("gr.lookup")
    # final: close everything, reopen read-only, list everything
    if want_sd:
        if sh.sd_mode is not None:
            L.append("sd.end")
        L += ["sd.start r", "sd.lookup", "sd.attrs F"]
        for i, v in enumerate(sh.vars):
            L.append("sd.attrs V%d" % i)
            L += ["sd.getdatastrs V%d 64" % i]
            for d in range(v[1]):
                L += ["sd.diminfo D%d.%d" % (i, d), "sd.attrs D%d.%d" % (i, d), "sd.getdimstrs D%d.%d 64" % (i, d)]
                if (i, d) in sh.scaled and (i, d) in sh.uscale:
                    L.append("sd.getdimscale D%d.%d" % (i, d))
        L.append("sd.end")
    if want_h:
        if sh.h_mode is not None:
            L.append("h.end")
        L += ["h.start r", "gr.lookup", "gr.attrs G"]
        L += ["gr.attrs I%d" % i for i in range(sh.imgs)]
        for j, nf in enumerate(sh.vds):
            L += ["vs.attrs %d %d" % (j, fi) for fi in [-1] + list(range(nf))]
        L += ["vg.attrs %d" % j for j in range(sh.vgs)]
        L.append("h.end")
    return L


def gen_unit_history(r, name):
    """function-level stream for the R-vs-M correspondence: SDIputattr / NC_findattr on a bare attribute list, and
    the raw attribute tables of one Vdata, one Vgroup, the GR file and one image (dumped before and after reopen)"""
    L = ["history " + name]
    pool = NamePool(r, 256)
    used = []
    for _ in range(r.randrange(8, 40)):
        if used and r.random() < 0.35:
            nm = r.choice(used)
        else:
            nm = pool.pick(r) if r.random() < 0.9 else r.choice(["x" * 257, "y" * 300])
        nt = pick_nt(r) if r.random() < 0.93 else r.choice([0, 7, 26])
        cnt = pick_count(r, NTSZ.get(nt & 255, 1))
        L.append("unit.put %s %d %d %s" % (hx(nm), nt, cnt, hx(rdata(r, cnt * NTSZ.get(nt & 255, 1)))))
        used.append(nm)
        if r.random() < 0.4:
            L.append("unit.find %s" % hx(r.choice(used + [pool.pick(r)])))
    hp = NamePool(r, 64)
    hp.names += ["n" * 65, "n" * 64 + "B", "m" * 100]
    nf = r.choice([1, 2, 3])
    L += ["h.start c", "vs.create %s %d" % (hx("vd"), nf), "vg.create %s" % hx("vg"),
          "gr.create %s 1 21 2 2" % hx("im")]
    usedh = {"vs": [], "vg": [], "gr": []}
    dumps = ["vs.raw 0 0", "vg.raw 0", "gr.raw G", "gr.raw I0"]
    for _ in range(r.randrange(10, 45)):
        k = r.choice(["vs", "vs", "vg", "gr", "gr"])
        u = usedh[k]
        nm = r.choice(u) if u and r.random() < 0.4 else hp.pick(r)
        if k == "gr" and len(nm) > 64:
            nm = nm[:64]
        nt = pick_nt(r) if r.random() < 0.93 else r.choice([0, 7])
        if u and r.random() < 0.5:
            nt = r.choice([x for x in NTS])
        cnt = pick_count(r, NTSZ.get(nt & 255, 1), k == "gr") if r.random() < 0.95 else r.choice([0, -1])
        data = hx(rdata(r, max(cnt, 0) * NTSZ.get(nt & 255, 1)))
        rd = "r" if r.random() < 0.12 else ""        # now and then through an object attached for reading
        if k == "vs":
            L.append("vs.%ssetattr 0 %d %s %d %d %s" % (rd, r.choice([-1] + list(range(nf)) + ([nf, 7] if r.random() < 0.1 else [])),
                                                        hx(nm), nt, cnt, data))
        elif k == "vg":
            L.append("vg.%ssetattr 0 %s %d %d %s" % (rd, hx(nm), nt, cnt, data))
        else:
            L.append("gr.setattr %s %s %d %d %s" % (r.choice(["G", "I0"]), hx(nm), nt, cnt, data))
        u.append(nm)
        if r.random() < 0.25:
            L.append(r.choice(dumps))
    L += dumps + ["h.end", "h.start w"] + dumps + ["h.end"]
    return L


# ----------------------------------------------------------------------------------------------------------
def split_histories(lines):
    out, cur = [], []
    for l in lines:
        if l.startswith("history ") and cur:
            out.append(cur)
            cur = []
        cur.append(l)
    if cur:
        out.append(cur)
    return out


def strip(l):
    return l.split(" ", 1)[1] if " " in l else l


def run_whole_model(ctx, hists, tag):
    """the whole-file implementation model (AttrPersistModel.mstep: lookup by name, persistence through the Vgroup /
    Vdata records) on the same histories"""
    spec = ctx.model("attr_spec", ["attr_main.ml"], ["attr_spec"])
    wd = os.path.join(ctx.bdir, "harness", "c10-%s-%d" % (tag, os.getpid()))
    os.makedirs(wd, exist_ok=True)
    p = os.path.join(wd, "in.hist")
    flat = [l for h in hists for l in h]
    open(p, "w").write("\n".join(flat) + "\n")
    rcs, M = vc.run_lines(spec, p, timeout=900, args=["-m"])
    shutil.rmtree(wd, ignore_errors=True)
    if rcs != 0 or len(M) != len(flat):
        raise vc.BuildError("whole-file model driver failed rc=%d (%d lines for %d)" % (rcs, len(M), len(flat)))
    return [strip(l) for l in M]


def run_histories(ctx, hists, tag, model=False):
    exe = ctx.harness("drive_attr", ["drive_attr.c"])
    if model:
        spec = ctx.model("attr_model", ["attrm_main.ml"], ["attr_model"])
    else:
        spec = ctx.model("attr_spec", ["attr_main.ml"], ["attr_spec"])
    wd = os.path.join(ctx.bdir, "harness", "c10-%s-%d" % (tag, os.getpid()))
    os.makedirs(wd, exist_ok=True)
    p = os.path.join(wd, "in.hist")
    flat = [l for h in hists for l in h]
    open(p, "w").write("\n".join(flat) + "\n")
    rc, R = vc.run_lines(exe, p, timeout=1500, args=[wd])
    rcs, S = vc.run_lines(spec, p, timeout=900)
    shutil.rmtree(wd, ignore_errors=True)
    if rcs != 0 or len(S) != len(flat):
        raise vc.BuildError("%s driver failed rc=%d (%d lines for %d): %s" % (
            "model" if model else "spec", rcs, len(S), len(flat), "\n".join(S[-3:])))
    Rm = {}
    for l in R:
        m = re.match(r"^(\d+) (.*)$", l)
        if m:
            Rm[int(m.group(1))] = m.group(2)
    Rl = [Rm.get(i + 1) for i in range(len(flat))]
    S = [strip(l) for l in S]
    return rc, Rl, S, flat


def match(r, s):
    if s in ("nospec", "skip", "history", "any"):
        return True
    if r is None:
        return False
    if r == s:
        return True
    rt, st = r.split(), s.split()
    if len(rt) != len(st):
        return False
    return all(b == "?" or a == b for a, b in zip(rt, st))


def first_bad(R, S, flat, lo, hi):
    """first operation of flat[lo:hi] on which the library leaves the specification; comparison of a history
    stops at the first operation the specification marks as outside the property's domain"""
    for i in range(lo, hi):
        if S[i] == "unspec":
            return None, None
        if R[i] is None or R[i].startswith("crash"):
            return i, "crash"
        if not match(R[i], S[i]):
            return i, "mismatch"
    return None, None


def shrink(ctx, hist, limit=60):
    def fails(h):
        rc, R, S, flat = run_histories(ctx, [h], "shrink")
        i, _ = first_bad(R, S, flat, 0, len(flat))
        return i is not None
    cur = list(hist)
    n = 0
    chunk = max(1, (len(cur) - 1) // 2)
    while chunk >= 1 and n < limit:
        i = 1
        progressed = False
        while i < len(cur) and n < limit:
            cand = cur[:i] + cur[i + chunk:]
            n += 1
            if len(cand) > 1 and fails(cand):
                cur = cand
                progressed = True
            else:
                i += chunk
        if not progressed:
            chunk //= 2
    return cur


def unhx(t):
    return b"" if t in ("-", "e") else bytes.fromhex(t)


def _attr_tuples(line, lead):
    """(name, nt, count, data) tuples of an 'attrs' listing line ("ok" + lead ints + 5 tokens per attribute)"""
    t = line.split()
    if not t or t[0] != "ok":
        return None
    body = t[1 + lead:]
    if len(body) % 5:
        return None
    return [tuple(body[k:k + 4]) for k in range(0, len(body), 5)]


def probe_renumber(ctx, hist, i):
    """re-run the history up to the failing operation with DRIVE_ATTR_PROBE=1: does a metadata write before it give
    an unnamed dimension another 'fakeDim<n>' name than it has in memory?"""
    exe = ctx.harness("drive_attr", ["drive_attr.c"])
    wd = os.path.join(ctx.bdir, "harness", "c10-probe-%d" % os.getpid())
    os.makedirs(wd, exist_ok=True)
    p = os.path.join(wd, "in.hist")
    open(p, "w").write("\n".join(hist[:i + 1]) + "\n")
    rc, out = vc.run_lines(exe, p, timeout=120, args=[wd], env={"DRIVE_ATTR_PROBE": "1"})
    shutil.rmtree(wd, ignore_errors=True)
    return any(re.match(r"^\d+ probe renumber ", l) for l in out)


def signature(hist, i, R, S, ctx=None):
    """Signature of a failing history for the known-findings table, computed from the failing input (the
    operations up to and including the failing one) and the shape of the difference.  None = no known pattern.

    'sd-attr-name-over-64-truncated-on-reopen': the failing operation is an SD attribute observer after a close +
    reopen, an SDsetattr with a name longer than VSNAMELENMAX (64) bytes succeeded before that reopen, and the
    library's answer is exactly the specification's answer with such names cut to 64 bytes."""
    t = hist[i].split()
    r, s = R[i], S[i]
    if r is None or not t[0].startswith("sd."):
        return None
    if t[0] in ("sd.setdimscale", "sd.getdimscale", "sd.diminfo", "sd.lookup"):
        # a scale re-set with a wider element type than the scale already stored: the call fails after the type changed
        oksz = []
        for k in range(i + 1):
            u = hist[k].split()
            if u[0] == "sd.setdimscale" and int(u[3]) & 255 in NTSZ:
                sz = NTSZ[int(u[3]) & 255]
                if R[k] == "ok":
                    oksz.append(sz)
                elif R[k] == "fail" and S[k] == "ok" and oksz and sz > min(oksz):
                    return "sd-dimscale-wider-type-over-existing-scale"
    dimrelated = (len(t) > 1 and t[1][0] in "DV" and t[0] in ("sd.attrs", "sd.attrinfo", "sd.findattr", "sd.diminfo",
                  "sd.getdimstrs", "sd.getdimscale", "sd.getdatastrs")) or t[0] == "sd.lookup"
    if ctx is not None and dimrelated and any(h.startswith("sd.setdimname") for h in hist[:i]) and \
            any(h == "sd.end" for h in hist[:i]) and probe_renumber(ctx, hist, i):
        return "sd-unnamed-dim-renumbered-on-write"
    long_set = [k for k in range(i) if hist[k].startswith("sd.setattr ") and len(unhx(hist[k].split()[2])) > 64 and R[k] == "ok"]
    if not long_set or not any(hist[k] == "sd.end" for k in range(long_set[0], i)):
        return None
    cut = lambda name: name[:128]
    tag = "sd-attr-name-over-64-truncated-on-reopen"
    if t[0] == "sd.attrs":
        a, b = _attr_tuples(r, 1), _attr_tuples(s, 1)
        if a is not None and b is not None and len(a) == len(b) and a != b and \
                all(x == (cut(y[0]),) + y[1:] for x, y in zip(a, b)):
            return tag
        if a is not None and b is not None and a == b:      # only a find-by-name index differs: truncated duplicates
            return tag if any(len(y[0]) > 128 for y in b) or len(set(x[0] for x in a)) < len(a) else None
    if t[0] == "sd.attrinfo" and s.startswith("ok") and r.startswith("ok"):
        a, b = r.split(), s.split()
        if len(a) == len(b) == 5 and a[2:] == b[2:] and a[1] == cut(b[1]) and a[1] != b[1]:
            return tag
    if t[0] == "sd.lookup" and r.startswith("ok") and s.startswith("ok"):
        # only attribute COUNTS differ: a name cut to 64 bytes on reopen and set again in full is a second attribute
        a, b = r.split(), s.split()
        if len(a) == len(b) and (len(a) - 3) % 8 == 0 and a != b and \
                all(x == y or y == "?" or (k >= 2 and (k - 2) % 8 == 7) for k, (x, y) in enumerate(zip(a, b))):
            return tag
    if t[0] == "sd.findattr" and len(unhx(t[2])) > 64 and r == "fail" and s.startswith("ok"):
        return tag
    if t[0] == "sd.findattr" and len(unhx(t[2])) == 64 and r.startswith("ok") and s == "fail":
        return tag
    return None


def report(ctx, h, tag="rep"):
    small = shrink(ctx, h) if ctx.tier == "quick" else shrink(ctx, h, 200)
    rc2, R2, S2, flat2 = run_histories(ctx, [small], tag)
    j, kind2 = first_bad(R2, S2, flat2, 0, len(flat2))
    if j is None:
        small = h
        rc2, R2, S2, flat2 = run_histories(ctx, [small], tag)
        j, kind2 = first_bad(R2, S2, flat2, 0, len(flat2))
        j = j if j is not None else 0
    sig = signature(small, j, R2, S2, ctx)
    if sig is not None and ctx.match_known(sig) is not None:      # the minimised failing input is a recorded finding
        ctx.violation("known finding", "", found=True, signature=sig)
        return False
    txt = ["# C10 replay: attribute history; library (R) vs specification (S) differ at the marked operation",
           "# run: bin/check C10 --replay <this file>"] + small + [
           "# first difference at op %d: %s" % (j, flat2[j][:200]),
           "#   library      : %s" % ((R2[j] or "crash/abort (sanitizer or signal), harness rc=%d" % rc2)[:400]),
           "#   specification: %s" % (S2[j][:400])]
    ctx.violation("library differs from the attribute-list specification (%s) at: %s" % (kind2, flat2[j][:120]),
                  "\n".join(txt), found=True)
    return True


def run(ctx):
    r = ctx.rng
    corpus = []
    cdir = os.path.join(vc.VERIF, "corpus", "C10")
    for fn in sorted(os.listdir(cdir)) if os.path.isdir(cdir) else []:
        corpus += split_histories([l for l in open(os.path.join(cdir, fn)).read().splitlines()
                                   if l.strip() and not l.startswith("#")])
    nh = 130 if ctx.tier == "quick" else 3000
    hists = corpus + [gen_history(r, "g%d" % i) for i in range(nh)] + \
        [gen_history(r, "m%d" % i, malformed=True) for i in range(nh // 4)]
    rc, R, S, flat = run_histories(ctx, hists, "main")
    W = run_whole_model(ctx, hists, "whole")
    whole = {"histories": 0, "lines_compared": 0, "histories_R_eq_M": 0, "histories_M_ne_S": 0, "of_those_R_follows_M": 0}
    opmix, fails_r, pos, nviol, known_hists = {}, 0, 0, 0, 0
    nts_seen, count_hist, namelen_hist, unspec_stops = set(), {}, {}, 0
    for h in hists:
        lo, hi = pos, pos + len(h)
        pos = hi
        i, kind = first_bad(R, S, flat, lo, hi)
        # R vs the whole-file model M (never an alarm by itself: M = S is a theorem under the findings' hypotheses;
        # where M leaves S -- a recorded finding -- the library is expected to follow M)
        iw, _ = first_bad(R, W, flat, lo, hi)
        ms = next((q for q in range(lo, hi) if S[q] == "unspec" or (W[q] != S[q] and not match(W[q], S[q]))), None)
        whole["histories"] += 1
        whole["lines_compared"] += (iw if iw is not None else hi) - lo
        whole["histories_R_eq_M"] += 1 if iw is None else 0
        if ms is not None and S[ms] != "unspec":
            whole["histories_M_ne_S"] += 1
            whole["of_those_R_follows_M"] += 1 if (R[ms] is not None and match(R[ms], W[ms])) else 0
        for k, l in enumerate(h[1:]):
            t = l.split()
            opmix[t[0]] = opmix.get(t[0], 0) + 1
            if t[0].endswith(".setattr"):
                try:
                    nt, cnt = int(t[-3]), int(t[-2])
                    nts_seen.add(nt)
                    b = "1" if cnt == 1 else "2-9" if cnt < 10 else "10-255" if cnt < 256 else "256-2000" if cnt <= 2000 else ">2000"
                    count_hist[b] = count_hist.get(b, 0) + 1
                    nl = len(unhx(t[-4]))
                    b = "1-8" if nl <= 8 else "9-63" if nl < 64 else "64" if nl == 64 else "65-256"
                    namelen_hist[b] = namelen_hist.get(b, 0) + 1
                except ValueError:
                    pass
        seg = R[lo:hi]
        unspec_stops += 1 if "unspec" in S[lo:hi] else 0
        fails_r += sum(1 for x in seg if x == "fail")
        nontriv = any(".setattr" in l for l in h) and any(x and x.startswith("ok") and len(x.split()) > 5 for x in seg)
        ctx.case(tuple(h[1:]), nontriv, sample={"history": [x[:100] for x in h[1:8]], "library": [(x or "")[:100] for x in seg[1:8]]}
                 if len(ctx.coverage["samples"]) < 3 else None)
        if i is not None:
            sig = signature(h, i - lo, R[lo:hi], S[lo:hi], ctx)
            if sig is not None and ctx.match_known(sig) is not None:
                ctx.violation("known finding", "", found=True, signature=sig)
                known_hists += 1
                continue
            if nviol < 3:
                if report(ctx, h):
                    nviol += 1
                else:
                    known_hists += 1
    run_model_corr(ctx)
    ctx.corr("SD whole file~AttrPersistModel.mstep", **whole)
    ctx.corr("SD/GR/VS/V~AttrSpec", histories=len(hists), operations=len(flat), op_mix=opmix,
             library_fail_results=fails_r, corpus_histories=len(corpus), number_types=sorted(nts_seen),
             count_histogram=count_hist, name_length_histogram=namelen_hist,
             histories_leaving_domain=unspec_stops, histories_matching_known_findings=known_hists)


def run_model_corr(ctx):
    """R vs M, exact, at function level"""
    r = ctx.rng
    n = 50 if ctx.tier == "quick" else 1500
    hists = [gen_unit_history(r, "u%d" % i) for i in range(n)]
    rc, R, M, flat = run_histories(ctx, hists, "model", model=True)
    pos, bad_n, compared, kinds = 0, 0, 0, {}
    for h in hists:
        lo, hi = pos, pos + len(h)
        pos = hi
        bad = None
        for i in range(lo, hi):
            if M[i] in ("nomodel", "skip", "history"):
                continue
            compared += 1
            kinds[flat[i].split()[0]] = kinds.get(flat[i].split()[0], 0) + 1
            if R[i] != M[i]:
                bad = i
                break
        ctx.case(tuple(h[1:]), True)
        if bad is not None and bad_n < 2:
            bad_n += 1
            # is it also a failing input of the property?  the same history against S
            rc3, R3, S3, flat3 = run_histories(ctx, [h], "models")
            j, kind = first_bad(R3, S3, flat3, 0, len(flat3))
            txt = ["# C10: function-level history; library (R) vs Coq model AttrModel (M) differ",
                   "# run: bin/check C10 --replay <this file>"] + h + [
                   "# first R/M difference at: %s" % flat[bad][:200],
                   "#   library: %s" % ((R[bad] or "crash")[:400]),
                   "#   model  : %s" % M[bad][:400]]
            if j is not None:
                txt += ["# the library also leaves the specification at: %s" % flat3[j][:200],
                        "#   library      : %s" % ((R3[j] or "crash")[:300]), "#   specification: %s" % S3[j][:300]]
            ctx.violation("model correspondence (SDIputattr / attribute tables) broken at: %s" % flat[bad][:120],
                          "\n".join(txt), found=j is not None)
    ctx.corr("SDIputattr,NC_findattr,VSsetattr,Vsetattr,GRsetattr~AttrModel", histories=len(hists), operations=len(flat),
             compared_lines=compared, by_operation=kinds, mismatching_histories=bad_n)


def replay(ctx, path):
    lines = [l for l in open(path).read().splitlines() if l.strip() and not l.startswith("#")]
    rc, R, S, flat = run_histories(ctx, [lines], "replay")
    if any(l.startswith("unit.") or ".raw" in l for l in lines):
        rcm, Rm, M, _ = run_histories(ctx, [lines], "replaym", model=True)
        for i, l in enumerate(flat):
            ok = M[i] in ("nomodel", "skip", "history") or Rm[i] == M[i]
            print("%s %-50s R: %-60s M: %s" % ("  " if ok else "!!", l[:50], (Rm[i] or "<crash>")[:60], M[i][:80]))
    W = run_whole_model(ctx, [lines], "replayw")
    stop = False
    for i, l in enumerate(flat):
        ok = stop or match(R[i], S[i])
        print("%s %-60s R: %-70s S: %-70s M: %s" % ("  " if ok else "!!", l[:60], (R[i] or "<crash>")[:70], S[i][:70], W[i][:70]))
        if S[i] == "unspec":
            stop = True
    print("harness rc =", rc)
    return 0
