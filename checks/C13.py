"""C13 -- handle safety.
(a) atom table: HA* of the real library (atom.c #included, static state dumped after every call) vs the Coq
    implementation model M (state-for-state) vs the finite-map specification S (results);
(b) mixed histories over H / Hbit / V / VS / GR / AN / SD (ASan build): the library's answers are judged by the
    abstract handle table (h_step of AtomModel.v, extracted);
(c) the file reference-count machine FM vs Hopen/Hclose/Hstartaccess/Hendaccess."""
import itertools
import os
import re
import shutil
import tempfile
import vcommon as vc

RULE = ("(a) atom histories from one PRNG (VERIF_SEED): 1-3 groups (valid and invalid numbers), hash sizes 1..16 and "
        "invalid ones, register / lookup / remove / search / group / nested init / destroy + re-init, lookups of live, "
        "removed, never-issued, foreign-group and neighbouring ids, repeated lookups that walk the 4-entry cache; "
        "compared state-for-state (result, cache, counters, every bucket) with the model and result-for-result with "
        "the finite map.  (b) mixed histories: every release order of <= 4 handles of each interface family, double "
        "release, use after release, ids of another interface / file / never issued, nested opens of one path in "
        "different modes, interleavings over up to 3 files, full teardown followed by HPend and a fresh cycle; two or three "
        "files open at once holding objects under identical tag/refs (ordinary, linked-block, compressed, external, chunked "
        "elements, Vdatas, Vgroups, images, datasets) with whole-content reads through every id, Vinsert with ids of the "
        "same / another file; SD table histories: files closed out of order, SDreset_maxopenfiles with every request around "
        "the number of open files and the highest occupied position (and far ones, and on the unallocated table), every "
        "live SD id used after each request, more opens afterwards; issue calls while the system refuses the next stream "
        "(fopen interposed): nested opens of an open path in every mode combination, first opens, SDstart, external-element, "
        "Vdata and bit attaches, every live handle read afterwards; annotation ids of all four types over two AN sessions on "
        "one file id, ids obtained by index, by name and by tag/ref; every access-mode sequence (r/w) of attachments of one "
        "Vdata; each answer of the library is judged by the abstract handle table (identity of the object "
        "computed from the content returned).  (c) file machine histories (open/close/"
        "start/end, shared paths).  (d) the positions NC_open assigns and the results of NC_reset_maxopenfiles are compared "
        "with the model of the open-file table (ct_step).  A case is one call; distinct by (history text, position)")
TRUSTED = ["Coq 8.16.1 kernel (no native_compute; vm_compute only in Examples)",
           "translator gen/gen_consts.py + plugin gen/plugins/c13_atom.py (kinds consts, enums; plugin: atom.c id macros "
           "with sizeof(atom_t) taken from the typedef, HAinit_group call sites, hfile.c reference-count statements, "
           "mfsd.c id expressions) run through gcc -E",
           "extraction: Require Extraction + ExtrOcamlBasic only; Z/positive/nat extracted as inductives",
           "OCaml driver extract/atom_main.ml, C harnesses harness/drive_atom.c and harness/drive_handles.c, generators "
           "and comparison in checks/C13.py",
           "modelled, not verified: the glue between the atom table and each interface (vgp.c, vio.c, mfgr.c, mfan.c, "
           "mfsd.c instance tables) is observed through the mixed histories only; memory safety is observed by "
           "ASan/UBSan on the explored histories, never proved"]
ASSUMPTIONS = ["objects registered in the atom table are non-NULL pointers (a NULL object is indistinguishable from failure)",
               "fewer than 2^28 registrations per group lifetime (beyond that: theorem atom_wrap_refuted, known finding)",
               "mixed histories release an interface (Vend/GRend/ANend/SDend) only after the handles issued under it, "
               "except in the separate parent-first stream whose outcomes are recorded as known findings",
               "malloc does not fail"]

GROUPS = 9


# --------------------------------------------------------------------------------------------------
# (a) atom histories
# --------------------------------------------------------------------------------------------------

def gen_atom_history(r, big=False):
    """Returns list of op strings.  The generator keeps only a light shadow (which op indices returned ids that
    are probably live) to steer the weights."""
    ops = []
    ngroups = r.choice([1, 1, 2, 3])
    groups = r.sample(range(GROUPS), ngroups)
    hs = {g: r.choice([1, 2, 2, 4, 4, 8, 16]) for g in groups}
    for g in groups:
        ops.append("I %d %d" % (g, hs[g]))
    live, dead = [], []          # op indices whose result is an id
    nops = r.randrange(8, 70 if big else 45)
    hot = []
    for _ in range(nops):
        x = r.random()
        g = r.choice(groups)
        if x < 0.30:
            ops.append("R %d %d" % (g, r.randrange(1, 60)))
            live.append(len(ops) - 1)
            if len(hot) < 5 and r.random() < 0.5:
                hot.append(len(ops) - 1)
        elif x < 0.62:
            y = r.random()
            if y < 0.45 and hot:
                ops.append("L @%d" % r.choice(hot))
            elif y < 0.65 and live:
                ops.append("L @%d" % r.choice(live))
            elif y < 0.80 and dead:
                ops.append("L @%d" % r.choice(dead))
            else:
                ops.append("L %d" % garbage_id(r, groups, hs))
        elif x < 0.78:
            y = r.random()
            if y < 0.6 and live:
                k = r.choice(live)
                live.remove(k)
                dead.append(k)
                ops.append("X @%d" % k)
            elif y < 0.8 and dead:
                ops.append("X @%d" % r.choice(dead))
            else:
                ops.append("X %d" % garbage_id(r, groups, hs))
        elif x < 0.84:
            ops.append("S %d %d" % (r.choice(groups + [-1, 9]), r.randrange(1, 60)))
        elif x < 0.88:
            ops.append("G @%d" % r.choice(live) if live and r.random() < 0.5 else "G %d" % garbage_id(r, groups, hs))
        elif x < 0.92:
            ops.append("I %d %d" % (r.choice(groups + [-1, 9, 12, r.randrange(GROUPS)]), r.choice([0, 1, 2, 3, 4, 6, 8, 16, 64])))
        elif x < 0.97:
            ops.append("D %d" % r.choice(groups + [-1, 9, r.randrange(GROUPS)]))
        else:
            # destroy + re-initialise: the counter restarts, earlier ids are numerically re-issued
            ops.append("D %d" % g)
            ops.append("I %d %d" % (g, hs[g]))
            ops.append("R %d %d" % (g, r.randrange(60, 90)))
            live.append(len(ops) - 1)
    return ops


def garbage_id(r, groups, hs):
    g = r.choice(groups)
    base = (g << 28) if g < 8 else (g << 28) - (1 << 32)
    return r.choice([-1, 0, 1, base, base + 1, base + r.randrange(0, 40), base + hs[g], base + (1 << 28) - 1,
                     (base + r.randrange(0, 6)) ^ (1 << 28), (base + r.randrange(0, 6)) ^ (3 << 28),
                     r.randrange(-2 ** 31, 2 ** 31), 2 ** 31 - 1, -2 ** 31])


ATOM_CORPUS = [
    # cache coherence across destroy + re-init (same id, new object)
    ["I 2 4", "R 2 11", "L @1", "L @1", "D 2", "L @1", "I 2 4", "R 2 12", "L @7"],
    # remove an id that sits in each cache slot
    ["I 1 2", "R 1 1", "R 1 2", "R 1 3", "R 1 4", "L @1", "L @1", "L @2", "L @2", "L @3", "L @3", "L @4", "X @1", "L @1",
     "X @2", "L @2", "X @3", "L @3", "X @4", "L @4"],
    # hash collisions: chain of 5 in one bucket, remove middle / head / tail
    ["I 3 1", "R 3 1", "R 3 2", "R 3 3", "R 3 4", "R 3 5", "X @3", "L @3", "X @5", "L @5", "X @1", "L @1", "L @2", "L @4"],
    # foreign group, -1, group 8 (negative ids)
    ["I 8 2", "I 0 2", "R 8 9", "R 0 8", "L @2", "L @3", "L -1", "G @2", "G -1", "X -1", "L 268435456", "S 8 9", "S 0 9"],
]


def run_atoms(ctx):
    r = ctx.rng
    n = 250 if ctx.tier == "quick" else 5000
    hists = [list(h) for h in ATOM_CORPUS]
    cdir = os.path.join(vc.VERIF, "corpus", "C13")
    for p in sorted(os.listdir(cdir)) if os.path.isdir(cdir) else []:
        if p.endswith(".atom"):
            hists.append([l.strip() for l in open(os.path.join(cdir, p)) if l.strip() and not l.startswith("#") and l.strip() != "N"])
    hists += [gen_atom_history(r, big=(i % 7 == 0)) for i in range(n)]
    exe = ctx.harness("drive_atom", ["drive_atom.c"])
    mod = ctx.model("atom_model", ["atom_main.ml"], ["atom_model"])
    tmp = os.path.join(ctx.bdir, "harness", "c13_atoms_%d.in" % os.getpid())
    with open(tmp, "w") as fh:
        for h in hists:
            fh.write("N\n" + "\n".join(h) + "\n")
    rc, R = vc.run_lines(exe, tmp, timeout=900)
    rcm, MS = vc.run_lines(mod, tmp, timeout=900, args=["atom"])
    os.unlink(tmp)
    Rh, Mh = split_hist(R), split_hist(MS)
    corr_break = None
    stats = {"histories": len(hists), "ops": 0, "by_op": {}, "lookups_hit": 0, "lookups_miss": 0, "register_fail": 0,
             "nodomain_ops": 0, "cache_hits_slot": [0, 0, 0, 0], "max_chain": 0, "crashes": 0}
    for hi, h in enumerate(hists):
        rl = Rh[hi] if hi < len(Rh) else []
        ml = Mh[hi] if hi < len(Mh) else []
        m_lines = [l for l in ml if l.startswith("M ")]
        s_lines = [l for l in ml if l.startswith("S ")]
        crashed = any(l.startswith("CRASH") for l in rl) or len([l for l in rl if l.startswith("R ")]) < len(h)
        r_lines = [l for l in rl if l.startswith("R ")]
        if crashed:
            stats["crashes"] += 1
            ctx.violation("atom harness crashed (sanitizer report or signal) in history %d" % hi,
                          "# C13 atom replay\nN\n" + "\n".join(h) + "\n# library output:\n# " + "\n# ".join(rl[-12:]),
                          found=True, suffix="atom")
            continue
        for i, op in enumerate(h):
            stats["ops"] += 1
            stats["by_op"][op[0]] = stats["by_op"].get(op[0], 0) + 1
            rres = r_lines[i].split("|")[0].split()[1]
            sres, sdom = s_lines[i].split()[1], s_lines[i].split()[2]
            if op[0] == "L":
                stats["lookups_hit" if rres != "0" else "lookups_miss"] += 1
            if op[0] == "R" and rres == "-1":
                stats["register_fail"] += 1
            for b in re.findall(r":([^;}]*)", r_lines[i].split("|", 2)[-1]):
                stats["max_chain"] = max(stats["max_chain"], b.count("=") )
            ctx.case(("atom", hi, i, tuple(h[:i + 1]) if i < 6 else (hi, i, op)), True,
                     sample={"history": h[:8], "op": op, "library": r_lines[i][:100]} if (hi * 31 + i) % 1499 == 0 else None)
            if sdom != "ok":
                stats["nodomain_ops"] += 1
            elif rres != sres:
                sig = None
                ctx.violation("atom table: library result differs from the finite-map specification at op %d (%s): library %s, spec %s"
                              % (i, op, rres, sres),
                              "# C13 atom replay (bin/check C13 --replay <this file>)\nN\n" + "\n".join(h[:i + 1]) +
                              "\n# spec   : " + s_lines[i] + "\n# model  : " + m_lines[i] + "\n# library: " + r_lines[i],
                              found=True, signature=sig, suffix="atom")
                break
            if r_lines[i][2:].strip() != m_lines[i][2:].strip() and corr_break is None:
                # correspondence broken: keep searching (this history and the following ones) for an input on which
                # the library's RESULT differs from the specification; report the state difference only if none exists
                corr_break = ("atom table: library state differs from the implementation model (relation HA* ~ AtomModel.m_step) "
                              "at op %d (%s); no input with a wrong result found" % (i, op),
                              "# C13 atom correspondence broken; no input with a wrong result found\nN\n" + "\n".join(h[:i + 1]) +
                              "\n# model  : " + m_lines[i] + "\n# library: " + r_lines[i])
        if len([v for v in ctx.violations if v["found"]]) >= 3:
            break
    stats["state_mismatch"] = corr_break is not None
    if corr_break is not None and not any(v["found"] for v in ctx.violations):
        ctx.violation(corr_break[0], corr_break[1], found=False, suffix="atom")
    ctx.corr("HA*~AtomModel.m_step~s_step", **stats)



# --------------------------------------------------------------------------------------------------
# (b) mixed histories judged by the abstract handle table
# --------------------------------------------------------------------------------------------------
KINDS = ["file", "aid", "bit", "vg", "vs", "gr", "ri", "an", "ann", "sd", "sds", "dim"]
BLOCKING = {"aid", "bit", "vs"}
USE = {"file": "hfinq", "aid": "hinq", "bit": "hbitrd", "vg": "vname", "vs": "vsname", "gr": "grinfo", "ri": "riinfo",
       "an": "aninfo", "ann": "annlen", "sd": "sdinfo", "sds": "sdsinfo", "dim": "diminfo"}
USE2 = {"aid": "hread", "ri": "grlut", "ann": "anendacc", "vg": "vgmem", "vs": "vsread", "sds": "sdsread"}
USE3 = {"ri": "riread"}
REL = {"file": "hclose", "aid": "hend", "bit": "hbitend", "vg": "vdetach", "vs": "vsdetach", "gr": "grend",
       "ri": "grendacc", "an": "anend", "sd": "sdend", "sds": "sdendacc"}
BADCODE = {1: "stale-or-foreign-id-accepted", 2: "valid-call-refused", 3: "wrong-object", 4: "issued-id-aliases-live-handle",
           5: "file-closed-under-attached-elements", 6: "ids-of-two-files-accepted-together",
           7: "attachment-issued-against-an-exclusive-write-attachment"}


class Shadow:
    """Light shadow state used only to steer the generator and to compute the 'arguments plainly valid' flag."""

    def __init__(self, r):
        self.r = r
        self.ops = []
        self.slots = {}            # slot -> dict(kind, live, parent, p, idx)
        self.nslot = 0
        self.vstarted = {}         # file slot -> count
        self.path_open = {0: 0, 1: 0, 2: 0}
        self.path_w = {0: False, 1: False, 2: False}
        self.refs = {0: {1, 2, 3, 4, 5, 6}, 1: {1, 2, 3, 4, 5, 6}, 2: {1, 2, 3, 4, 5, 6}}   # 3 linked 4 compressed 5 external 6 chunked
        self.pairs = set()
        self.newvg = 5
        self.denying = False
        self.created_ann = set()

    def new(self, kind, parent=None, p=None, idx=None):
        s = self.nslot
        self.nslot += 1
        self.slots[s] = dict(kind=kind, live=True, parent=parent, p=p, idx=idx, slot=s)
        return s

    def live(self, kind=None):
        return [s for s, d in self.slots.items() if d["live"] and (kind is None or d["kind"] == kind)]

    def children(self, s, kinds=None):
        return [c for c, d in self.slots.items() if d["live"] and d["parent"] == s and (kinds is None or d["kind"] in kinds)]

    def emit(self, txt):
        self.ops.append(txt)

    # ---- issue ------------------------------------------------------------------
    def hopen(self, p, mode):
        if self.nslot >= 38:
            return None
        ok = 1 if mode in "rw" and not self.denying else 0
        s = self.new("file", p=p)
        self.emit("hopen %d %d %s %d" % (s, p, mode, ok))
        if self.denying:
            self.slots[s]["maybe"] = True
        if ok:
            self.path_open[p] += 1
            if mode == "w":
                self.path_w[p] = True
        else:
            self.slots[s]["live"] = False
        return s

    def sdstart(self, p, mode):
        if self.nslot >= 38:
            return None
        s = self.new("sd", p=p)
        if self.denying:
            self.emit("sdstart %d %d %s 0" % (s, p, mode))
            self.slots[s]["live"] = False
            self.slots[s]["maybe"] = True
            return s
        self.emit("sdstart %d %d %s 1" % (s, p, mode))
        self.path_open[p] += 1
        if mode == "w":
            self.path_w[p] = True
        return s

    def denied(self, what, *args):
        """an issue call while the system refuses the next stream the library opens; afterwards every live handle is
        used (whole content): a refused open / attach must leave them all as they were"""
        self.emit("denyopen 0 1")
        self.denying = True
        try:
            s = getattr(self, what)(*args)
        finally:
            self.denying = False
        self.emit("denyopen 0 0")
        for h in [x for x, d in self.slots.items() if d["live"]]:
            self.use(h, alt=True)
        return s

    def child(self, kind, ps, want=None):
        """issue a handle of 'kind' under parent slot ps (which may be stale or of the wrong kind);
        want = ref / index to ask for (None: random)"""
        if self.nslot >= 38:
            return None
        r = self.r
        d = self.slots.get(ps, dict(kind="?", live=False, p=0))
        book = ps
        if d["kind"] == "an" and kind in ("aid", "bit", "vg", "vs", "gr") and d.get("parent") in self.slots:
            book = d["parent"]            # the AN interface id IS the file id: the call works on that file
            d = self.slots[book]
        plive = d["live"]
        p = d.get("p") or 0
        good = {"aid": "file", "bit": "file", "vg": "file", "vs": "file", "gr": "file", "an": "file", "ri": "gr",
                "ann": "an", "sds": "sd", "dim": "sds"}[kind] == d["kind"] and plive
        s = self.new(kind, parent=book, p=p)
        ok = 0
        if kind == "aid":
            ref = want if want is not None else r.choice(sorted(self.refs[p]) + [r.choice([1, 2, 7])])
            w = want is None and r.random() < 0.25
            ok = int(good and ref in self.refs[p] and (not w or self.path_w[p]))
            self.emit("hstart %d %d %d %s %d" % (s, ps, ref, "w" if w else "r", ok))
            self.slots[s]["readable"] = ref in (1, 2, 3, 4, 5, 6) and not w
        elif kind == "bit":
            ref = r.choice([1, 2])
            ok = int(good)
            self.emit("hbit %d %d %d %d" % (s, ps, ref, ok))
        elif kind == "vg":
            vst = self.vstarted.get(book, 0) > 0
            if (want == "new" or (want is None and r.random() < 0.2)) and self.path_w[p] and self.newvg < 10:
                idx = self.newvg
                self.newvg += 1
                ok = int(good and vst)
                self.emit("vattach %d %d %d w %d" % (s, ps, idx, ok))
                self.slots[s]["w"] = True
            else:
                idx = want if want in (0, 1) else r.choice([0, 1])
                w = want is None and r.random() < 0.3
                ok = int(good and vst and (not w or self.path_w[p]))
                self.emit("vattach %d %d %d %s %d" % (s, ps, idx, "w" if w else "r", ok))
        elif kind == "vs":
            vst = self.vstarted.get(book, 0) > 0
            wmode = False
            if isinstance(want, tuple):                      # (idx, "w"|"r")
                idx, wmode = want[0], want[1] == "w"
            else:
                idx = want if want is not None else r.choice([0, 1])
                wmode = r.random() < 0.3
            # a write attachment is exclusive; whether this one conflicts with a live one is the handle table's business
            others = [c for c, dd in self.slots.items() if dd["live"] and dd["kind"] == "vs" and dd["parent"] == book
                      and dd.get("idx") == idx]
            conflict = bool(others) and (wmode or any(self.slots[c].get("w") for c in others))
            ok = int(good and vst and (not wmode or self.path_w[p]) and not conflict)
            self.emit("vsattach %d %d %d %s %d" % (s, ps, idx, "w" if wmode else "r", ok))
            self.slots[s]["w"] = wmode
        elif kind == "gr":
            ok = int(good)
            self.emit("grstart %d %d %d" % (s, ps, ok))
        elif kind == "an":
            ok = int(good)
            self.emit("anstart %d %d %d" % (s, ps, ok))
        elif kind == "ri":
            idx = want if want is not None else r.choice([0, 1, 1 + p, 2 + p, 7])
            ok = int(good and idx < 2 + p)
            self.emit("grselect %d %d %d %d%s" % (s, ps, idx, ok, " n" if r.random() < 0.35 else ""))
        elif kind == "ann":
            # want = annotation type (0 data label, 1 data description, 2 file label, 3 file description) or ("new", type)
            if isinstance(want, tuple):
                t = want[1]
                ok = int(good and self.path_w[p] and t != 2)
                self.emit("ancreate %d %d %d %d" % (s, ps, t, ok))
                self.created_ann.add((p, t))
                idx = 4
            else:
                t = want if want is not None else r.randrange(4)
                n = 2 + p if t == 2 else 2
                idx = r.choice([0, 1, n - 1, n, 7])
                ok = int(good and idx < n and (p, t) not in self.created_ann)
                if (p, t) in self.created_ann:
                    idx = 7                       # indices of this type have shifted: only the refusal is meaningful
                    ok = 0
                if r.random() < 0.4:
                    self.emit("antagref %d %d %d %d %d" % (s, ps, idx, ok, t))
                else:
                    self.emit("anselect %d %d %d %d %d" % (s, ps, idx, ok, t))
        elif kind == "sds":
            idx = want if want is not None else r.choice([0, 1, 1 + p, 2 + p, 7])
            ok = int(good and idx < 2 + p)
            self.emit("sdselect %d %d %d %d%s" % (s, ps, idx, ok, " n" if r.random() < 0.35 else ""))
        elif kind == "dim":
            ok = int(good)
            self.emit("sddim %d %d %d" % (s, ps, ok))
        self.slots[s]["idx"] = locals().get("idx")
        if self.denying and ok:
            ok = 0
            self.ops[-1] = self.ops[-1].rsplit(" ", 1)[0] + " 0" if kind != "ann" else self.ops[-1]
        if not ok:
            self.slots[s]["live"] = False
            self.slots[s]["maybe"] = True
        return s

    def vinsert(self, sp, sc):
        """Vinsert(vgroup slot sp, vgroup/vdata slot sc): a call that takes two ids"""
        dp, dc = self.slots[sp], self.slots[sc]
        ck = "s" if dc["kind"] == "vs" else "g"
        ok = int(dp["kind"] == "vg" and dp["live"] and dp.get("w", False) and dc["kind"] in ("vg", "vs") and dc["live"]
                 and dp["parent"] == dc["parent"] and sp != sc and (sp, dc["kind"], dc.get("idx")) not in self.pairs
                 and not (dc["kind"] == "vg" and dc.get("idx") == dp.get("idx"))
                 and self.path_w[dp.get("p") or 0])
        self.pairs.add((sp, dc["kind"], dc.get("idx")))      # Vinsert refuses a tag/ref that is already a member
        self.emit("vinsert %d %d %s %d" % (sp, sc, ck, ok))

    # ---- use / release ------------------------------------------------------------
    def use(self, s, as_kind=None, alt=False):
        k = as_kind or self.slots[s]["kind"]
        d = self.slots[s]
        op = USE[k]
        if alt and k in USE2:
            plain = (k == "aid" and d.get("readable")) or (k in ("vg", "vs", "sds") and d.get("idx") in (0, 1, 2, 3, 4)) \
                or k in ("ri", "ann")
            if plain or as_kind is not None:
                op = USE2[k]
                if k in USE3 and self.r.random() < 0.5:
                    op = USE3[k]
        self.emit("%s %d" % (op, s))

    def can_release(self, s):
        d = self.slots[s]
        k = d["kind"]
        if not d["live"]:
            return True
        if k == "file":
            return not self.children(s, {"vg", "gr", "an"}) and self.vstarted.get(s, 0) == 0
        if k == "gr":
            return not self.children(s, {"ri"})
        return True

    def release(self, s, as_kind=None):
        d = self.slots[s]
        k = as_kind or d["kind"]
        if k not in REL:
            return
        if d["kind"] == "sd" and not d["live"] and as_kind is None and not getattr(self, "final", False):
            return        # SD file ids are slot numbers and are re-issued at once: a stale one may name a live file
        self.emit("%s %d" % (REL[k], s))
        if as_kind is not None and as_kind != d["kind"]:
            return
        if not d["live"]:
            if k == "an":            # the AN id is the file id: ANend on an ended session ends a later one of that file
                for c, dd in self.slots.items():
                    if dd["live"] and dd["kind"] == "an" and dd["parent"] == d["parent"]:
                        dd["live"] = False
                self.kill_orphans()
            return
        if k == "file" and self.children(s, BLOCKING):
            return                                    # refusal expected
        d["live"] = False
        if k in ("file", "sd"):
            self.path_open[d["p"]] -= 1
            if self.path_open[d["p"]] == 0:
                self.path_w[d["p"]] = False
        for c in list(self.slots):
            self.kill_orphans()

    def kill_orphans(self):
        for c, d in self.slots.items():
            if d["live"] and d["parent"] is not None and not self.slots[d["parent"]]["live"]:
                d["live"] = False

    def sdreset(self, n, r=None):
        """SDreset_maxopenfiles(n), then every live SD handle is used (whole content where there is some)"""
        self.emit("sdreset 0 %d" % n)
        for s in self.live("sd") + self.live("sds") + self.live("dim"):
            self.use(s, alt=True)

    def vstart(self, s):
        self.emit("vstart %d" % s)
        if self.slots[s]["live"] and self.slots[s]["kind"] == "file":
            self.vstarted[s] = self.vstarted.get(s, 0) + 1

    def vend(self, s):
        self.emit("vend %d" % s)
        self.vstarted[s] -= 1


def fam_history(r, fam, perm_index=None):
    """<= 4 handles of one interface family, released in one order (perm_index selects the permutation),
    with a use of every handle after each release, then double releases and uses of the stale ids."""
    sh = Shadow(r)
    p = r.randrange(3)
    hs = []
    if fam in ("aid", "bit", "vs", "vg", "gr", "an"):
        f1 = sh.hopen(p, r.choice("rw"))
        two = fam in ("aid", "bit") and r.random() < 0.5
        f2 = sh.hopen(p if r.random() < 0.6 else (p + 1) % 3, r.choice("rw")) if two else None
        files = [f for f in (f1, f2) if f is not None]
        if fam in ("vs", "vg"):
            for f in files:
                sh.vstart(f)
        kids = [sh.child(fam, r.choice(files)) for _ in range(1 if fam == "an" else 4 - len(files))]
        hs = files + kids
        if fam == "gr":
            for k in kids[2:]:
                sh.release(k)
            hs = [f1, kids[0], kids[1], sh.child("ri", r.choice(kids[:2]))]
        if fam == "an":
            k = perm_index or 0
            hs = [f1, kids[0], sh.child("ann", kids[0], k % 4), sh.child("ann", kids[0], (k // 4 + k + 1) % 4)]
            if sh.path_w[p] and k % 3 == 0:
                hs[-1] = sh.child("ann", kids[0], ("new", r.choice([0, 1, 3])))
    else:  # sd
        s1 = sh.sdstart(p, r.choice("rw"))
        k1 = sh.child("sds", s1)
        k2 = sh.child("sds", s1)
        hs = [s1, k1, k2, sh.child("dim", k1)]
    rel = [h for h in hs if sh.slots[h]["kind"] in REL]
    perms = list(itertools.permutations(rel))
    order = perms[(perm_index if perm_index is not None else r.randrange(len(perms))) % len(perms)]
    for h in hs:
        sh.use(h)
    pending = list(order)
    done = []
    guard = 0
    while pending and guard < 40:
        guard += 1
        h = pending.pop(0)
        if not sh.can_release(h):
            pending.append(h)          # postponed: children first (parent-first belongs to the other stream)
            continue
        if sh.slots[h]["kind"] == "file" and sh.vstarted.get(h, 0) > 0:
            pending.append(h)
            continue
        was_live = sh.slots[h]["live"]
        sh.release(h)
        if was_live and sh.slots[h]["live"]:
            pending.append(h)          # refused (attached elements): retry after the others
        for x in hs:
            sh.use(x, alt=(r.random() < 0.3))
        # V sessions end when their vgroups / vdatas are gone
        for f in list(sh.vstarted):
            if sh.vstarted[f] > 0 and not sh.children(f, {"vg", "vs"}) and sh.slots[f]["live"]:
                sh.vend(f)
    teardown(sh)
    sh.final = True
    for h in hs:                        # double release + stale use
        if not sh.slots[h]["live"]:
            sh.release(h)
        sh.use(h)
    return sh.ops


def rand_history(r, nops):
    sh = Shadow(r)
    for _ in range(nops):
        x = r.random()
        files = sh.live("file")
        if x < 0.10 or not (files or sh.live("sd")):
            if r.random() < 0.3:
                sh.sdstart(r.randrange(3), r.choice("rw"))
            else:
                p = r.randrange(3)
                sh.hopen(p, "c" if (sh.path_open[p] and r.random() < 0.15) else r.choice("rrw"))
        elif x < 0.40:
            kind = r.choice(["aid", "aid", "bit", "vg", "vs", "gr", "an", "ri", "ann", "sds", "sds", "dim"])
            need = {"aid": "file", "bit": "file", "vg": "file", "vs": "file", "gr": "file", "an": "file", "ri": "gr",
                    "ann": "an", "sds": "sd", "dim": "sds"}[kind]
            cands = sh.live(need)
            if r.random() < 0.12 or not cands:
                cands = list(sh.slots) or [0]          # stale / foreign parent
            ps = r.choice(cands)
            if kind == "ann" and sh.slots[ps]["kind"] == "file":
                continue                                 # AN call without ANstart (AN id = file id): API misuse, not a handle question
            if kind == "an" and any(sh.slots[a]["p"] == sh.slots[ps].get("p") for a in sh.live("an")):
                continue
            if kind in ("vg", "vs") and sh.slots[ps]["kind"] == "file" and sh.slots[ps]["live"] and sh.vstarted.get(ps, 0) == 0:
                sh.vstart(ps)
            if kind == "gr" and len([g for g in sh.children(ps, {"gr"})]) >= 2:
                continue
            sh.child(kind, ps)
            if foreign_untyped(sh.ops, len(sh.ops) - 1):
                if r.random() < 0.15:
                    return sh.ops, sh
                sh.ops.pop()
        elif x < 0.42 and r.random() < 0.25:
            sh.sdreset(r.choice([0, 1, 2, 3, 4, 5, 6, 33]))
        elif x < 0.42 and r.random() < 0.2:
            if r.random() < 0.5:
                sh.denied("hopen", r.randrange(3), r.choice("rww"))
            else:
                sh.denied("sdstart", r.randrange(3), r.choice("rw"))
        elif x < 0.42 and r.random() < 0.15 and sh.live("an"):
            sh.child("ann", r.choice(sh.live("an")), ("new", r.choice([0, 1, 3])))
        elif x < 0.45:
            vgs = sh.live("vg")
            kids = sh.live("vg") + sh.live("vs")
            if vgs and kids:
                wv = [v for v in vgs if sh.slots[v].get("w")]
                sp = r.choice(wv) if wv and r.random() < 0.8 else r.choice(vgs)
                sc = r.choice(kids) if r.random() < 0.85 else r.choice(list(sh.slots))
                if sh.slots[sc]["kind"] in ("vg", "vs", "lit") or not sh.slots[sc]["live"]:
                    sh.vinsert(sp, sc)
        elif x < 0.72:
            if not sh.slots:
                continue
            s = r.choice(list(sh.slots))
            y = r.random()
            if y < 0.75:
                sh.use(s, alt=(r.random() < 0.5))
            else:                                        # the slot's id given to another interface's inquiry
                k = r.choice(KINDS)
                if k == "an" and sh.slots[s]["kind"] == "file":
                    continue
                sh.use(s, as_kind=k)
                if foreign_untyped(sh.ops, len(sh.ops) - 1):
                    if r.random() < 0.15:
                        return sh.ops, sh                # type confusion (known finding): nothing after it is meaningful
                    sh.ops.pop()
        elif x < 0.95:
            if not sh.slots:
                continue
            s = r.choice(list(sh.slots))
            if r.random() < 0.1:
                k = r.choice(list(REL))
                if k != sh.slots[s]["kind"] and not (k == "an" and sh.slots[s]["kind"] == "file") \
                        and not (sh.slots[s]["kind"] == "an" and k == "file"):
                    sh.release(s, as_kind=k)             # foreign release call
                    if foreign_untyped(sh.ops, len(sh.ops) - 1):
                        if r.random() < 0.15:
                            return sh.ops, sh
                        sh.ops.pop()
                continue
            if not sh.can_release(s):
                continue
            if sh.slots[s]["kind"] == "file" and sh.vstarted.get(s, 0) > 0:
                if not sh.children(s, {"vg", "vs"}):
                    sh.vend(s)
                continue
            sh.release(s)
        else:
            s = sh.nslot
            if s < 38:
                sh.nslot += 1
                sh.slots[s] = dict(kind=r.choice(KINDS), live=False, parent=None, p=0, idx=None, slot=s)
                base = r.choice([1, 2, 3, 4, 5, 6, 8])
                v = r.choice([-1, 0, 7, (base << 28) % (1 << 32) + r.randrange(0, 50), 393216, 262144, 327680,
                              (base << 28) % (1 << 32) + 99999, r.randrange(-2 ** 31, 2 ** 31)])
                if v >= 2 ** 31:
                    v -= 2 ** 32
                sh.emit("lit %d %d" % (s, v))
    return sh.ops, sh


XKINDS = [("aid", 3), ("aid", 4), ("aid", 5), ("aid", 6), ("aid", 1), ("vs", 1), ("vs", 0), ("vg", 0), ("vg", 1),
          ("ri", 0), ("ri", 1), ("sds", 0), ("sds", 1), ("bit", 2)]


def xfile_history(r, k):
    """two or three DIFFERENT files open at once; the object with the same tag/ref/index is attached in each of them
    at the same time; interleaved inquiries and whole-content reads through every id (the content must be that of
    the id's own file); Vinsert with ids of another file; then release in a random admissible order."""
    sh = Shadow(r)
    nf = 2 if k % 3 else 3
    paths = r.sample(range(3), nf)
    files = [sh.hopen(p, "w" if (k + i) % 2 == 0 else "r") for i, p in enumerate(paths)]
    for f in files:
        sh.vstart(f)
    chosen = [XKINDS[(k + j * 5) % len(XKINDS)] for j in range(3)] + [r.choice(XKINDS)]
    hs = []
    grs, sds = {}, {}
    order = list(files)
    for kind, want in chosen:
        if k % 2:
            r.shuffle(order)
        for f in order:
            if kind == "ri":
                if f not in grs:
                    grs[f] = sh.child("gr", f)
                hs.append(sh.child("ri", grs[f], want))
            elif kind == "sds":
                if f not in sds:
                    sds[f] = sh.sdstart(sh.slots[f]["p"], "r")
                hs.append(sh.child("sds", sds[f], want))
            elif kind == "bit":
                hs.append(sh.child("bit", f))
            else:
                hs.append(sh.child(kind, f, want))
    for rnd in range(2):
        seq = list(hs)
        r.shuffle(seq)
        for h in seq:
            sh.use(h, alt=(rnd == 1 or r.random() < 0.5))
    # two-id calls across files
    wfiles = [f for f in files if sh.path_w[sh.slots[f]["p"]]]
    if wfiles:
        fa = wfiles[0]
        parent = sh.child("vg", fa, "new")
        own = sh.child("vg", fa, 0)
        ownvs = sh.child("vs", fa, 0)
        hs += [parent, own, ownvs]
        for fb in files:
            if fb != fa:
                g = sh.child("vg", fb, r.choice([0, 1]))
                v = sh.child("vs", fb, r.choice([0, 1]))
                hs += [g, v]
                sh.vinsert(parent, g)
                sh.vinsert(parent, v)
        sh.vinsert(parent, own)
        sh.vinsert(parent, ownvs)
        sh.use(parent)
    seq = list(hs)
    r.shuffle(seq)
    for h in seq:
        if sh.slots[h]["live"] and sh.can_release(h) and r.random() < 0.7:
            sh.release(h)
            for x in r.sample(hs, min(4, len(hs))):
                sh.use(x, alt=True)
    teardown(sh)
    return sh.ops


def sdtab_history(r, k):
    """the table of open SD files: k files opened, some closed out of order, then SDreset_maxopenfiles with every
    request around the number of open files and the highest occupied position (and a few far ones), every live id
    used after each request; more opens (first free position, growth after a shrink); full release and a request on
    the unallocated table; a fresh start."""
    sh = Shadow(r)
    nf = 3 + k % 4
    sds = [sh.sdstart(r.randrange(3), "r") for _ in range(nf)]
    kids = [sh.child("sds", s, r.choice([0, 1])) for s in sds if r.random() < 0.6]
    for s in sds:
        sh.use(s)
    closing = r.sample(sds, r.randrange(1, nf))
    if k % 3 == 0:
        closing = sds[:nf - 1]                    # all but the last: highest position with a single open file
    for s in closing:
        sh.release(s)
    reqs = list(range(0, nf + 2))
    if k % 2:
        r.shuffle(reqs)
    reqs += r.sample([-1, 31, 32, 33, 64, 19999, 20000, 20001, 30000], 2)
    for n in reqs:
        sh.sdreset(n)
    more = [sh.sdstart(r.randrange(3), "r") for _ in range(r.randrange(1, 4))]
    for s in more:
        sh.use(s)
        kids.append(sh.child("sds", s, 0))
    for n in r.sample(range(0, nf + 4), 3):
        sh.sdreset(n)
    teardown(sh)
    sh.sdreset(r.choice([0, 1, 2, 5, 40]))        # list not allocated: sets the size of the next allocation
    s = sh.sdstart(r.randrange(3), "r")
    s2 = sh.sdstart(r.randrange(3), "r")
    sh.use(s)
    sh.use(sh.child("sds", s2, 1), alt=True)
    sh.sdreset(r.choice([1, 2, 3]))
    teardown(sh)
    return sh.ops


def ann_history(r, k):
    """annotation ids of all four types (data label, data description, file label, file description) over two AN
    sessions on one file id: every id works during its session (length and text), none after ANend -- neither before,
    during nor after the second session --, the second session issues working ids again; optionally a created one."""
    sh = Shadow(r)
    p = k % 3
    f = sh.hopen(p, "w" if k % 2 else "r")
    an = sh.child("an", f)
    types = [0, 1, 2, 3]
    if k % 4 == 1:
        r.shuffle(types)
    first = [sh.child("ann", an, t) for t in types for _ in range(2)]
    if k % 2 and k % 4 == 3:
        first.append(sh.child("ann", an, ("new", r.choice([0, 1, 3]))))
    for h in first:
        sh.use(h)
    sh.release(an)
    for h in first:
        sh.use(h)                                   # stale: must be refused
    an2 = sh.child("an", f)
    second = [sh.child("ann", an2, t) for t in types]
    for h in first + second:
        sh.use(h)
    sh.release(an2)
    for h in first + second:
        sh.use(h)
    teardown(sh)
    for h in second[:2]:
        sh.use(h)
    return sh.ops


def vsmode_history(r, k):
    """one Vdata attached several times in every combination and order of access modes (r r, r w, w r, w w, r r w, ...),
    through one file id and through two ids of the path; admissible attachments must work (content), the others must
    be refused; every release order; then the file must close"""
    sh = Shadow(r)
    p = k % 3
    f = sh.hopen(p, "w")
    g = sh.hopen(p, "w") if k % 4 == 3 else None
    sh.vstart(f)
    if g is not None:
        sh.vstart(g)
    idx = k % 2
    combos = ["rw", "wr", "ww", "rrw", "rwr", "wrr", "rr", "wrw"]
    modes = combos[(k // 2) % len(combos)]
    hs = []
    for j, mch in enumerate(modes):
        hs.append(sh.child("vs", g if (g is not None and j == 1) else f, (idx, mch)))
        for h in hs:
            sh.use(h, alt=True)
    other = sh.child("vs", f, (1 - idx, r.choice("rw")))
    sh.use(other, alt=True)
    order = [h for h in hs + [other]]
    r.shuffle(order)
    for h in order:
        sh.release(h)
        for x in hs + [other]:
            sh.use(x, alt=(r.random() < 0.5))
        if r.random() < 0.3:
            hs.append(sh.child("vs", f, (idx, r.choice("rw"))))
    teardown(sh)
    sh.use(f)
    return sh.ops


def deny_history(r, k):
    """issue calls that the system refuses (the stream the library tries to open is denied): nested opens of an open path
    in every mode combination, first opens, SDstart, external-element access -- with files, access elements, Vdatas and
    datasets live, all of which must work exactly as before afterwards"""
    sh = Shadow(r)
    p = r.randrange(3)
    q = (p + 1 + k % 2) % 3
    f1 = sh.hopen(p, "r" if k % 4 < 3 else "w")
    f2 = sh.hopen(q, r.choice("rw")) if k % 2 else None
    sd = sh.sdstart(r.choice([p, q]), "r") if k % 3 == 0 else None
    kids = [sh.child("aid", f1, r.choice([1, 3, 4, 6])), sh.child("aid", f1, 5)]
    sh.vstart(f1)
    kids.append(sh.child("vs", f1, 1))
    if sd is not None:
        kids.append(sh.child("sds", sd, 0))
    for h in kids:
        sh.use(h, alt=True)
    attempts = [("hopen", p, "w"), ("hopen", p, "r"), ("hopen", q, "w"), ("hopen", q, "r"), ("hopen", (q + 1) % 3, "r"),
                ("sdstart", p, "r"), ("sdstart", q, "w"), ("child", "aid", f1, 5), ("child", "aid", f1, 3),
                ("child", "vs", f1, 0), ("child", "bit", f1)]
    r.shuffle(attempts)
    attempts = [("hopen", p, "w")] + attempts[:4 + k % 3]     # the read-only -> write upgrade first
    for a in attempts:
        sh.denied(*a)
        if r.random() < 0.3:
            x = sh.hopen(r.choice([p, q]), r.choice("rw"))    # a successful nested open in between
            sh.use(x)
    teardown(sh)
    return sh.ops


def teardown(sh):
    """release everything the shadow believes live, children first"""
    # handles whose issue was not plainly valid may exist all the same (e.g. a new element created by a write
    # start): release them, and close their files once more (both fail harmlessly when there is nothing to release)
    maybe = [s for s, d in sh.slots.items() if d.get("maybe") and d["kind"] in REL and d["kind"] not in ("file", "sd")]
    for s in maybe:
        sh.emit("%s %d" % (REL[sh.slots[s]["kind"]], s))
    for _ in range(6):
        for s in sorted(sh.slots, reverse=True):
            d = sh.slots[s]
            if d["live"] and d["kind"] in REL and sh.can_release(s) and not (d["kind"] == "file" and sh.vstarted.get(s, 0) > 0):
                sh.release(s)
        for f in list(sh.vstarted):
            if sh.vstarted[f] > 0 and not sh.children(f, {"vg", "vs"}):
                sh.vend(f)
    for f in sorted(set(sh.slots[s]["parent"] for s in maybe)):
        if f is not None and sh.slots[f]["kind"] == "file":
            sh.emit("hclose %d" % f)
    for s, d in sh.slots.items():                 # opens that were attempted while streams were refused
        if d.get("maybe") and d["kind"] in ("file", "sd") and not d.get("closed_maybe"):
            d["closed_maybe"] = True
            sh.emit("%s %d" % (REL[d["kind"]], s))


def reinit_history(r):
    ops, sh = rand_history(r, r.randrange(10, 30))
    if ops and foreign_untyped(ops, len(ops) - 1):
        return ops                       # ended on a type-confusion call (known finding): nothing after it is meaningful
    teardown(sh)
    sh.emit("hpend 0")
    # fresh cycle on the same process: every interface once more
    sh2 = Shadow(r)
    sh2.nslot = sh.nslot
    for s, d in sh.slots.items():
        sh2.slots[s] = dict(d, live=False)
    sh2.ops = sh.ops
    f = sh2.hopen(r.randrange(3), "w")
    for s in list(sh.slots):            # ids of the previous life: all stale now (or numerically re-issued to f)
        if sh.slots[s]["kind"] in ("an", "ann"):
            continue                    # AN id = file id: would be an AN call on f before ANstart (API misuse)
        if r.random() < 0.6:
            sh2.use(s)
    sh2.vstart(f)
    kids = [sh2.child(k, f) for k in ("aid", "vg", "vs", "gr", "an", "bit")]
    sd = sh2.sdstart(r.randrange(3), "r")
    kids.append(sh2.child("sds", sd))
    for s in list(sh2.slots):
        if sh2.slots[s]["live"]:        # (stale ids are not used here: SD/GR hold internal file, Vgroup and Vdata ids
            sh2.use(s)                  #  that the abstract table cannot see and that re-use the old numbers)
    teardown(sh2)
    for s in (f, sd):
        sh2.use(s)
    return sh2.ops


PARENT_FIRST = {
    # release of an interface / file while handles issued under it are live, then one use of the orphan.
    # Outcomes are API-precondition facts recorded as known findings (signature = scenario name).
    "vend-before-vdetach": ["hopen 0 0 w 1", "vstart 0", "vattach 1 0 0 r 1", "vend 0", "vname 1"],
    "vend-before-vsdetach": ["hopen 0 1 r 1", "vstart 0", "vsattach 1 0 1 r 1", "vend 0", "vsname 1"],
    "grend-before-grendaccess": ["hopen 0 2 r 1", "grstart 1 0 1", "grselect 2 1 0 1", "grend 1", "riinfo 2"],
    "hclose-before-grend": ["hopen 0 0 r 1", "grstart 1 0 1", "hclose 0", "grinfo 1", "grend 1"],
    "hclose-before-vend": ["hopen 0 1 r 1", "vstart 0", "vattach 1 0 1 r 1", "hclose 0", "vname 1", "vdetach 1", "vend 0"],
    "hclose-before-anend": ["hopen 0 1 r 1", "anstart 1 0 1", "anselect 2 1 0 1", "hclose 0", "annlen 2", "anend 1"],
}

MIX_CORPUS = [
    # DESIGN 8 #13: bit id used after Hendbitaccess
    ["hopen 0 0 r 1", "hbit 1 0 1 1", "hbitrd 1", "hbitend 1", "hbitrd 1", "hbitend 1", "hclose 0"],
    # two ids of one path; close the one an access element was started through
    ["hopen 0 1 r 1", "hopen 1 1 r 1", "hstart 2 0 1 r 1", "hclose 0", "hinq 2", "hread 2", "hend 2", "hclose 0", "hclose 1", "hfinq 1"],
    # GRstart twice on one file id, double GRend of the first
    ["hopen 0 2 r 1", "grstart 1 0 1", "grstart 2 0 1", "grend 1", "grinfo 1", "grend 1", "grinfo 2", "grend 2", "hclose 0"],
    # stale raster id as palette id
    ["hopen 0 0 r 1", "grstart 1 0 1", "grselect 2 1 0 1", "grendacc 2", "grlut 2", "grend 1", "hclose 0"],
    # V interface on ids that were never issued
    ["lit 0 123456", "vstart 0", "lit 1 536870989", "vstart 1", "vattach 2 1 0 r 0"],
    # re-initialisation after HPend
    ["hopen 0 0 w 1", "hclose 0", "hpend 0", "hopen 1 0 r 1", "hfinq 1", "hfinq 0", "hclose 1"],
    # positional SD ids (DESIGN 8 #15)
    ["sdstart 0 1 r 1", "sdselect 1 0 1 1", "sdendacc 1", "sdsinfo 1", "sdend 0", "sdsinfo 1"],
]


ISSUE_KIND = {"hopen": "file", "hstart": "aid", "hbit": "bit", "vattach": "vg", "vsattach": "vs", "grstart": "gr",
              "grselect": "ri", "anstart": "an", "anselect": "ann", "ancreate": "ann", "antagref": "ann", "sdstart": "sd", "sdselect": "sds", "sddim": "dim",
              "lit": "lit", "copy": "lit"}
# calls that look the id up without checking its atom group first (hfile.c, hbitio.c, mfan.c, Vstart/Vend)
UNTYPED = {"hclose": "file", "hfinq": "file", "vstart": "file", "vend": "file", "hstart": "file", "hbit": "file",
           "vattach": "file", "vsattach": "file", "grstart": "file", "anstart": "file", "hend": "aid", "hinq": "aid",
           "hread": "aid", "hbitend": "bit", "hbitrd": "bit", "aninfo": "an", "anend": "an", "anselect": "an",
           "antagref": "an", "ancreate": "an",
           "annlen": "ann", "anendacc": "ann"}
ATOM_KINDS = {"file", "aid", "bit", "vg", "vs", "gr", "ri", "an", "ann"}
GROUP_OF_KIND = {"file": 2, "aid": 1, "bit": 7, "vg": 3, "vs": 4, "gr": 5, "ri": 6, "an": 2, "ann": 8}


def slot_kinds(hist, upto):
    k = {}
    for l in hist[:upto]:
        t = l.split()
        if t[0] in ISSUE_KIND:
            k[t[1]] = ISSUE_KIND[t[0]]
    return k


def foreign_untyped(hist, i):
    """op i hands a call of UNTYPED an id that was issued as a handle of another atom group"""
    t = hist[i].split()
    if t[0] not in UNTYPED:
        return None
    arg = t[2] if t[0] in ISSUE_KIND else t[1]
    have = slot_kinds(hist, i).get(arg)
    want = UNTYPED[t[0]]
    if have == "lit":
        # a forged number that carries the group bits of another atom group may equal a live id of that group
        val = [int(l.split()[2]) for l in hist[:i] if l.split()[0] == "lit" and l.split()[1] == arg]
        g = ((val[-1] % (1 << 32)) >> 28) if val else 15
        if 0 <= g <= 8 and g != GROUP_OF_KIND[want]:       # group 0: the library's internal DD atoms (small integers)
            return "foreign-kind-id-to-untyped-call:" + want
        return None
    if have in ATOM_KINDS and have != want and not (have == "file" and want == "an") and not (have == "an" and want == "file"):
        return "foreign-kind-id-to-untyped-call:" + want
    return None


# known findings that are pure inquiries: the history is judged further after them
HARMLESS_KNOWN = {"an-id-is-the-file-id:aninfo", "anendaccess-accepts-any-id",
                  "sd-positional-id-accepted-after-release:sdsinfo", "sd-positional-id-accepted-after-release:sdsread",
                  "sd-positional-id-accepted-after-release:diminfo"}


def signature_of(hist, i, line, verdict_code):
    """Signature of a disagreement, computed from the failing call pattern only (never from ids)."""
    op = hist[i].split()[0]
    fk = foreign_untyped(hist, i)
    if fk:
        return fk
    if verdict_code == 1 and op in ("sdsinfo", "sdsread", "diminfo", "sddim", "sdendacc"):
        return "sd-positional-id-accepted-after-release:" + op
    if verdict_code == 1 and op == "anendacc":
        return "anendaccess-accepts-any-id"
    if verdict_code == 1 and op in ("aninfo", "anend", "anselect", "antagref", "ancreate"):
        return "an-id-is-the-file-id:" + op
    return None


def run_mixed(ctx):
    r = ctx.rng
    quick = ctx.tier == "quick"
    hists = [("corpus", list(h)) for h in MIX_CORPUS]
    cdir = os.path.join(vc.VERIF, "corpus", "C13")
    for p in sorted(os.listdir(cdir)) if os.path.isdir(cdir) else []:
        if p.endswith(".hist"):
            hists.append(("corpus", [l.strip() for l in open(os.path.join(cdir, p)) if l.strip() and not l.startswith("#") and l.strip() != "N"]))
    fams = ["aid", "bit", "vg", "vs", "gr", "an", "sd"]
    for fam in fams:
        for k in range(24 if quick else 24 * 6):
            hists.append(("order:" + fam, fam_history(r, fam, perm_index=k)))
    for k in range(60 if quick else 600):
        hists.append(("xfile", xfile_history(r, k)))
    for k in range(36 if quick else 360):
        hists.append(("sdtab", sdtab_history(r, k)))
    for k in range(36 if quick else 360):
        hists.append(("deny", deny_history(r, k)))
    for k in range(16 if quick else 160):
        hists.append(("ann", ann_history(r, k)))
    for k in range(32 if quick else 320):
        hists.append(("vsmode", vsmode_history(r, k)))
    for k in range(150 if quick else 3000):
        hists.append(("random", rand_history(r, r.randrange(15, 70))[0]))
    for k in range(12 if quick else 150):
        hists.append(("reinit", reinit_history(r)))
    npf = len(hists)
    for name, h in PARENT_FIRST.items():
        hists.append(("parent-first:" + name, list(h)))
    exe = ctx.harness("drive_handles", ["drive_handles.c"], wraps=["fopen"])
    mod = ctx.model("atom_model", ["atom_main.ml"], ["atom_model"])
    wd = tempfile.mkdtemp(prefix="c13w-", dir=os.path.join(ctx.bdir, "harness"))
    try:
        tmp = os.path.join(wd, "mixed.in")
        with open(tmp, "w") as fh:
            for _, h in hists:
                fh.write("N\n" + "\n".join(h) + "\n")
        rc, R = vc.run_lines(exe, tmp, timeout=1500, args=[wd])
        keep = [l for l in R if re.match(r"^(N$|CRASH|PREPFAIL|-|Z -?\d|[OIULP] \d)", l)]
        Rh = split_hist(keep)
        if any(l.startswith("PREPFAIL") for l in R) or len(Rh) != len(hists):
            ctx.violation("mixed-history harness did not run (%d of %d histories)" % (len(Rh), len(hists)),
                          "\n".join(R[-30:]), found=False, suffix="txt")
            return
        mon = os.path.join(wd, "mon.in")
        with open(mon, "w") as fh:
            for rl in Rh:
                fh.write("N\n" + "\n".join(l for l in rl if re.match(r"^[OIULP] ", l)) + "\n")
        _, V = vc.run_lines(mod, mon, timeout=900, args=["ht"])
        Vh = split_hist(V)
    finally:
        asan_tail = [l for l in R if "ERROR: AddressSanitizer" in l or "runtime error" in l] if "R" in dir() else []
        shutil.rmtree(wd, ignore_errors=True)
    stats = {"histories": len(hists), "ops": 0, "by_class": {}, "by_op": {}, "library_fail_answers": 0, "library_ok_answers": 0,
             "verdict_bad": {}, "crashes": 0, "sanitizer_reports": len(asan_tail), "known_finding_hits": {}}
    for hi, (cls, h) in enumerate(hists):
        stats["by_class"][cls.split(":")[0]] = stats["by_class"].get(cls.split(":")[0], 0) + 1
        rl, vl = Rh[hi], Vh[hi] if hi < len(Vh) else []
        crashed = any(l.startswith("CRASH") for l in rl)
        rl = [l for l in rl if not l.startswith("CRASH")]
        vi = 0
        reported = False
        for i, op in enumerate(h):
            if i >= len(rl):
                break
            stats["ops"] += 1
            o = op.split()[0]
            stats["by_op"][o] = stats["by_op"].get(o, 0) + 1
            ctx.case(("mix", hi, i, op), rl[i] != "-",
                     sample={"class": cls, "history": h[:10], "op": op, "library": rl[i]} if (hi * 17 + i) % 2999 == 0 else None)
            if not re.match(r"^[OIULP] ", rl[i]):
                continue
            stats["library_fail_answers" if rl[i].endswith(" F") else "library_ok_answers"] += 1
            v = vl[vi] if vi < len(vl) else "V missing"
            vi += 1
            if v.startswith("V bad"):
                code = int(v.split()[2])
                stats["verdict_bad"][BADCODE[code]] = stats["verdict_bad"].get(BADCODE[code], 0) + 1
                sig = ("parent-first:" + cls.split(":", 1)[1]) if cls.startswith("parent-first:") else signature_of(h, i, rl[i], code)
                if sig and ctx.match_known(sig):
                    stats["known_finding_hits"][sig] = stats["known_finding_hits"].get(sig, 0) + 1
                if reported and not sig:
                    continue
                nv = len(ctx.violations)
                ctx.violation("handle table: %s at op %d (%s) of a %s history; library line: %s" % (BADCODE[code], i, op, cls, rl[i]),
                              "# C13 mixed-history replay (bin/check C13 --replay <this file>); class %s\n"
                              "# verdict of the abstract handle table at op %d (%s): %s; library: %s\nN\n%s"
                              % (cls, i, op, BADCODE[code], rl[i], "\n".join(h[:i + 1])), found=True, signature=sig)
                if len(ctx.violations) > nv:
                    reported = True
                if len(ctx.violations) == nv and sig in HARMLESS_KNOWN and rl[i].startswith("U "):
                    continue         # an inquiry the library answers by design: neither side's table changes
                break                # later verdicts of this history depend on a state the library has left
        if crashed:
            stats["crashes"] += 1
            k = min(len(rl), len(h) - 1)
            sig = ("parent-first:" + cls.split(":", 1)[1]) if cls.startswith("parent-first:") else foreign_untyped(h, k)
            if sig is None:              # a type-confusion call earlier in the history may have damaged the record
                for kk in range(k):
                    sig = sig or foreign_untyped(h, kk)
            if sig and ctx.match_known(sig):
                stats["known_finding_hits"][sig] = stats["known_finding_hits"].get(sig, 0) + 1
            if not reported:
                ctx.violation("sanitizer report / crash in the library at op %d (%s) of a %s history" % (k, h[k], cls),
                              "# C13 mixed-history replay; the library aborted (ASan/UBSan or signal) during the last op\nN\n" +
                              "\n".join(h[:k + 1]), found=True, signature=sig)
        if len(ctx.violations) >= 4:
            break
    ctx.corr("H/V/VS/GR/AN/SD~handle-table", **stats)
    run_cdftab(ctx, hists, Rh, mod)


def run_cdftab(ctx, hists, Rh, mod):
    """R vs M for the table of open SD files: positions chosen by NC_open, results of NC_reset_maxopenfiles"""
    if any(v["found"] for v in ctx.violations):
        return
    evs, inp = [], []
    for hi, (cls, h) in enumerate(hists):
        rl = [l for l in Rh[hi] if not l.startswith("CRASH")]
        lim, ev = 20000, []
        for l in rl:
            if l.startswith("Z "):
                lim = int(l.split()[3])
        for i, l in enumerate(rl):
            t = l.split()
            if t[0] == "O" and t[1] == "9" and t[-1] != "F":
                ev.append(("o %s %d" % (t[2], lim), (int(t[-1]) >> 20) & 0xfff, i))
            elif t[0] == "L" and t[1] == "9" and t[-1] != "F":
                ev.append(("c %d %d" % ((int(t[2]) >> 20) & 0xfff, lim), 0, i))
            elif t[0] == "Z":
                ev.append(("r %s %d" % (t[1], lim), int(t[2]), i))
        evs.append(ev)
        inp.append("N\n" + "".join(e[0] + "\n" for e in ev))
    tmp = os.path.join(ctx.bdir, "harness", "c13_ct_%d.in" % os.getpid())
    open(tmp, "w").write("".join(inp))
    _, T = vc.run_lines(mod, tmp, timeout=600, args=["ct"])
    os.unlink(tmp)
    Th = split_hist(T)
    stats = {"opens": 0, "closes": 0, "requests": 0, "requests_accepted": 0, "requests_refused": 0, "mismatch": 0}
    for hi, ev in enumerate(evs):
        tl = Th[hi] if hi < len(Th) else []
        for j, (line, rres, i) in enumerate(ev):
            k = line[0]
            stats["opens" if k == "o" else "closes" if k == "c" else "requests"] += 1
            mres = tl[j].split()[1] if j < len(tl) else "missing"
            if k == "r":
                stats["requests_accepted" if str(rres) == line.split()[1] else "requests_refused"] += 1
            if mres != str(rres):
                stats["mismatch"] += 1
                if stats["mismatch"] == 1:
                    ctx.violation("table of open SD files: library differs from the model (relation NC_open / ncclose / "
                                  "NC_reset_maxopenfiles ~ AtomModel.ct_step) at op %d (%s): library %s, model %s; no id was "
                                  "found to misbehave" % (i, hists[hi][1][i] if i < len(hists[hi][1]) else "?", rres, mres),
                                  "# C13 cdf-table correspondence broken; no failing input found\nN\n" +
                                  "\n".join(hists[hi][1][:i + 1]), found=False)
                break
    ctx.corr("NC_open/ncclose/NC_reset_maxopenfiles~AtomModel.ct_step", **stats)


def split_hist(lines):
    out, cur = [], None
    for l in lines:
        if l.strip() == "N":
            if cur is not None:
                out.append(cur)
            cur = []
        elif cur is not None:
            cur.append(l)
    if cur is not None:
        out.append(cur)
    return out


def run_wrap(ctx):
    """thorough tier: theorem atom_wrap_refuted replayed on the real library (2^28 register/remove pairs)."""
    exe = ctx.harness("drive_atom", ["drive_atom.c"])
    tmp = os.path.join(ctx.bdir, "harness", "c13_wrap_%d.in" % os.getpid())
    hist = ["I 3 64", "R 3 1", "W 3 268435455", "L @1"]
    open(tmp, "w").write("N\n" + "\n".join(hist) + "\n")
    rc, R = vc.run_lines(exe, tmp, timeout=3000)
    os.unlink(tmp)
    rl = [l for l in R if l.startswith("R ")]
    stats = {"ran": len(rl) == 4}
    if len(rl) == 4:
        first, again, obj = rl[1].split()[1], rl[2].split()[1], rl[3].split()[1]
        stats.update(first_id=first, id_after_2p28=again, lookup_of_first_id=obj)
        ctx.case(("wrap", first, again), True)
        if first == again:
            ctx.violation("atom id counter wrapped: the 2^28-th registration re-issued live id %s (its lookup now returns object %s, "
                          "registered object was 1)" % (first, obj),
                          "# C13 atom replay (thorough tier; 2^28 register/remove pairs)\nN\n" + "\n".join(hist),
                          found=True, signature="atom-id-wrap-2^28", suffix="atom")
    ctx.corr("atom_wrap_refuted~library", **stats)


def run(ctx):
    run_atoms(ctx)
    run_mixed(ctx)
    if ctx.tier == "thorough":
        run_wrap(ctx)


def replay(ctx, path):
    lines = [l.rstrip("\n") for l in open(path) if l.strip() and not l.startswith("#")]
    tmp = path + ".in"
    open(tmp, "w").write("\n".join(lines) + "\n")
    if path.endswith(".atom"):
        exe = ctx.harness("drive_atom", ["drive_atom.c"])
        mod = ctx.model("atom_model", ["atom_main.ml"], ["atom_model"])
        rc, R = vc.run_lines(exe, tmp)
        _, M = vc.run_lines(mod, tmp, args=["atom"])
        R = [l for l in R if l.startswith(("R ", "CRASH"))]
        Ml = [l for l in M if l.startswith("M ")]
        Sl = [l for l in M if l.startswith("S ")]
        bad = 0
        for i, op in enumerate([l for l in lines if l != "N"]):
            rl = R[i] if i < len(R) else "R (crashed)"
            print("%-12s %s\n%-12s %s\n%-12s %s" % (op, rl, "", Ml[i] if i < len(Ml) else "", "", Sl[i] if i < len(Sl) else ""))
            if i >= len(R) or (i < len(Sl) and Sl[i].split()[2] == "ok" and rl.split("|")[0].split()[1] != Sl[i].split()[1]):
                bad = 1
        os.unlink(tmp)
        print("replay: %s" % ("library differs from specification" if bad else "agree"))
        return bad
    # mixed history: library trace, monitor verdicts side by side
    exe = ctx.harness("drive_handles", ["drive_handles.c"], wraps=["fopen"])
    mod = ctx.model("atom_model", ["atom_main.ml"], ["atom_model"])
    wd = tempfile.mkdtemp(prefix="c13r-", dir=os.path.join(ctx.bdir, "harness"))
    bad = 0
    try:
        rc, R = vc.run_lines(exe, tmp, timeout=300, args=[wd])
        keep = [l for l in R if re.match(r"^(CRASH|-|Z -?\d|[OIULP] \d)", l)]
        mon = os.path.join(wd, "mon.in")
        open(mon, "w").write("N\n" + "\n".join(l for l in keep if re.match(r"^[OIULP] ", l)) + "\n")
        _, V = vc.run_lines(mod, mon, args=["ht"])
        V = [l for l in V if l.startswith("V ")]
        vi = 0
        ops = [l for l in lines if l != "N"]
        for i, op in enumerate(ops):
            rl = keep[i] if i < len(keep) else "(library aborted)"
            v = ""
            if re.match(r"^[OIULP] ", rl):
                v = V[vi] if vi < len(V) else ""
                vi += 1
            print("%-28s library: %-44s handle table: %s" % (op, rl, v))
            if v.startswith("V bad") or i >= len(keep):
                bad = 1
        for l in R:
            if "ERROR: AddressSanitizer" in l or "runtime error" in l or l.startswith("CRASH"):
                print(l)
                bad = 1
    finally:
        shutil.rmtree(wd, ignore_errors=True)
        os.unlink(tmp)
    print("replay: %s" % ("library violates the handle table / aborted" if bad else "agree"))
    return bad
