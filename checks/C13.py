"""C13 -- handle safety.
(a) atom table: HA* of the real library (atom.c #included, static state dumped after every call) vs the Coq
    implementation model M (state-for-state) vs the finite-map specification S (results);
(b) mixed histories over H / Hbit / V / VS / GR / AN / SD (ASan build): the library's answers are judged by the
    abstract handle table (h_step of AtomModel.v, extracted);
(c) the file reference-count machine FM vs Hopen/Hclose/Hstartaccess/Hendaccess."""
import itertools
import os
import re
import shutil
import tempfile
import vcommon as vc

RULE = ("(a) atom histories from one PRNG (VERIF_SEED): 1-3 groups (valid and invalid numbers), hash sizes 1..16 and "
        "invalid ones, register / lookup / remove / search / group / nested init / destroy + re-init, lookups of live, "
        "removed, never-issued, foreign-group and neighbouring ids, repeated lookups that walk the 4-entry cache; "
        "compared state-for-state (result, cache, counters, every bucket) with the model and result-for-result with "
        "the finite map.  (b) mixed histories: every release order of <= 4 handles of each interface family, double "
        "release, use after release, ids of another interface / file / never issued, nested opens of one path in "
        "different modes, interleavings over up to 3 files, full teardown followed by HPend and a fresh cycle; each "
        "answer of the library is judged by the abstract handle table.  (c) file machine histories (open/close/"
        "start/end, shared paths).  A case is one call; distinct by (history text, position)")
TRUSTED = ["Coq 8.16.1 kernel (no native_compute; vm_compute only in Examples)",
           "translator gen/gen_consts.py + plugin gen/plugins/c13_atom.py (kinds consts, enums; plugin: atom.c id macros "
           "with sizeof(atom_t) taken from the typedef, HAinit_group call sites, hfile.c reference-count statements, "
           "mfsd.c id expressions) run through gcc -E",
           "extraction: Require Extraction + ExtrOcamlBasic only; Z/positive/nat extracted as inductives",
           "OCaml driver extract/atom_main.ml, C harnesses harness/drive_atom.c and harness/drive_handles.c, generators "
           "and comparison in checks/C13.py",
           "modelled, not verified: the glue between the atom table and each interface (vgp.c, vio.c, mfgr.c, mfan.c, "
           "mfsd.c instance tables) is observed through the mixed histories only; memory safety is observed by "
           "ASan/UBSan on the explored histories, never proved"]
ASSUMPTIONS = ["objects registered in the atom table are non-NULL pointers (a NULL object is indistinguishable from failure)",
               "fewer than 2^28 registrations per group lifetime (beyond that: theorem atom_wrap_refuted, known finding)",
               "mixed histories release an interface (Vend/GRend/ANend/SDend) only after the handles issued under it, "
               "except in the separate parent-first stream whose outcomes are recorded as known findings",
               "malloc does not fail"]

GROUPS = 9


# --------------------------------------------------------------------------------------------------
# (a) atom histories
# --------------------------------------------------------------------------------------------------

def gen_atom_history(r, big=False):
    """Returns list of op strings.  The generator keeps only a light shadow (which op indices returned ids that
    are probably live) to steer the weights."""
    ops = []
    ngroups = r.choice([1, 1, 2, 3])
    groups = r.sample(range(GROUPS), ngroups)
    hs = {g: r.choice([1, 2, 2, 4, 4, 8, 16]) for g in groups}
    for g in groups:
        ops.append("I %d %d" % (g, hs[g]))
    live, dead = [], []          # op indices whose result is an id
    nops = r.randrange(8, 70 if big else 45)
    hot = []
    for _ in range(nops):
        x = r.random()
        g = r.choice(groups)
        if x < 0.30:
            ops.append("R %d %d" % (g, r.randrange(1, 60)))
            live.append(len(ops) - 1)
            if len(hot) < 5 and r.random() < 0.5:
                hot.append(len(ops) - 1)
        elif x < 0.62:
            y = r.random()
            if y < 0.45 and hot:
                ops.append("L @%d" % r.choice(hot))
            elif y < 0.65 and live:
                ops.append("L @%d" % r.choice(live))
            elif y < 0.80 and dead:
                ops.append("L @%d" % r.choice(dead))
            else:
                ops.append("L %d" % garbage_id(r, groups, hs))
        elif x < 0.78:
            y = r.random()
            if y < 0.6 and live:
                k = r.choice(live)
                live.remove(k)
                dead.append(k)
                ops.append("X @%d" % k)
            elif y < 0.8 and dead:
                ops.append("X @%d" % r.choice(dead))
            else:
                ops.append("X %d" % garbage_id(r, groups, hs))
        elif x < 0.84:
            ops.append("S %d %d" % (r.choice(groups + [-1, 9]), r.randrange(1, 60)))
        elif x < 0.88:
            ops.append("G @%d" % r.choice(live) if live and r.random() < 0.5 else "G %d" % garbage_id(r, groups, hs))
        elif x < 0.92:
            ops.append("I %d %d" % (r.choice(groups + [-1, 9, 12, r.randrange(GROUPS)]), r.choice([0, 1, 2, 3, 4, 6, 8, 16, 64])))
        elif x < 0.97:
            ops.append("D %d" % r.choice(groups + [-1, 9, r.randrange(GROUPS)]))
        else:
            # destroy + re-initialise: the counter restarts, earlier ids are numerically re-issued
            ops.append("D %d" % g)
            ops.append("I %d %d" % (g, hs[g]))
            ops.append("R %d %d" % (g, r.randrange(60, 90)))
            live.append(len(ops) - 1)
    return ops


def garbage_id(r, groups, hs):
    g = r.choice(groups)
    base = (g << 28) if g < 8 else (g << 28) - (1 << 32)
    return r.choice([-1, 0, 1, base, base + 1, base + r.randrange(0, 40), base + hs[g], base + (1 << 28) - 1,
                     (base + r.randrange(0, 6)) ^ (1 << 28), (base + r.randrange(0, 6)) ^ (3 << 28),
                     r.randrange(-2 ** 31, 2 ** 31), 2 ** 31 - 1, -2 ** 31])


ATOM_CORPUS = [
    # cache coherence across destroy + re-init (same id, new object)
    ["I 2 4", "R 2 11", "L @1", "L @1", "D 2", "L @1", "I 2 4", "R 2 12", "L @7"],
    # remove an id that sits in each cache slot
    ["I 1 2", "R 1 1", "R 1 2", "R 1 3", "R 1 4", "L @1", "L @1", "L @2", "L @2", "L @3", "L @3", "L @4", "X @1", "L @1",
     "X @2", "L @2", "X @3", "L @3", "X @4", "L @4"],
    # hash collisions: chain of 5 in one bucket, remove middle / head / tail
    ["I 3 1", "R 3 1", "R 3 2", "R 3 3", "R 3 4", "R 3 5", "X @3", "L @3", "X @5", "L @5", "X @1", "L @1", "L @2", "L @4"],
    # foreign group, -1, group 8 (negative ids)
    ["I 8 2", "I 0 2", "R 8 9", "R 0 8", "L @2", "L @3", "L -1", "G @2", "G -1", "X -1", "L 268435456", "S 8 9", "S 0 9"],
]


def run_atoms(ctx):
    r = ctx.rng
    n = 250 if ctx.tier == "quick" else 5000
    hists = [list(h) for h in ATOM_CORPUS]
    cdir = os.path.join(vc.VERIF, "corpus", "C13")
    for p in sorted(os.listdir(cdir)) if os.path.isdir(cdir) else []:
        if p.endswith(".atom"):
            hists.append([l.strip() for l in open(os.path.join(cdir, p)) if l.strip() and not l.startswith("#") and l.strip() != "N"])
    hists += [gen_atom_history(r, big=(i % 7 == 0)) for i in range(n)]
    exe = ctx.harness("drive_atom", ["drive_atom.c"])
    mod = ctx.model("atom_model", ["atom_main.ml"], ["atom_model"])
    tmp = os.path.join(ctx.bdir, "harness", "c13_atoms_%d.in" % os.getpid())
    with open(tmp, "w") as fh:
        for h in hists:
            fh.write("N\n" + "\n".join(h) + "\n")
    rc, R = vc.run_lines(exe, tmp, timeout=900)
    rcm, MS = vc.run_lines(mod, tmp, timeout=900, args=["atom"])
    os.unlink(tmp)
    Rh, Mh = split_hist(R), split_hist(MS)
    stats = {"histories": len(hists), "ops": 0, "by_op": {}, "lookups_hit": 0, "lookups_miss": 0, "register_fail": 0,
             "nodomain_ops": 0, "cache_hits_slot": [0, 0, 0, 0], "max_chain": 0, "crashes": 0}
    for hi, h in enumerate(hists):
        rl = Rh[hi] if hi < len(Rh) else []
        ml = Mh[hi] if hi < len(Mh) else []
        m_lines = [l for l in ml if l.startswith("M ")]
        s_lines = [l for l in ml if l.startswith("S ")]
        crashed = any(l.startswith("CRASH") for l in rl) or len([l for l in rl if l.startswith("R ")]) < len(h)
        r_lines = [l for l in rl if l.startswith("R ")]
        if crashed:
            stats["crashes"] += 1
            ctx.violation("atom harness crashed (sanitizer report or signal) in history %d" % hi,
                          "# C13 atom replay\nN\n" + "\n".join(h) + "\n# library output:\n# " + "\n# ".join(rl[-12:]),
                          found=True, suffix="atom")
            continue
        for i, op in enumerate(h):
            stats["ops"] += 1
            stats["by_op"][op[0]] = stats["by_op"].get(op[0], 0) + 1
            rres = r_lines[i].split("|")[0].split()[1]
            sres, sdom = s_lines[i].split()[1], s_lines[i].split()[2]
            if op[0] == "L":
                stats["lookups_hit" if rres != "0" else "lookups_miss"] += 1
            if op[0] == "R" and rres == "-1":
                stats["register_fail"] += 1
            for b in re.findall(r":([^;}]*)", r_lines[i].split("|", 2)[-1]):
                stats["max_chain"] = max(stats["max_chain"], b.count("=") )
            ctx.case(("atom", hi, i, tuple(h[:i + 1]) if i < 6 else (hi, i, op)), True,
                     sample={"history": h[:8], "op": op, "library": r_lines[i][:100]} if (hi * 31 + i) % 1499 == 0 else None)
            if sdom != "ok":
                stats["nodomain_ops"] += 1
            elif rres != sres:
                sig = None
                ctx.violation("atom table: library result differs from the finite-map specification at op %d (%s): library %s, spec %s"
                              % (i, op, rres, sres),
                              "# C13 atom replay (bin/check C13 --replay <this file>)\nN\n" + "\n".join(h[:i + 1]) +
                              "\n# spec   : " + s_lines[i] + "\n# model  : " + m_lines[i] + "\n# library: " + r_lines[i],
                              found=True, signature=sig, suffix="atom")
                break
            if r_lines[i][2:].strip() != m_lines[i][2:].strip():
                ctx.violation("atom table: library state differs from the implementation model (relation HA* ~ AtomModel.m_step) "
                              "at op %d (%s); results agree with the specification" % (i, op),
                              "# C13 atom correspondence broken; no input with a wrong result found\nN\n" + "\n".join(h[:i + 1]) +
                              "\n# model  : " + m_lines[i] + "\n# library: " + r_lines[i], found=False, suffix="atom")
                break
        if len(ctx.violations) >= 3:
            break
    ctx.corr("HA*~AtomModel.m_step~s_step", **stats)


def split_hist(lines):
    out, cur = [], None
    for l in lines:
        if l.strip() == "N":
            if cur is not None:
                out.append(cur)
            cur = []
        elif cur is not None:
            cur.append(l)
    if cur is not None:
        out.append(cur)
    return out


def run(ctx):
    run_atoms(ctx)


def replay(ctx, path):
    lines = [l.rstrip("\n") for l in open(path) if l.strip() and not l.startswith("#")]
    tmp = path + ".in"
    open(tmp, "w").write("\n".join(lines) + "\n")
    if path.endswith(".atom"):
        exe = ctx.harness("drive_atom", ["drive_atom.c"])
        mod = ctx.model("atom_model", ["atom_main.ml"], ["atom_model"])
        rc, R = vc.run_lines(exe, tmp)
        _, M = vc.run_lines(mod, tmp, args=["atom"])
        R = [l for l in R if l.startswith(("R ", "CRASH"))]
        Ml = [l for l in M if l.startswith("M ")]
        Sl = [l for l in M if l.startswith("S ")]
        bad = 0
        for i, op in enumerate([l for l in lines if l != "N"]):
            rl = R[i] if i < len(R) else "R (crashed)"
            print("%-12s %s\n%-12s %s\n%-12s %s" % (op, rl, "", Ml[i] if i < len(Ml) else "", "", Sl[i] if i < len(Sl) else ""))
            if i >= len(R) or (i < len(Sl) and Sl[i].split()[2] == "ok" and rl.split("|")[0].split()[1] != Sl[i].split()[1]):
                bad = 1
        os.unlink(tmp)
        print("replay: %s" % ("library differs from specification" if bad else "agree"))
        return bad
    os.unlink(tmp)
    return 2
