"""C02 -- every file written is a well-formed, independently readable HDF4 file.
R = files written by the real library (harness/drive_fmt.c) and what its own read calls / raw-location queries
return; S = coq/FmtSpec.v extracted to OCaml (h4read, extract/fmt_main.ml) applied to the bytes of the same
files; M = coq/FmtModel.v (the writers' encoders and the HLgetdatainfo loop) compared with R at function level:
every DD block, description record, block table, Vdata header and Vgroup the library wrote is parsed by S,
re-encoded by M and must give the library's bytes back; M's HLgetdatainfo must give the library's answers."""
import os
import re
import shutil
import vcommon as vc

RULE = ("histories of 1-3 sessions (H/V level, SD, GR, DFSD) on one file, later sessions EDIT objects of earlier ones (one "
        "Hwrite into a linked-block element across existing block-table boundaries with new blocks after the crossing, "
        "vgroup members removed first/middle/last with and without deleting the object, vdata and unlimited data sets "
        "appended, two unlimited data sets with different record counts, old-style label/unit/format strings with "
        "empty dimensions, SD attributes and annotations); just before every close the writing session's own reads are "
        "dumped and must equal h4read's view of the closed bytes; 4-14 building operations per session drawn from "
        "one PRNG (VERIF_SEED): Hputelement, HLcreate with 1-4 writes (block lengths 1..9, table sizes 1..4), appends "
        "that promote an element to linked blocks, HXcreate, HCcreate (none/RLE/n-bit/skipping-Huffman/deflate), "
        "linked blocks written at positions (rewrites, seeks past the end that leave never-written blocks), "
        "HMCcreate (1-3 dims, partial last chunks, unwritten chunks, optional RLE/deflate), Hdupdd, Hdeldd, Vdata "
        "create/append/attributes, Vgroups with members and attributes, annotations, Hsync+flush snapshots; SDS "
        "contiguous / chunked / compressed / unlimited with block size; GR images plain / compressed / chunked; ndds in "
        "{4,5,16}; cache on/off.  After the last close every file is dumped through the library's read calls and "
        "through h4read; raw-location queries use info_count in {NULL arrays, 1, n-1, n, n+3} with exact-size heap "
        "arrays under ASan.  A history is non-trivial when its file holds >= 1 special element or Vdata/Vgroup and all "
        "dump lines were compared; distinct by operation text")
TRUSTED = ["Coq 8.16.1 kernel", "extraction (ExtrOcamlBasic only; Z/positive/nat inductive)",
           "OCaml driver extract/fmt_main.ml (h4read; also runs the model's encoders and the HLgetdatainfo model); C "
           "harness harness/drive_fmt.c (dump in a fresh process per file); generator and comparison in checks/C02.py",
           "translator gen_consts.py + plugin gen/plugins/fmt_codec.py (constants, BASETAG/SPECIALTAG macros, the "
           "ENCODE/DECODE statement macros, order of encode calls in the record writers)",
           "zlib: deflate streams are inflated by python3's zlib module on h4read's behalf",
           "n-bit and skipping-Huffman streams are not decoded by h4read (structure only; decoded content is C05's)",
           "SD/GR convention layer: only the NDG -> SD data and RI-vgroup -> RI links are interpreted by h4read"]
EXPLANATION = ("C02 claims DD level + special elements + Vdata/Vgroup records in full; of the SD/GR convention layer "
               "h4read interprets only the NDG -> SD-data and RI-vgroup -> RI links (enough to compare SDreaddata / "
               "GRreadimage / SDgetdatainfo / GRgetdatainfo with the bytes); dimension / attribute conventions are "
               "checked only as the Vdatas and Vgroups they are stored in")
ASSUMPTIONS = ["files are produced by this suite's generators; sizes < 2^31 (C20)",
               "the file is not modified between the library's close and h4read's read",
               "JPEG / IMCOMP / szip are outside the equality claim",
               "no append through a descriptor that has an alias made by Hdupdd (the library extends the element in "
               "place and the alias then covers a prefix of it: overlapping, unequal extents by design; C01 excludes "
               "writes through aliased descriptors for the same reason)"]

NT = {20: 1, 21: 1, 22: 2, 23: 2, 24: 4, 25: 4, 5: 4, 6: 8, 4: 1}


def hexs(b):
    return "".join("%02x" % x for x in b) if b else "-"


def hx(s):
    return hexs(list(s.encode())) if s else "-"


def rbytes(r, n):
    style = r.randrange(4)
    if style == 0:
        return [r.randrange(1, 255)] * n
    if style == 1:
        s = r.randrange(256)
        return [(s + i // 3) & 255 for i in range(n)]
    return [r.randrange(256) for _ in range(n)]


# attribute names: proper prefixes of one another on purpose (a lookup by name must compare whole names), set in
# either order
ATTR_NAMES = ["units", "units_long", "valid_range", "valid_range_ext", "a", "ab", "abc", "long_name", "title"]


def attr_names(r, k):
    """k distinct names, biased towards pairs where one is a proper prefix of another that comes EARLIER"""
    pairs = [("units_long", "units"), ("valid_range_ext", "valid_range"), ("abc", "ab"), ("ab", "a")]
    out = []
    if k >= 2 and r.random() < 0.7:
        lo, sh = r.choice(pairs)
        out = [lo, sh] if r.random() < 0.7 else [sh, lo]
    while len(out) < k:
        n = r.choice(ATTR_NAMES)
        if n not in out:
            out.append(n)
    return out[:k]


def gen_coords(nch):
    out = [[]]
    for n in nch:
        out = [o + [i] for o in out for i in range(n)]
    return out


class Gen:
    def __init__(self, r, name):
        self.r = r
        self.lines = ["history " + name]
        self.refs = {}
        self.plain = []     # (tag, ref) of plain elements
        self.any = []       # all elements
        self.vs = 0
        self.vg = 0
        self.exts = []
        self.napp = 0
        self.aliased = set()   # elements that have an alias: never appended to (see ASSUMPTIONS)
        self.comps = {}        # compressed elements whose first content compresses well: (tag, ref) -> length
        self.cchunks = {}      # chunked + compressed elements: (tag, ref) -> (nd, chunk bytes, chunks written, all coords)
        self.sdcc = {}         # chunked + compressed data sets: index -> (nt, rank, dims)
        self.lbinfo = {}       # linked-block elements made by 'lb'/'lbs': (tag, ref) -> (bl, nb, length)
        self.vgmem = {}        # vgroup slot -> current number of members
        self.vglist = {}       # vgroup slot -> member keys in order: ('vs', i) / ('vg', i) / (tag, ref)
        self.dead = set()      # member keys whose object was deleted
        self.members = set()   # (tag, ref) named by some vgroup: never deleted behind the vgroup's back
        self.nsds = 0          # data sets in the file, in SDselect order
        self.unlim = {}        # index -> (nt, rank, dims incl. current records)
        self.touched_after_close = {}

    def newref(self, tag):
        self.refs[tag] = self.refs.get(tag, 0) + 1
        return self.refs[tag]

    def h_session(self, F, snap_to=None, knobs=None, edit=False):
        r = self.r
        L = self.lines
        ndds = r.choice([4, 4, 5, 16])
        L.append("hopen %d %d %d" % (F, ndds, r.choice([0, 1, 1])))
        nops = r.randrange(4, 15)
        vs_slots = list(range(self.vs))
        for _ in range(nops):
            k = r.random()
            tag = r.choice([1100, 1101, 1102, 1103])
            if knobs:
                k = r.choice(knobs)
            if edit and r.random() < 0.45:
                self.edit_op(F)
                continue
            if k < 0.14:
                ref = self.newref(tag)
                L.append("put %d %d %d %s" % (F, tag, ref, hexs(rbytes(r, r.choice([0, 1, 2, 5, 9, 16, 33, 60])))))
                self.plain.append((tag, ref))
                self.any.append((tag, ref))
            elif k < 0.30:
                ref = self.newref(tag)
                bl, nb = r.choice([1, 2, 3, 4, 5, 7, 9]), r.choice([1, 1, 2, 3, 4])
                nw = r.choice([0, 1, 1, 2, 3, 4])
                ws = [hexs(rbytes(r, r.choice([1, bl, bl + 1, bl * nb, bl * nb + 1, r.randrange(1, 3 * bl * nb + 2)]))) for _ in range(nw)]
                L.append("lb %d %d %d %d %d %d %s" % (F, tag, ref, bl, nb, nw, " ".join(ws)))
                self.any.append((tag, ref))
                self.lbinfo[(tag, ref)] = (bl, nb, sum(0 if w == "-" else len(w) // 2 for w in ws))
            elif k < 0.33:
                # linked blocks written at positions: backwards rewrites, and seeks past the end that leave holes
                ref = self.newref(tag)
                bl, nb = r.choice([1, 2, 3, 4, 5]), r.choice([1, 2, 3])
                nw = r.choice([1, 2, 3])
                pos, ws = 0, []
                for _ in range(nw):
                    n = r.choice([1, bl, bl + 1, 2 * bl])
                    ws.append("%d %s" % (pos, hexs(rbytes(r, n))))
                    pos = r.choice([pos + n, pos + n, max(0, pos - 1), pos + n + r.choice([1, bl, bl * nb, 2 * bl * nb])])
                L.append("lbs %d %d %d %d %d %d %s" % (F, tag, ref, bl, nb, nw, " ".join(ws)))
                self.any.append((tag, ref))
            elif k < 0.36:
                cand = [e for e in self.plain if e not in self.aliased]
                if cand and self.napp < 2:
                    t, rf = r.choice(cand)
                    L.append("app %d %d %d %s" % (F, t, rf, hexs(rbytes(r, r.choice([1, 3, 8])))))
                    self.napp += 1
                    self.members.add((t, rf))   # may have become linked blocks: Hdeldd would leave them behind
            elif k < 0.42:
                ref = self.newref(tag)
                nm = "x%d_%s.dat" % (len(self.exts), self.lines[0].split()[1])
                self.exts.append(nm)
                L.append("ext %d %d %d %s %d %s" % (F, tag, ref, nm, r.choice([0, 0, 3, 10]), hexs(rbytes(r, r.choice([1, 4, 20])))))
                self.any.append((tag, ref))
            elif k < 0.56:
                ref = self.newref(tag)
                coder = r.choice([0, 1, 1, 4, 4, 2, 3])
                p = {0: 0, 1: 0, 2: r.choice([3, 5, 8]), 3: r.choice([1, 2, 4]), 4: r.choice([1, 6, 9])}[coder]
                n = r.choice([0, 1, 2, 3, 4, 8, 20, 40, 130, 260]) if coder != 3 else r.choice([4, 8, 16])
                data = rbytes(r, n)
                if coder in (0, 1, 4) and n >= 8 and r.random() < 0.6:
                    data = [r.randrange(256)] * n          # compresses well: a later rewrite will need more room
                    self.comps[(tag, ref)] = n
                L.append("comp %d %d %d %d %d %s" % (F, tag, ref, coder, p, hexs(data)))
                self.any.append((tag, ref))
            elif k < 0.66:
                ref = self.newref(tag)
                nd = r.choice([1, 2, 2, 3])
                nt = r.choice([1, 1, 2, 4])
                coder = r.choice([0, 0, 1, 4, 4])
                if coder:
                    dims = [r.choice([2, 4, 6, 8]) for _ in range(nd)]
                    cl = [r.choice([d, max(1, d // 2)]) for d in dims]
                else:
                    dims = [r.choice([1, 2, 3, 4, 5, 7]) for _ in range(nd)]
                    cl = [r.randrange(1, d + 1) for d in dims]
                nch = [(d + c - 1) // c for d, c in zip(dims, cl)]
                csz = 1
                for c in cl:
                    csz *= c
                fill = rbytes(r, nt)
                cs = gen_coords(nch)
                chosen = [c for c in cs if r.random() < 0.7][:12]
                flat = coder and r.random() < 0.7
                ws = " ".join("%s %s" % (" ".join(map(str, c)), hexs([r.randrange(256)] * (csz * nt) if flat else rbytes(r, csz * nt)))
                              for c in chosen)
                if coder and chosen:
                    self.cchunks[(tag, ref)] = (nd, csz * nt, chosen, cs)
                L.append("chunk %d %d %d %d %d %s %s %d %d %s %d %s" % (
                    F, tag, ref, nt, nd, " ".join(map(str, dims)), " ".join(map(str, cl)), coder, 6 if coder == 4 else 0,
                    hexs(fill), len(chosen), ws))
                L.append("chunkhint %d %d %d %d %s" % (F, tag, ref, nd, " ".join(map(str, nch))))
                self.any.append((tag, ref))
            elif k < 0.70:
                if self.plain:
                    t, rf = r.choice(self.plain)
                    nr = self.newref(t)
                    L.append("dup %d %d %d %d %d" % (F, t, nr, t, rf))
                    self.aliased.add((t, rf))
            elif k < 0.72:
                cand = [e for e in self.plain if e not in self.members]
                if cand and r.random() < 0.5:
                    t, rf = r.choice(cand)
                    L.append("del %d %d %d" % (F, t, rf))
                    self.plain.remove((t, rf))
                    if (t, rf) in self.any:
                        self.any.remove((t, rf))
            elif k < 0.84:
                if self.vs < 14:
                    nf = r.choice([0, 1, 1, 2, 3, 5])
                    fl, rec = [], 0
                    for i in range(nf):
                        ty = r.choice(list(NT))
                        od = r.choice([1, 1, 2, 3])
                        fl.append("%s %d %d" % (hx("f%d%s" % (i, "x" * r.choice([0, 0, 3, 20]))), ty, od))
                        rec += NT[ty] * od
                    nrec = r.choice([0, 1, 2, 3, 7]) if nf else 0
                    name = r.choice(["", "v", "vdata%d" % self.vs, "n" * 40, "n" * 64])
                    cls = r.choice(["", "c", "cls", "k" * 33])
                    L.append("vs %d %d %d %d %d %s %s %s %d %s" % (F, self.vs, r.choice([0, 0, 1]), r.choice([0, 0, 16, 64]), nf,
                                                               " ".join(fl), hx(name), hx(cls), nrec, hexs(rbytes(r, nrec * rec))))
                    self.vsinfo = getattr(self, "vsinfo", {})
                    self.vsinfo[self.vs] = (nf, rec)
                    self.vs += 1
            elif k < 0.88:
                cands = [s for s, (nf, rec) in getattr(self, "vsinfo", {}).items() if nf > 0]
                if cands:
                    s = r.choice(cands)
                    nrec = r.choice([1, 2, 5])
                    L.append("vsapp %d %d %d %s" % (F, s, nrec, hexs(rbytes(r, nrec * self.vsinfo[s][1]))))
            elif k < 0.91:
                cands = [s for s, (nf, rec) in getattr(self, "vsinfo", {}).items()]
                if cands:
                    s = r.choice(cands)
                    nf = self.vsinfo[s][0]
                    # attributes of several owners (the vdata itself, different fields) set in interleaved order
                    owners = [-1] + list(range(nf))
                    for an in attr_names(r, r.choice([1, 2, 3, 4])):
                        fi = r.choice(owners)
                        cnt = r.choice([1, 2, 4])
                        L.append("vsattr %d %d %d %s 21 %d %s" % (F, s, fi, hx(an), cnt, hexs(rbytes(r, cnt))))
            elif k < 0.96:
                if self.vg < 14:
                    nm = r.choice([0, 0, 1, 2, 3, 6])
                    ms = []
                    keys = []
                    for _ in range(nm):
                        kind = r.choice([0, 1, 2])
                        if kind == 0 and self.vs:
                            key = ("vs", r.randrange(self.vs))
                        elif kind == 1 and self.vg:
                            key = ("vg", r.randrange(self.vg))
                        elif self.any:
                            key = r.choice(self.any)
                        else:
                            continue
                        if key in keys or key in self.dead:
                            continue
                        keys.append(key)
                        if key[0] == "vs":
                            ms.append("0 %d 0" % key[1])
                        elif key[0] == "vg":
                            ms.append("1 %d 0" % key[1])
                        else:
                            ms.append("2 %d %d" % key)
                            self.members.add(key)
                    self.vgmem[self.vg] = len(ms)
                    self.vglist[self.vg] = keys
                    name = r.choice(["", "g", "group%d" % self.vg, "G" * 70])
                    cls = r.choice(["", "c", "gclass", "C" * 65])
                    L.append("vg %d %d %s %s %d %s%s" % (F, self.vg, hx(name), hx(cls), len(ms), " ".join(ms),
                                                         " x" if r.random() < 0.3 else ""))
                    self.vg += 1
                    if r.random() < 0.4:
                        for an in attr_names(r, r.choice([1, 2, 3])):
                            cnt = r.choice([1, 3])
                            L.append("vgattr %d %d %s 21 %d %s" % (F, self.vg - 1, hx(an), cnt, hexs(rbytes(r, cnt))))
            else:
                ty = r.choice([0, 1, 2, 3])
                if ty >= 2 and not self.any:
                    ty = 0
                t, rf = r.choice(self.any) if self.any else (0, 0)
                L.append("an %d %d %d %d %s" % (F, ty, t, rf, hexs(rbytes(r, r.choice([1, 5, 30])))))
        if r.random() < 0.35:
            # descriptors without data at the end of the session: with few slots per DD block one of them opens a new
            # block, which then is the last thing in the file when it is re-opened for writing
            for _ in range(r.choice([ndds, ndds + 1, 2]) if ndds <= 5 else 2):
                L.append("defonly %d 1104 %d" % (F, self.newref(1104)))
        nopre = 0
        if r.random() < 0.3:
            # space reserved up front and written only in part (or not at all) as the LAST allocation of the session:
            # the close must extend the file to the reserved end.  No read-back before the close in that case (a
            # read of reserved space makes the library extend the file itself)
            for _ in range(r.choice([1, 1, 2])):
                ln = r.choice([1, 5, 16, 40])
                L.append("reserve %d 1107 %d %d %s" % (F, self.newref(1107), ln, hexs(rbytes(r, r.choice([0, 0, 1, ln // 2])))))
            nopre = 1
        if snap_to is not None:
            L.append("snap %d %d" % (F, snap_to))
            if r.random() < 0.5:
                ref = self.newref(1100)
                L.append("put %d 1100 %d %s" % (F, ref, hexs(rbytes(r, 7))))
                nopre = 0
        L.append("hclose %d%s" % (F, " 1" if nopre else ""))


    def edit_op(self, F):
        """change an object that exists already (made in this or an earlier session)"""
        r = self.r
        L = self.lines
        c = r.random()
        has_vg = any(v > 0 for v in self.vgmem.values())
        if (self.cchunks or self.comps) and r.random() < 0.4:
            # write compressed data again with content that compresses worse: the compressed element, no longer the
            # last thing in the file, cannot grow in place and becomes linked blocks (chunked+compressed+linked)
            if self.cchunks and (not self.comps or r.random() < 0.6):
                (t, rf), (nd, cb, chosen, cs) = r.choice(sorted(self.cchunks.items()))
                pick = [c for c in chosen if r.random() < 0.7] or chosen[:1]
                if r.random() < 0.3:
                    pick = pick + [c for c in cs if c not in chosen][:1]
                ws = " ".join("%s %s" % (" ".join(map(str, c)), hexs([r.randrange(256) for _ in range(cb)])) for c in pick)
                L.append("chunkw %d %d %d %d %d %s" % (F, t, rf, nd, len(pick), ws))
            else:
                (t, rf), n = r.choice(sorted(self.comps.items()))
                L.append("compw %d %d %d %s" % (F, t, rf, hexs([r.randrange(256) for _ in range(n)])))
            return
        if c < (0.35 if has_vg else 0.6) and self.lbinfo:
            # rewrite a linked-block element: start inside an earlier block table, cross table boundaries that exist
            # already and go on past the end (new blocks / tables allocated after the crossing); or leave a hole
            (t, rf), (bl, nb, ln) = r.choice(sorted(self.lbinfo.items()))
            tbl = bl * nb
            ntab = (ln + tbl - 1) // tbl if ln else 0
            if ntab >= 2 and r.random() < 0.7:
                pos = r.randrange(0, (ntab - 1) * tbl)
                end = ln + r.choice([1, bl, bl + 1, tbl, tbl + bl, 2 * tbl + 1])
            else:
                pos = r.choice([0, max(0, ln - 1), ln, ln + r.choice([1, bl, tbl])])
                end = pos + r.choice([1, bl, tbl + 1, 2 * tbl + bl])
            n = max(1, min(end - pos, 400))
            L.append("lbw %d %d %d 1 %d %s" % (F, t, rf, pos, hexs(rbytes(r, n))))
            self.lbinfo[(t, rf)] = (bl, nb, max(ln, pos + n))
        elif c < 0.5 and self.vglist and self.any:
            # a member added (or the name changed) while a second attachment of the same vgroup comes and goes
            slot = r.choice(sorted(self.vglist))
            key = r.choice(self.any)
            if r.random() < 0.25:
                L.append("vgaddx %d %d 3 %d %d" % (F, slot, r.randrange(100), r.randrange(2)))
            elif key not in self.vglist[slot] and key not in self.dead:
                L.append("vgaddx %d %d 2 %d %d" % (F, slot, key[0], key[1]))
                self.vglist[slot].append(key)
                self.vgmem[slot] = self.vgmem.get(slot, 0) + 1
                self.members.add(key)
        elif c < 0.85 and has_vg:
            slot = r.choice([k for k, v in self.vgmem.items() if v > 0])
            which = r.choice([0, 1, 2, 2, 2])
            keys = self.vglist[slot]
            idx = 0 if which == 0 else (len(keys) // 2 if which == 1 else len(keys) - 1)
            key = keys.pop(idx)
            # the object itself is deleted only when no other vgroup names it (no deliberately dangling members)
            shared = any(key in l_ for l_ in self.vglist.values())
            delobj = 0 if (shared or key[0] == "vg" or key in self.aliased) else r.choice([0, 1, 1])
            L.append("vgdel %d %d %d %d" % (F, slot, which, delobj))
            self.vgmem[slot] -= 1
            if delobj:
                self.dead.add(key)
                if key[0] == "vs":
                    getattr(self, "vsinfo", {}).pop(key[1], None)
                else:
                    for lst in (self.any, self.plain):
                        if key in lst:
                            lst.remove(key)
                    self.lbinfo.pop(key, None)
        else:
            cands = [s_ for s_, (nf, rec) in getattr(self, "vsinfo", {}).items() if nf > 0]
            if cands:
                s_ = r.choice(cands)
                nrec = r.choice([1, 3, 9])
                L.append("vsapp %d %d %d %s" % (F, s_, nrec, hexs(rbytes(r, nrec * self.vsinfo[s_][1]))))

    def vsattr_session(self, F):
        """vdatas whose attribute list interleaves the owners (vdata, field 0, field 1, ...)"""
        r = self.r
        L = self.lines
        L.append("hopen %d %d %d" % (F, r.choice([4, 16]), r.choice([0, 1])))
        for _ in range(r.choice([1, 2])):
            if self.vs >= 14:
                break
            nf = r.choice([2, 3])
            fl = " ".join("%s 21 1" % hx("fld%d" % i) for i in range(nf))
            L.append("vs %d %d 0 0 %d %s %s %s 2 %s" % (F, self.vs, nf, fl, hx("va%d" % self.vs), hx("c"), hexs(rbytes(r, 2 * nf))))
            self.vsinfo = getattr(self, "vsinfo", {})
            self.vsinfo[self.vs] = (nf, nf)
            owners = [-1] + list(range(nf))
            seq = [r.choice(owners) for _ in range(r.choice([3, 4, 5, 6]))]
            for j, fi in enumerate(seq):
                cnt = r.choice([1, 2, 3, 5])
                L.append("vsattr %d %d %d %s 21 %d %s" % (F, self.vs, fi, hx("at%d" % j), cnt, hexs(rbytes(r, cnt))))
            self.vs += 1
        L.append("hclose %d" % F)

    def wrap_session(self, F):
        """the file's reference counter has reached 65535 (an object with that ref exists): new refs are found by
        searching; descriptors are not in ascending ref order (explicit refs written downwards, freed slots reused)"""
        r = self.r
        L = self.lines
        L.append("hopen %d %d %d" % (F, r.choice([4, 16]), r.choice([0, 1])))
        L.append("put %d 1106 65535 %s" % (F, hexs(rbytes(r, 3))))
        self.any.append((1106, 65535))
        refs = sorted(r.sample(range(2, 9), r.choice([2, 3, 4])), reverse=True)
        for rf in refs:
            L.append("put %d 1105 %d %s" % (F, rf, hexs(rbytes(r, 4))))
            self.plain.append((1105, rf))
            self.any.append((1105, rf))
            self.refs[1105] = max(self.refs.get(1105, 0), rf)
        for _ in range(r.choice([2, 3, 4])):
            k = r.random()
            if k < 0.3 and len([e for e in self.plain if e[0] == 1105 and e not in self.members]) > 1:
                t, rf = r.choice([e for e in self.plain if e[0] == 1105 and e not in self.members])
                L.append("del %d %d %d" % (F, t, rf))
                self.plain.remove((t, rf))
                self.any.remove((t, rf))
            elif k < 0.7 and self.vs < 14:
                L.append("vs %d %d 0 0 1 %s 21 2 %s %s 1 %s" % (F, self.vs, hx("f"), hx("w%d" % self.vs), hx("c"), hexs(rbytes(r, 2))))
                self.vsinfo = getattr(self, "vsinfo", {})
                self.vsinfo[self.vs] = (1, 2)
                self.vs += 1
            elif self.vg < 14:
                L.append("vg %d %d %s %s 0" % (F, self.vg, hx("wg%d" % self.vg), hx("k")))
                self.vgmem[self.vg] = 0
                self.vglist[self.vg] = []
                self.vg += 1
        L.append("hclose %d" % F)

    def vg_session(self, F):
        """vdatas, plain elements and vgroups naming them: material for later sessions that remove members"""
        r = self.r
        L = self.lines
        L.append("hopen %d %d %d" % (F, r.choice([4, 16]), r.choice([0, 1])))
        for _ in range(r.choice([2, 3])):
            ref = self.newref(1100)
            L.append("put %d 1100 %d %s" % (F, ref, hexs(rbytes(r, r.choice([2, 9])))))
            self.plain.append((1100, ref))
            self.any.append((1100, ref))
        for _ in range(r.choice([1, 2, 3])):
            if self.vs < 14:
                L.append("vs %d %d 0 0 1 %s 21 2 %s %s 2 %s" % (F, self.vs, hx("f"), hx("vd%d" % self.vs), hx("c"), hexs(rbytes(r, 4))))
                self.vsinfo = getattr(self, "vsinfo", {})
                self.vsinfo[self.vs] = (1, 2)
                self.vs += 1
        for _ in range(r.choice([2, 3])):
            if self.vg < 14:
                ms, keys = [], []
                for _ in range(r.choice([1, 2, 3, 4])):
                    key = ("vs", r.randrange(self.vs)) if (r.random() < 0.5 and self.vs) else r.choice(self.any)
                    if key in keys or key in self.dead:
                        continue
                    keys.append(key)
                    if key[0] == "vs":
                        ms.append("0 %d 0" % key[1])
                    else:
                        ms.append("2 %d %d" % key)
                        self.members.add(key)
                self.vglist[self.vg] = keys
                L.append("vg %d %d %s %s %d %s" % (F, self.vg, hx("grp%d" % self.vg), hx("k"), len(ms), " ".join(ms)))
                self.vgmem[self.vg] = len(ms)
                self.vg += 1
        L.append("hclose %d" % F)

    def lb_tables_session(self, F):
        """several block tables with free slots in the last one, then rewrites across the existing boundaries"""
        r = self.r
        L = self.lines
        L.append("hopen %d %d %d" % (F, r.choice([4, 16]), r.choice([0, 1])))
        for _ in range(r.choice([1, 2])):
            tag = r.choice([1100, 1101])
            ref = self.newref(tag)
            bl, nb = r.choice([2, 3, 4, 8, 16]), r.choice([2, 3, 4])
            k = r.randrange(1, nb)                      # blocks used in the last table
            ntab = r.choice([2, 2, 3])
            ln = bl * (nb * (ntab - 1) + k) - r.choice([0, 0, 1])
            L.append("lb %d %d %d %d %d 1 %s" % (F, tag, ref, bl, nb, hexs(rbytes(r, ln))))
            self.any.append((tag, ref))
            self.lbinfo[(tag, ref)] = (bl, nb, ln)
            if r.random() < 0.5:
                L.append("put %d 1102 %d %s" % (F, self.newref(1102), hexs(rbytes(r, 5))))
        if r.random() < 0.5:
            for _ in range(r.choice([1, 2])):
                self.edit_op(F)
        L.append("hclose %d" % F)

    def sd_session(self, F, two_unlimited=False):
        r = self.r
        L = self.lines
        L.append("sdstart %d" % F)
        if r.random() < 0.4:
            for an in attr_names(r, r.choice([1, 2, 3])):
                cnt = r.choice([1, 2, 5])
                L.append("sdattr %s 21 %d %s" % (hx(an), cnt, hexs(rbytes(r, cnt))))
        # append records to data sets with an unlimited dimension made in an earlier session
        for idx, (nt, rank, dims) in sorted(self.unlim.items()):
            if r.random() < 0.6:
                add = r.choice([1, 2, 3])
                n = NT[nt] * add
                for e in dims[1:]:
                    n *= e
                L.append("sdselect %d" % idx)
                L.append("sdwrite %s %s %s" % (" ".join(map(str, [dims[0]] + [0] * (rank - 1))),
                                               " ".join(map(str, [add] + dims[1:])), hexs(rbytes(r, n))))
                L.append("sdendaccess")
                self.unlim[idx] = (nt, rank, [dims[0] + add] + dims[1:])
        # chunked + compressed data sets of earlier sessions written again with data that compresses worse
        for idx, (nt, rank, dims) in sorted(self.sdcc.items()):
            if r.random() < 0.7:
                n = NT[nt]
                for e in dims:
                    n *= e
                L.append("sdselect %d" % idx)
                L.append("sdwrite %s %s %s" % (" ".join(["0"] * rank), " ".join(map(str, dims)),
                                               hexs([r.randrange(256) for _ in range(n)])))
                L.append("sdendaccess")
        plan = [None] * r.choice([1, 1, 2, 3])
        if two_unlimited:
            plan = ["unlim", "unlim"] + [None] * r.choice([0, 1])
        for want in plan:
            nt = r.choice([20, 21, 22, 23, 24, 5, 6])
            rank = r.choice([1, 2, 2, 3])
            dims = [r.choice([1, 2, 3, 4, 5, 6]) for _ in range(rank)]
            layout = want or r.choice(["contig", "contig", "chunk", "chunk", "chunkcomp", "chunkcomp", "comp", "unlim", "nodata"])
            if layout == "chunkcomp":
                dims = [r.choice([4, 6, 8]) for _ in range(rank)]
            unl = layout == "unlim"
            if two_unlimited and unl:
                dims[0] = r.choice([1, 2, 3, 4, 5, 6, 7])
            my_index = self.nsds
            self.nsds += 1
            L.append("sdcreate %s %d %d %s" % (hx("sds%d_%d" % (F, my_index)), nt, rank,
                                             " ".join(map(str, [0 if (unl and k == 0) else d for k, d in enumerate(dims)]))))
            if r.random() < 0.3:
                L.append("sdfill %s" % hexs(rbytes(r, NT[nt])))
            if layout in ("chunk", "chunkcomp"):
                cl = [r.randrange(1, d + 1) for d in dims]
                coder = 0 if layout == "chunk" else r.choice([1, 4])
                L.append("sdchunk %d %d %s" % (coder, 6 if coder == 4 else 0, " ".join(map(str, cl))))
            elif layout == "comp":
                coder = r.choice([1, 4, 4, 3])
                L.append("sdcomp %d %d" % (coder, {1: 0, 4: r.choice([1, 6, 9]), 3: NT[nt]}[coder]))
            elif unl and r.random() < 0.6:
                L.append("sdblk %d" % r.choice([8, 16, 64]))
            if layout != "nodata":
                whole = layout in ("comp", "unlim") or r.random() < 0.6
                if whole:
                    st, ed = [0] * rank, list(dims)
                else:
                    st = [r.randrange(0, d) for d in dims]
                    ed = [r.randrange(1, d - s + 1) for s, d in zip(st, dims)]
                n = NT[nt]
                for e in ed:
                    n *= e
                flat = layout == "chunkcomp" and r.random() < 0.7
                L.append("sdwrite %s %s %s" % (" ".join(map(str, st)), " ".join(map(str, ed)),
                                               hexs([r.randrange(256)] * n if flat else rbytes(r, n))))
                if layout == "chunkcomp":
                    self.sdcc[my_index] = (nt, rank, dims)
                if unl:
                    recs = dims[0]
                    if r.random() < 0.5:
                        ed2 = [r.choice([1, 2])] + dims[1:]
                        n = NT[nt]
                        for e in ed2:
                            n *= e
                        L.append("sdwrite %s %s %s" % (" ".join(map(str, [recs] + [0] * (rank - 1))),
                                                       " ".join(map(str, ed2)), hexs(rbytes(r, n))))
                        recs += ed2[0]
                    self.unlim[my_index] = (nt, rank, [recs] + dims[1:])
            if r.random() < 0.5:
                for an in attr_names(r, r.choice([1, 2, 3])):
                    cnt = r.choice([1, 3, 4])
                    L.append("sdattr %s 21 %d %s" % (hx(an), cnt, hexs(rbytes(r, cnt))))
            if r.random() < 0.25 and layout != "nodata":
                # a named dimension with an attribute: stored with the dimension's coordinate variable
                j = r.randrange(rank)
                L.append("sddimname %d %s" % (j, hx("dim%d_%d" % (my_index, j))))
                for an in attr_names(r, r.choice([1, 2])):
                    cnt = r.choice([1, 2, 3])
                    L.append("sddimattr %d %s 21 %d %s" % (j, hx(an), cnt, hexs(rbytes(r, cnt))))
                self.nsds += 1          # the coordinate variable takes an index of its own
            L.append("sdendaccess")
        L.append("sdend")
        if r.random() < 0.3 and self.nsds:
            cand = [i for i in range(self.nsds)]
            L.append("sdann %d %d %d %s" % (F, 0, r.choice([0, 1, 2, 3, 2, 3]), hexs(rbytes(r, r.choice([1, 6, 20])))))

    def dfsd_session(self, F):
        """data sets written through the old DFSD interface: label / unit / format strings of the data set and of
        every dimension, some dimensions without strings (also after dimensions that have them)"""
        r = self.r
        L = self.lines
        for _ in range(r.choice([1, 1, 2])):
            nt = r.choice([21, 22, 24, 5])
            rank = r.choice([1, 2, 3, 3])
            dims = [r.choice([1, 2, 3, 4]) for _ in range(rank)]

            def strs(p_empty):
                if r.random() < p_empty:
                    return "- - -"
                return " ".join(hx(w) if r.random() < 0.8 else "-" for w in
                                (r.choice(["Temp", "Latitude", "x", "Depth below"]), r.choice(["K", "degrees_north", "m"]),
                                 r.choice(["F7.2", "I4", "E10.3"])))
            n = NT[nt]
            for d in dims:
                n *= d
            L.append("dfsd %d %d %d %s %s %s %s" % (F, nt, rank, " ".join(map(str, dims)), strs(0.2),
                                                    " ".join(strs(0.45) for _ in range(rank)), hexs(rbytes(r, n))))
            self.nsds += 1

    def gr_session(self, F):
        r = self.r
        L = self.lines
        L.append("grstart %d" % F)
        if r.random() < 0.5:
            for an in attr_names(r, r.choice([1, 2, 3])):
                cnt = r.choice([1, 2, 4])
                L.append("grattr 0 %s 21 %d %s" % (hx(an), cnt, hexs(rbytes(r, cnt))))
        for i in range(r.choice([1, 1, 2, 3])):
            ncomp = r.choice([1, 1, 3])
            nt = r.choice([21, 21, 23])
            w, h = r.choice([1, 2, 3, 5, 8]), r.choice([1, 2, 4, 6])
            L.append("grcreate %s %d %d %d %d" % (hx("img%d" % r.randrange(1000)), ncomp, nt, w, h))
            lay = r.choice(["plain", "plain", "comp", "chunk", "chunkcomp", "nodata"])
            if lay == "comp":
                coder = r.choice([1, 4, 3])
                L.append("grcomp %d %d" % (coder, {1: 0, 4: 6, 3: NT[nt]}[coder]))
            elif lay in ("chunk", "chunkcomp"):
                coder = 0 if lay == "chunk" else r.choice([1, 4])
                L.append("grchunk %d %d %d %d" % (coder, 6 if coder == 4 else 0, r.randrange(1, h + 1), r.randrange(1, w + 1)))
            if lay != "nodata":
                L.append("grwrite %s" % hexs(rbytes(r, ncomp * NT[nt] * w * h)))
                if r.random() < 0.5:
                    L.append("grlut %d" % r.randrange(256))
            if r.random() < 0.4:
                for an in attr_names(r, r.choice([1, 2, 3])):
                    cnt = r.choice([1, 3])
                    L.append("grattr 1 %s 21 %d %s" % (hx(an), cnt, hexs(rbytes(r, cnt))))
            L.append("grendaccess")
        L.append("grend")
        for _ in range(r.choice([0, 0, 1, 2])):
            L.append("dfpal %d %d" % (F, r.randrange(80)))


def gen_history(r, name, knobs=None):
    g = Gen(r, name)
    sessions = r.choice([["h"], ["h", "h"], ["h", "he"], ["h", "h", "he"], ["h", "sd"], ["h", "gr"], ["h", "he", "he"], ["lbt", "he"], ["lbt"], ["lbt", "he", "he"],
                         ["sd"], ["gr"], ["h", "sd"], ["sd", "h"], ["h", "gr"], ["gr", "sd"], ["sd", "sd"], ["sd", "sd", "sd"], ["sd", "h", "sd"], ["h", "he", "he"], ["sd2", "sd"],
                         ["sd2"], ["sd2", "sd", "sd"], ["vgs", "he"], ["vgs", "he", "he"], ["vgs", "he"], ["vsa"], ["vsa", "he"], ["wrap"], ["wrap", "he"], ["h", "wrap"], ["h", "sd", "gr"], ["sd", "gr", "he"], ["gr"], ["gr", "gr"], ["gr", "h"], ["dfsd"], ["dfsd", "h"],
                         ["h", "dfsd"], ["dfsd"]])
    snapped = False
    for s in sessions:
        if s in ("h", "he"):
            st = 1 if (not snapped and r.random() < 0.3) else None
            snapped = snapped or st is not None
            g.h_session(0, snap_to=st, knobs=knobs, edit=(s == "he"))
        elif s == "lbt":
            g.lb_tables_session(0)
        elif s == "vgs":
            g.vg_session(0)
        elif s == "vsa":
            g.vsattr_session(0)
        elif s == "wrap":
            g.wrap_session(0)
        elif s == "sd":
            g.sd_session(0)
        elif s == "sd2":
            g.sd_session(0, two_unlimited=True)
        elif s == "dfsd":
            g.dfsd_session(0)
        else:
            g.gr_session(0)
    g.lines.append("verify 0")
    if snapped:
        g.lines.append("verify 1")
    return g.lines


# ------------------------------------------------------------------------------------------------------------
def split_histories(lines):
    out, cur = [], []
    for l in lines:
        if l.startswith("history ") and cur:
            out.append(cur)
            cur = []
        cur.append(l)
    if cur:
        out.append(cur)
    return out


def run_R(ctx, hists, tag):
    exe = ctx.harness("drive_fmt", ["drive_fmt.c"])
    wd = os.path.join(ctx.bdir, "harness", "c02-%s-%d" % (tag, os.getpid()))
    shutil.rmtree(wd, ignore_errors=True)
    os.makedirs(wd)
    p = os.path.join(wd, "in.hist")
    open(p, "w").write("\n".join(l for h in hists for l in h) + "\n")
    rc, out = vc.run_lines(exe, p, timeout=1500, args=[wd])
    per = {}
    asan = []
    for l in out:
        t = l.split(" ", 2)
        if len(t) >= 2 and (t[1] in ("op", "crash") or re.fullmatch(r"F\d", t[1])):
            per.setdefault(t[0], []).append(l.split(" ", 1)[1])
        else:
            asan.append(l)
    return wd, rc, per, asan


def run_S(ctx, wd, hists, per):
    """build the h4read command file from what the harness asked the library, run it, return per-(hist,slot) lines"""
    mod = ctx.model("fmt_read", ["fmt_main.ml"], ["fmt_spec"])
    cmds, index = [], []
    for h in hists:
        name = h[0].split()[1]
        R = per.get(name, [])
        for l in h:
            t = l.split()
            if t[0] == "ext":
                cmds.append("ext %s %s" % (t[4], os.path.join(wd, t[4])))
        for l in h:
            t = l.split()
            if t[0] != "verify":
                continue
            slot = t[1]
            path = os.path.join(wd, "%s_%s.hdf" % (name, slot))
            cmds.append("image " + path)
            cmds += ["dump", "vdump", "blocks", "dds", "reencode", "sdcheck", "orphans"]
            linked = set()
            for rl in R:
                u = rl.split()
                if u[0] == "F" + slot and u[1] == "E" and u[4] == "sp1":
                    linked.add((u[2], u[3]))
            for rl in R:
                u = rl.split()
                if u[0] != "F" + slot:
                    continue
                if u[1] == "DI":
                    cmds.append("di " + " ".join(u[2:7]))
                    if u[2] == "H" and (u[3], u[4]) in linked:
                        cmds.append("dimodel %s %s %s" % (u[3], u[4], u[5]))
                elif u[1] == "SD":
                    cmds.append("sddata " + u[2])
                elif u[1] == "GR":
                    cmds.append("grdata " + u[2])
    q = os.path.join(wd, "q.txt")
    open(q, "w").write("\n".join(cmds) + "\n")
    rc, out = vc.run_lines(mod, q, timeout=1500)
    per_s, cur = {}, None
    for l in out:
        if l.startswith("I "):
            base = os.path.basename(l.split()[1])
            m = re.fullmatch(r"(.*)_(\d)\.hdf", base)
            cur = (m.group(1), m.group(2)) if m else None
            per_s[cur] = []
        if cur is not None:
            per_s[cur].append(l)
    return rc, per_s


def mem_owner(h):
    """for each verified slot: index (among the MEM groups printed for history h) of the in-memory directory that the
    file's final bytes must equal, or None when a later session rewrote the file"""
    owner, grp = {}, -1
    for l in h:
        t = l.split()
        if t[0] == "hclose":
            grp += 1
            owner[t[1]] = grp
        elif t[0] == "snap":
            grp += 1
            owner[t[2]] = grp
        elif t[0] in ("sdstart", "grstart", "dfsd", "sdann", "dfpal"):
            owner.pop(t[1], None)
        elif t[0] == "hopen":
            owner.pop(t[1], None)
    return owner


def compare(h, R, per_s):
    """-> list of (kind, detail) disagreements between the library and the format specification for history h"""
    name = h[0].split()[1]
    bad = []
    stats = {"E": 0, "VH": 0, "VG": 0, "DI": 0, "SDDATA": 0, "GRDATA": 0, "opaque": 0, "MEM": 0, "special": 0}
    if any(l.startswith("crash") for l in R):
        c = [l for l in R if l.startswith("crash")][0]
        bad.append(("crash", "the library crashed while building or dumping the file (%s)" % c))
    # a reference number handed out for a new object (Vattach / VSattach with -1, i.e. Hnewref) is not in use in the
    # file: not the ref of an object the history made earlier and did not delete
    inuse = {}
    opres = [l.split() for l in R if l.startswith("op ")]
    for hl, u in zip([x for x in h[1:] if not x.startswith("#")], opres):
        ht = hl.split()
        ok_ = len(u) > 2 and u[2] == "ok"
        if not ok_:
            continue
        if ht[0] in ("put", "lb", "lbs", "ext", "comp", "chunk", "dup", "defonly"):
            inuse[int(ht[3])] = hl[:40]
        elif ht[0] == "del":
            inuse.pop(int(ht[3]), None)
        elif ht[0] in ("vs", "vg") and len(u) > 3:
            v = int(u[3])
            if v in inuse:
                bad.append(("newref", "the new %s of '%s' was given ref %d, which is in use (made by '%s')" % (
                    "vdata" if ht[0] == "vs" else "vgroup", hl[:40], v, inuse[v])))
            inuse[v] = hl[:40]
        elif ht[0] == "vgdel" and ht[4] == "1" and len(u) > 3:
            inuse.pop(int(u[3]) % 100000, None)
    # groups, one per hclose / snap, in order: what the writing session read just before (PRE*) and its in-memory
    # directory (MEM)
    groups, cur = [], None
    for l in R:
        u = l.split()
        if len(u) > 1 and u[1] in ("PRE", "PREVH", "PREVG", "NOPRE"):
            if cur is None or cur["mem"]:
                cur = {"pre": [], "mem": [], "nopre": False}
                groups.append(cur)
            if u[1] == "NOPRE":
                cur["nopre"] = True
            else:
                cur["pre"].append(" ".join(u[1:]))
        elif len(u) > 1 and u[1] == "MEM":
            if cur is None:
                cur = {"pre": [], "mem": [], "nopre": False}
                groups.append(cur)
            cur["mem"].append(u[2:])
        elif cur is not None and cur["mem"]:
            cur = None
    owner = mem_owner(h)
    for l in h:
        t = l.split()
        if t[0] != "verify":
            continue
        slot = t[1]
        Rl = [x.split(" ", 1)[1] for x in R if x.startswith("F%s " % slot)]
        S = per_s.get((name, slot))
        if S is None:
            bad.append(("nospec", "h4read produced nothing for slot " + slot))
            continue
        if "NOFILE" in Rl or "NOTCLOSED" in Rl:
            continue      # no file, or a close call reported failure: outside the property's domain
        if "OPENFAIL" in Rl:
            bad.append(("openfail", "the library cannot reopen the file it wrote (slot %s); h4read: %s" % (slot, S[0])))
            continue
        if not any(x == "END" for x in Rl) and not bad:
            bad.append(("crash", "dump of slot %s incomplete" % slot))
        if not S[0].endswith("wf=ok"):
            bad.append(("wellformed", "bytes on disk are not a well-formed HDF file: %s %s" % (
                S[0].split()[-1], "; ".join(x for x in S if x.startswith("W "))[:300])))

        def keyed(lines, pfx, nkey):
            d = {}
            for x in lines:
                u = x.split()
                if u[0] == pfx:
                    d[tuple(u[1:1 + nkey])] = u[1 + nkey:]
            return d
        RE, SE = keyed(Rl, "E", 2), keyed(S, "E", 2)
        for k in sorted(set(RE) | set(SE), key=lambda k: (int(k[0]), int(k[1]))):
            if k not in RE or k not in SE:
                bad.append(("E-missing", "element %s/%s seen only by %s" % (k[0], k[1], "the library" if k in RE else "h4read")))
                continue
            a, b = RE[k], SE[k]
            stats["E"] += 1
            if a[0] not in ("sp0", "sp-1"):
                stats["special"] += 1
            if b[1] == "?":
                stats["opaque"] += 1
                if a[0] != b[0] or a[1] in ("readfail", "unreadable"):
                    bad.append(("E", "element %s/%s: library %s, h4read %s" % (k[0], k[1], " ".join(a)[:80], " ".join(b)[:80])))
                continue
            if a != b:
                bad.append(("E", "element %s/%s: library reads %s, the format says %s" % (k[0], k[1], " ".join(a)[:120], " ".join(b)[:120])))
        for pfx in ("VH", "VG"):
            RV, SV = keyed(Rl, pfx, 1), keyed(S, pfx, 1)
            for k in sorted(set(RV) | set(SV), key=lambda k: int(k[0])):
                stats[pfx] += 1
                if RV.get(k) != SV.get(k):
                    bad.append((pfx, "%s %s: library %s, h4read %s" % (pfx, k[0], " ".join(RV.get(k, ["-"]))[:160], " ".join(SV.get(k, ["-"]))[:160])))
        def canon(x):
            u = x.split()
            if len(u) > 1 and u[1] in ("ANNF", "ANNS") and "=" in u:
                i = u.index("=")
                u = u[:i + 2] + sorted(u[i + 2:], key=lambda e: tuple(map(int, e.split(":"))))
            return " ".join(u)
        RD = [canon(x) for x in Rl if x.startswith("DI ")]
        SD_ = [canon(x) for x in S if x.startswith("DI ")]
        for i, x in enumerate(RD):
            stats["DI"] += 1
            y = SD_[i] if i < len(SD_) else "DI <missing>"
            ux, uy = x.split(), y.split()
            if len(ux) > 1 and ux[1] in ("ANNF", "ANNS") and "=" in ux and "=" in uy and ux[:7] == uy[:7]:
                # annotations: h4read lists every location; the library must return the right number of them, each
                # one a location h4read found, none twice
                ix, iy = ux.index("="), uy.index("=")
                rx, ry = ux[ix + 2:], uy[iy + 2:]
                okk = ux[ix + 1] == uy[iy + 1] and (ux[4] == "N" or (len(rx) == int(ux[ix + 1]) and len(set(rx)) == len(rx) and all(e in ry for e in rx)))
                if not okk:
                    bad.append(("DI", "annotation locations: library '%s', the bytes say '%s'" % (x[:160], y[:160])))
                continue
            if len(uy) > 8 and "multi" in uy and ux[:7] == uy[:7] and ux[7:] == ["1", uy[-1]]:
                # attribute data in more than one block, reported as its first block with return value 1
                bad.append(("attmulti", "attribute stored in %s blocks, query reports only the first: '%s'" % (uy[8], x[:120])))
                continue
            if x != y:
                bad.append(("DI", "raw-location query: library '%s', the bytes say '%s'" % (x[:160], y[:160])))
        for pfx in ("SDDATA", "GRDATA"):
            RV, SV = keyed(Rl, pfx, 1), keyed(S, pfx, 1)
            for k in sorted(RV, key=lambda k: int(k[0])):
                a, b = RV[k], SV.get(k, ["<missing>"])
                if b[0].startswith("opaque"):
                    stats["opaque"] += 1
                    continue
                if b[0] == "none":
                    continue      # no data element in the file: the library returns fill values (C03/C09)
                stats[pfx] += 1
                if a[0] == "readfail" or not (b[0] == a[0] or (len(b[0]) > len(a[0]) and b[0].startswith(a[0]) and pfx == "SDDATA")):
                    bad.append((pfx, "%s %s: library %s, the format says %s" % (pfx, k[0], a[0][:120], b[0][:120])))
        # R vs M: the model's encoders reproduce the bytes of every record the library wrote; the model of
        # HLgetdatainfo gives the library's answers
        for x in S:
            if x.startswith("RE "):
                stats["RE"] = stats.get("RE", 0) + 1
                if not x.endswith(" ok"):
                    bad.append(("model", "encoder model differs from the library's bytes: " + x))
        for x in S:
            if x.startswith("AM "):
                bad.append(("model", "attribute lookup: model differs from the specification: " + x))
        PM = {" ".join(x.split()[1:6]): x.split()[6:] for x in S if x.startswith("PM ")}
        for x in RD:
            u = x.split()
            if u[1] == "PAL" and " ".join(u[1:6]) in PM:
                stats["PM"] = stats.get("PM", 0) + 1
                if u[6:] != PM[" ".join(u[1:6])]:
                    bad.append(("model", "GRgetpalinfo model: library '%s', model '%s'" % (" ".join(u[6:])[:120], " ".join(PM[" ".join(u[1:6])])[:120])))
        DM = {tuple(x.split()[1:4]): x.split()[4:] for x in S if x.startswith("DM ")}
        for x in RD:
            u = x.split()
            if u[1] == "H" and (u[2], u[3], u[4]) in DM:
                stats["DM"] = stats.get("DM", 0) + 1
                if u[6:] != DM[(u[2], u[3], u[4])]:
                    bad.append(("model", "HLgetdatainfo model: library '%s', model '%s'" % (" ".join(u[6:])[:120], " ".join(DM[(u[2], u[3], u[4])])[:120])))
        # every tag/ref a Vgroup record names exists in the file (the generator never deletes an object behind a
        # vgroup's back; SD data elements named before any data is written are the one legitimate exception)
        made = set()
        purposely = False
        for hl in h:
            ht = hl.split()
            if ht[0] in ("put", "lb", "lbs", "ext", "comp", "chunk", "dup"):
                made.add((ht[2], ht[3]))
            elif ht[0] == "del" or (ht[0] == "vgdel" and ht[4] == "1"):
                purposely = True
        for k, v in sorted(keyed(S, "VG", 1).items()):
            ms = ([x for x in v if x.startswith("m=")] or ["m=-"])[0][2:]
            for m in ([] if ms == "-" else ms.split(",")):
                t_, r_ = m.split(":")
                if (t_, r_) not in SE and (t_, r_) in made and not purposely:
                    bad.append(("dangling", "Vgroup %s names %s/%s, which does not exist in the file" % (k[0], t_, r_)))
        # no linked-block descriptor that no block table names
        for x in S:
            if x.startswith("ORPH ") and x != "ORPH -":
                bad.append(("orphan", "linked-block descriptors (tag 20) that no linked-block element names: refs " + x[5:]))
        # dimension record x number-type size == length of the data element; dimension record == SDgetinfo
        Rsd = {u[1]: u for u in (x.split() for x in Rl if x.startswith("SD "))}
        for x in S:
            if not x.startswith("SDC "):
                continue
            u = x.split()
            if len(u) < 5 or not u[2].startswith("dims="):
                continue
            stats["SDC"] = stats.get("SDC", 0) + 1
            dims = [int(v) for v in u[2][5:].split(",")] if u[2] != "dims=" else []
            bits = int(u[3][5:])
            dl_ = u[4][8:]
            prod = 1
            for d_ in dims:
                prod *= d_
            if dl_.isdigit() and bits > 0 and prod * bits // 8 != int(dl_):
                bad.append(("SDD", "data set NDG %s: dimension record %s x %d bits = %d bytes, its data element holds %s" % (
                    u[1], dims, bits, prod * bits // 8, dl_)))
            if u[1] in Rsd:
                rd = Rsd[u[1]][4][5:]
                if rd != u[2][5:]:
                    bad.append(("SDD", "data set NDG %s: dimension record says %s, SDgetinfo says %s" % (u[1], u[2][5:], rd)))
        # directory in memory at close time == directory parsed from the bytes; what the writing session read just
        # before the close == what the bytes hold
        g = owner.get(slot)
        if g is not None and g < len(groups):
            stats["MEM"] += 1
            mem = groups[g]["mem"]
            SB = [x.split()[1:] for x in S if x.startswith("B ")]
            SDd = [x.split()[1:] for x in S if x.startswith("D ")]
            if [m[:3] for m in mem] != SB:
                bad.append(("MEM", "DD-block chain in memory %s, on disk %s" % ([m[:3] for m in mem], SB)))
            elif [d.split(",") for m in mem for d in m[3:]] != SDd:
                bad.append(("MEM", "descriptor list in memory differs from the list parsed from the bytes"))
            pre = groups[g]["pre"]
            PE = keyed(pre, "PRE", 2)
            for k in ([] if groups[g].get("nopre") else sorted(set(PE) | set(SE), key=lambda k: (int(k[0]), int(k[1])))):
                if k not in PE or k not in SE:
                    bad.append(("PRE", "element %s/%s seen only by %s" % (k[0], k[1], "the writing session" if k in PE else "h4read (closed file)")))
                    continue
                stats["PRE"] = stats.get("PRE", 0) + 1
                if SE[k][1] == "?":
                    continue
                if PE[k] != SE[k]:
                    bad.append(("PRE", "element %s/%s: the writing session read %s, the closed file holds %s" % (
                        k[0], k[1], " ".join(PE[k])[:120], " ".join(SE[k])[:120])))
            for pfx, spfx in ([] if groups[g].get("nopre") else [("PREVH", "VH"), ("PREVG", "VG")]):
                PV, SV = keyed(pre, pfx, 1), keyed(S, spfx, 1)
                for k in sorted(set(PV) | set(SV), key=lambda k: int(k[0])):
                    stats[pfx] = stats.get(pfx, 0) + 1
                    if PV.get(k) != SV.get(k):
                        bad.append((pfx, "%s %s: the writing session saw %s, the closed file holds %s" % (
                            spfx, k[0], " ".join(PV.get(k, ["-"]))[:160], " ".join(SV.get(k, ["-"]))[:160])))
    return bad, stats


def classify(h, bad):
    """signature of a failing history for known-finding matching (computed from the failing input and the failure).
    'attdatainfo-multiblock' = every disagreement of the history is a single-location attribute query
    (SDgetattdatainfo / GRgetattdatainfo / Vgetattdatainfo / VSgetattdatainfo) on an attribute whose data the
    independent reader finds in more than one block, answered with the first block and return value 1."""
    if bad and all(b[0] == "attmulti" for b in bad):
        return "attdatainfo-multiblock"
    return None


def fails(ctx, h, kinds, tag="shrink"):
    """run one history alone; -> (disagreements whose kind is in kinds, all disagreements, R, S, sanitizer text).
    A crash gets the precise kind 'crash:<function named in the sanitizer summary>'."""
    wd, rc, per, asan = run_R(ctx, [h], tag)
    rcs, per_s = run_S(ctx, wd, [h], per)
    bad, _ = compare(h, per.get(h[0].split()[1], []), per_s)
    shutil.rmtree(wd, ignore_errors=True)
    where = "?"
    for a in asan:
        m = re.search(r"SUMMARY: \w+: (\S+) .* in (\S+)", a)
        if m:
            where = m.group(1) + ":" + m.group(2)
    bad = [("crash:" + where, d) if k == "crash" else (k, d) for k, d in bad]
    return [b for b in bad if kinds is None or b[0] in kinds], bad, per, per_s, asan


def shrink(ctx, h, kinds, limit=60):
    cur = list(h)
    n = 0
    chunk = max(1, (len(cur) - 2) // 2)
    while chunk >= 1 and n < limit:
        i, progressed = 1, False
        while i < len(cur) and n < limit:
            cand = cur[:i] + cur[i + chunk:]
            if not any(l.startswith("verify") for l in cand):
                i += chunk
                continue
            n += 1
            if len(cand) > 1 and fails(ctx, cand, kinds)[0]:
                cur, progressed = cand, True
            else:
                i += chunk
        if not progressed:
            chunk //= 2
    return cur


def run(ctx):
    r = ctx.rng
    corpus = []
    cdir = os.path.join(vc.VERIF, "corpus", "C02")
    for fn in sorted(os.listdir(cdir)) if os.path.isdir(cdir) else []:
        corpus += split_histories([l for l in open(os.path.join(cdir, fn)).read().splitlines() if l.strip() and not l.startswith("#")])
    nh = 100 if ctx.tier == "quick" else 2500
    hists = corpus + [gen_history(r, "g%d" % i) for i in range(nh)]
    # batches of histories run side by side (library harness, then h4read on the files it left), 4 at a time
    ctx.harness("drive_fmt", ["drive_fmt.c"])
    ctx.model("fmt_read", ["fmt_main.ml"], ["fmt_spec"])
    bsz = 30 if ctx.tier == "quick" else 100
    batches = [hists[i:i + bsz] for i in range(0, len(hists), bsz)]

    def one(ib):
        i, b = ib
        wd_, rc_, per_, asan_ = run_R(ctx, b, "main%d" % i)
        rcs_, per_s_ = run_S(ctx, wd_, b, per_)
        shutil.rmtree(wd_, ignore_errors=True)
        return rc_, per_, asan_, rcs_, per_s_
    from concurrent.futures import ThreadPoolExecutor
    with ThreadPoolExecutor(max_workers=4) as ex:
        results = list(ex.map(one, enumerate(batches)))
    rc, per, asan, per_s = 0, {}, [], {}
    for rc_, per_, asan_, rcs_, per_s_ in results:
        if rcs_ != 0:
            raise vc.BuildError("h4read failed rc=%d" % rcs_)
        rc = rc or rc_
        per.update(per_)
        per_s.update(per_s_)
        asan += asan_
    wd = None
    tot = {}
    opmix, opfail = {}, {}
    nviol = 0
    known = 0
    for h in hists:
        name = h[0].split()[1]
        R = per.get(name, [])
        bad, st = compare(h, R, per_s)
        for k, v in st.items():
            tot[k] = tot.get(k, 0) + v
        for l in R:
            if l.startswith("op "):
                pass
        res = [l.split() for l in R if l.startswith("op ")]
        lnmap = {}
        for l in h[1:]:
            opmix[l.split()[0]] = opmix.get(l.split()[0], 0) + 1
        nfail = sum(1 for t in res if len(t) > 2 and t[2] == "fail")
        opfail["failed_ops"] = opfail.get("failed_ops", 0) + nfail
        ctx.case(tuple(h[1:]), (st["special"] + st["VH"] + st["VG"]) > 0 and not bad,
                 sample={"history": [x[:100] for x in h[1:6]], "compared": st} if len(ctx.coverage["samples"]) < 3 else None)
        if bad and nviol < 3:
            sig = classify(h, bad)
            if sig is not None and ctx.match_known(sig) is not None:
                ctx.violation("known finding", "", found=True, signature=sig)
                known += 1
                continue
            nviol += 1
            if all(b[0] == "model" for b in bad):
                txt = ["# C02: the library agrees with the format specification on this history, but the implementation",
                       "# model (coq/FmtModel.v) no longer describes the library: R-vs-M correspondence broken",
                       "# run: bin/check C02 --replay <this file>"] + h + ["#   [%s] %s" % b for b in bad[:8]]
                ctx.violation("correspondence library~FmtModel broken: " + bad[0][1], "\n".join(txt), found=False)
                continue
            fb0 = fails(ctx, h, None, "first")[0] or bad
            kinds = {fb0[0][0]}
            small = shrink(ctx, h, kinds, 40 if ctx.tier == "quick" else 150)
            fb, allbad, per2, per_s2, asan2 = fails(ctx, small, kinds, "rep")
            fb = fb or fb0
            txt = ["# C02 replay: building history; after the last close the library's own reads (R) and the format",
                   "# specification applied to the bytes on disk (S = h4read) disagree",
                   "# run: bin/check C02 --replay <this file>"] + small + ["# disagreements:"] + \
                  ["#   [%s] %s" % b for b in fb[:8]] + ["#   asan: " + a for a in asan2 if "ERROR" in a or "SUMMARY" in a][:4]
            ctx.violation("%s: %s" % fb[0], "\n".join(txt), found=True)
    ctx.corr("library~h4read", histories=len(hists), corpus_histories=len(corpus), op_mix=opmix,
             compared={k: v for k, v in tot.items() if k not in ("RE", "DM")},
             histories_matching_known_findings=known, harness_rc=rc, **opfail)
    ctx.corr("library~FmtModel", records_reencoded=tot.get("RE", 0), hlgetdatainfo_answers=tot.get("DM", 0),
             what="RE: DD blocks, description records, block tables, VH, VG parsed by S and re-encoded by M equal the "
                  "library's bytes; DM: M's HLgetdatainfo equals the library's return value and arrays")


def replay(ctx, path):
    lines = [l for l in open(path).read().splitlines() if l.strip() and not l.startswith("#")]
    for h in split_histories(lines):
        fb, bad, per, per_s, asan = fails(ctx, h, None, "replay")
        name = h[0].split()[1]
        print("---- history %s: library (R)" % name)
        for l in per.get(name, []):
            print("R " + l[:200])
        print("---- h4read (S)")
        for k in sorted(per_s, key=str):
            for l in per_s[k]:
                print("S " + l[:200])
        for a in asan:
            if "ERROR" in a or "SUMMARY" in a or a.strip().startswith("#"):
                print("asan " + a[:200])
        print("---- disagreements: %d" % len(bad))
        for b in bad:
            print("!! [%s] %s" % b)
    return 0
