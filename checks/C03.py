"""C03 -- SDS hyperslab reads and writes behave as an n-dimensional array.

Correspondence: the SD interface of the freshly built library (R, harness/drive_sd.c) vs the extracted
specification S (coq/SlabSpec.v: one flat n-d array) vs the extracted implementation model M
(coq/SlabModel.v: NCcoordck / NC_varoffset / NCvcmaxcontig / NCvario / NCsimplerecio / NCgenio /
hdf_xdr_NCvdata incl. the exact sequence of Hsetlength/Hwrite/Hread transfers on the data element),
on generated operation histories.  R vs S decides the property; R vs M is the tie of the proofs to the code."""
import os
import re
import vcommon as vc

RULE = ("histories of two kinds. (a) files with 2..5 datasets (mixed ranks 0..3 / types / flavours, some unlimited, at "
        "least one never written, some partly written; datasets also created mid-history): writes and reads interleaved "
        "across the datasets and across SDend/SDstart cycles; after every reopen and at the end EVERY dataset is read "
        "in full and compared with its own array (never-written ones must read as fill; a write to one dataset must not "
        "show in another); after the last reopen a never-written dataset is written and all are re-read. "
        "Read-only sessions (SDend + SDstart(DFACC_READ), reads of every dataset incl. never-written ones, back to read-write) "
        "are interleaved in both kinds; 150 'fill-mode' histories switch SD_NOFILL on and off around reopen, empty / "
        "out-of-range requests, reads before the first write and end with a clean-header NOFILL->FILL switch followed by a "
        "first write / growth past a gap. "
        "(b) one dataset per fresh file: rank 0..4 (+ spot ranks 8 and 32), extents 1..6, optional unlimited "
        "first dimension, every 8/16/32-bit integer type, char, float32/64 in standard, little-endian and native "
        "flavour; then 3..12 operations drawn from one PRNG (VERIF_SEED): SDsetfillmode, SDsetfillvalue (before the "
        "first write), SDsetblocksize, SDwritedata / SDreaddata with stride NULL / all-ones / 1..3 and start/count "
        "valid (weighted to full rows and full trailing blocks, the case split of NCvcmaxcontig), reaching outside "
        "the extent in one dimension, negative start, zero / negative count, zero stride, growth along the "
        "unlimited dimension with gaps, SDgetinfo + SDgetfillvalue, SDend/SDstart; every history ends with a full "
        "read, a reopen and a second full read.  A history is non-trivial when at least one write succeeded and "
        "one later read compared at least one cell; distinct by its full text")
TRUSTED = ["Coq 8.16.1 kernel (no native_compute)",
           "translator gen/gen_consts.py + plugin gen/plugins/slab_conds.py (kinds consts, switch_return, conds, "
           "float_bits) run on mfhdf.h, nc_priv.h, hlimits.h, hntdefs.h, cdf.c, dfconv.c, mfsd.c, putget.c, putgetg.c "
           "through gcc -E",
           "extraction: Require Extraction + ExtrOcamlBasic; no Extract Constant; Z/positive/nat extracted as inductives",
           "OCaml driver extract/slab_main.ml, C harness harness/drive_sd.c (link-time interposition of Hwrite/Hread/"
           "Hsetlength for the transfer log), generator and comparison in checks/C03.py",
           "modelled, not verified: loop skeletons of NCvario's ripple counter and NCgenio's odometer (written as "
           "nested row-major enumeration; tied by the exact transfer sequence), hdf_xdr_NCvdata's allocation "
           "fall-backs, number-type conversion (C06), the H-layer element store under the transfers (C01), "
           "metadata persistence in cdf.c (tied by the reopen observations only), the netCDF/XDR path"]
ASSUMPTIONS = ["host is little-endian; long is 64 bit (H4_HAVE_LP64), element counts stay far below 2^31",
               "SDsetfillvalue is only issued before the first write of a dataset (the property's wording)",
               "cells never written in no-fill mode, and cells inside the region of a failed request, are unspecified"]

BASES = {3: 1, 4: 1, 20: 1, 21: 1, 22: 2, 23: 2, 24: 4, 25: 4, 5: 4, 6: 8}
FLAV = [0, 0, 4096, 16384]


# --------------------------------------------------------------------------------------------
# generator
# --------------------------------------------------------------------------------------------

class Gen:
    def __init__(self, rng):
        self.r = rng
        self.ctr = rng.randrange(1 << 16)

    def value(self, w):
        self.ctr += 1
        c = self.ctr
        b = [(c * 7 + 13) & 255]
        if w >= 2:
            b = [c & 255, (c >> 8) & 255]
        while len(b) < w:
            b.append((c * 31 + len(b) * 17) & 255)
        if self.r.random() < 0.03:
            b = [self.r.choice([0, 0xff, 0x80, 0x7f, 0x81, 0x01])] * w
        return "".join("%02x" % x for x in b[:w])

    def request(self, dims, unlim, numrecs, write, kind):
        r = self.r
        rank = len(dims)
        us = 1 if r.random() < 0.55 else 0
        ones = us and r.random() < 0.2
        st, sd, ct = [], [], []
        for i, d in enumerate(dims):
            t = 1 if (not us or ones) else r.choice([1, 1, 2, 2, 3])
            if i == 0 and unlim:
                if write:
                    s = r.choice([numrecs, numrecs, numrecs + r.randrange(0, 4), r.randrange(0, numrecs + 1)])
                    c = r.choice([1, 1, 2, 3])
                else:
                    ext = max(numrecs, 1)
                    s = r.randrange(0, ext)
                    c = r.randrange(1, (ext - 1 - s) // t + 2)
                    if r.random() < 0.4:
                        s, c, t = 0, ext, 1
            else:
                p = r.random()
                if p < 0.45:
                    s, c, t = 0, d, 1          # full extent: feeds the contiguous-run merge
                else:
                    s = r.randrange(0, d)
                    c = r.randrange(1, (d - 1 - s) // t + 2)
            st.append(s)
            sd.append(t)
            ct.append(c)
        if kind == "oob" and rank > 0:
            i = r.randrange(rank)
            how = r.choice(["count", "start", "neg", "count1"])
            d = dims[i] if not (i == 0 and unlim) else numrecs
            if how == "count":
                ct[i] = (d - 1 - st[i]) // sd[i] + 1 + r.choice([1, 1, 2])
            elif how == "count1":
                st[i], ct[i] = max(d - 1, 0), 2
            elif how == "start":
                st[i] = d + r.choice([0, 0, 1, 3])
            else:
                st[i] = -r.choice([1, 1, 2])
        elif kind == "degenerate" and rank > 0:
            i = r.randrange(rank)
            how = r.choice(["zero", "zero", "negc", "zstride", "nstride"])
            if how == "zero":
                ct[i] = 0
            elif how == "negc":
                ct[i] = -r.choice([1, 2])
            elif how == "zstride":
                us, sd[i] = 1, 0
            else:
                us, sd[i] = 1, -1
            if r.random() < 0.5:
                us = 1
                sd = [x if x != 1 else r.choice([1, 2]) for x in sd]
        return us, st, sd, ct

    def ro_block(self, dims, unlim, numrecs):
        """SDend + SDstart(DFACC_READ), reads only, then back to a read-write session."""
        r = self.r
        rank = len(dims)
        full = list(dims)
        if unlim:
            full[0] = max(numrecs, 1)
        out = ["O", "G", self.fmt_req("R", 0, [0] * rank, [1] * rank, full)]
        for _ in range(r.randrange(0, 3)):
            us, st, sd, ct = self.request(dims, unlim, numrecs, False, "valid" if r.random() < 0.8 else "oob")
            out.append(self.fmt_req("R", us, st, sd, ct))
        return out + ["C"]

    def history(self, spot=None, mode_heavy=False):
        """mode_heavy: the class 'fill mode switched off and on again / empty requests / failed reads around the first
        write': early reopen (dataset created in an earlier session), many SDsetfillmode toggles, empty and
        out-of-range requests, reads before the first write, growth past a gap right after switching back."""
        r = self.r
        rank = r.choice([0, 1, 1, 2, 2, 2, 3, 3, 4])
        if spot:
            rank = spot
        base = r.choice(list(BASES))
        nt = base | r.choice(FLAV)
        w = BASES[base]
        unlim = rank > 0 and r.random() < 0.4
        if rank <= 4:
            dims = [r.randrange(1, 7) for _ in range(rank)]
        else:
            dims = [1] * rank
            for _ in range(3):
                dims[r.randrange(rank)] = r.choice([2, 2, 3])
        cdims = list(dims)
        if unlim:
            cdims[0] = 0
        lines = ["H %d %d %d%s" % (rank, nt, 1 if unlim else 0, "".join(" %d" % d for d in cdims))]
        numrecs = 0
        written = False
        mode = 0
        pW, pR, pG, pC = (0.47, 0.80, 0.88, 0.95) if not mode_heavy else (0.40, 0.68, 0.72, 0.80)
        wkinds = (0.8, 0.92) if not mode_heavy else (0.6, 0.78)
        scripted = False
        if mode_heavy and r.random() < 0.5:
            lines.append("C")
        elif mode_heavy and rank > 0 and r.random() < 0.7:
            # the new dataset is attached by a read, then gets a write request in no-fill mode that transfers nothing
            # (empty or rejected at its start), then fill mode comes back: later writes, failed calls (which detach
            # the dataset) and re-attachments must all still work
            scripted = True
            lines.append("M 256")
            us, st, sd, ct = self.request(dims, unlim, numrecs, False, "valid")
            lines.append(self.fmt_req("R", us, st, sd, ct))
            us, st, sd, ct = self.request(dims, unlim, numrecs, True, "degenerate" if r.random() < 0.6 else "oob")
            n = 1
            for c in ct:
                n *= max(c, 0)
            if n <= 4000:
                lines.append(self.fmt_req("W", us, st, sd, ct) + " %d%s" % (n, "".join(" " + self.value(w) for _ in range(n))))
                written = True
            if r.random() < 0.7:
                lines.append("M 0")
            else:
                mode = 256
        if not scripted and r.random() < (0.2 if not mode_heavy else 0.5):
            lines.append("M 256")
            mode = 256
        if r.random() < 0.5:
            lines.append("V " + self.value(w))
            if r.random() < 0.2:
                lines.append("V " + self.value(w))
        if unlim and r.random() < 0.35:
            lines.append("B %d" % r.choice([1, 3, 7, 16, 64, 4096]))
        if r.random() < 0.15:
            lines.append("G")
        if r.random() < 0.1:
            us, st, sd, ct = self.request(dims, unlim, numrecs, False, "valid")
            lines.append(self.fmt_req("R", us, st, sd, ct))
        for _ in range(r.randrange(3, 13)):
            p = r.random()
            if p < pW:
                k = r.random()
                kind = "valid" if k < wkinds[0] else ("oob" if k < wkinds[1] else "degenerate")
                us, st, sd, ct = self.request(dims, unlim, numrecs, True, kind)
                n = 1
                for c in ct:
                    n *= max(c, 0)
                if n > 4000:
                    continue
                vals = [self.value(w) for _ in range(n)]
                lines.append(self.fmt_req("W", us, st, sd, ct) + " %d%s" % (n, "".join(" " + v for v in vals)))
                written = True
                if kind == "valid":
                    if unlim:
                        numrecs = max(numrecs, st[0] + (ct[0] - 1) * sd[0] + 1)
            elif p < pR:
                k = r.random()
                kind = "valid" if k < (0.8 if not mode_heavy else 0.65) else ("oob" if k < 0.93 else "degenerate")
                us, st, sd, ct = self.request(dims, unlim, numrecs, False, kind)
                n = 1
                for c in ct:
                    n *= max(c, 0)
                if n > 4000:
                    continue
                lines.append(self.fmt_req("R", us, st, sd, ct))
            elif p < pG:
                lines.append("G")
            elif p < pC:
                if r.random() < 0.3:
                    lines += self.ro_block(dims, unlim, numrecs)
                else:
                    lines.append("C")
                mode = 0
            elif not written and p < pC + 0.02:
                lines.append("V " + self.value(w))
            else:
                mode = (256 - mode) if mode_heavy else r.choice([0, 256])
                lines.append("M %d" % mode)
        full = list(dims)
        if unlim:
            full[0] = max(numrecs, 1)
        fr = self.fmt_req("R", 0, [0] * rank, [1] * rank, full)
        lines += ["G", fr, "C", "G", fr]
        if mode_heavy and rank > 0:
            # a fresh session whose header stays clean: no-fill on, only reads (or a write into data that exists), fill
            # on again, then a first write / growth past a gap: the unwritten cells / gap records must hold the fill value
            lines += ["M 256"]
            us, st, sd, ct = self.request(dims, unlim, numrecs, False, "valid")
            lines.append(self.fmt_req("R", us, st, sd, ct))
            lines += ["M 0"]
            us, st, sd, ct = self.request(dims, unlim, numrecs, True, "valid")
            if unlim:
                st[0] = numrecs + r.choice([1, 2, 3])
                ct[0], sd[0] = 1, 1
            n = 1
            for c in ct:
                n *= max(c, 0)
            lines.append(self.fmt_req("W", us, st, sd, ct) + " %d%s" % (n, "".join(" " + self.value(w) for _ in range(n))))
            if unlim:
                numrecs = max(numrecs, st[0] + 1)
                full[0] = numrecs
            fr = self.fmt_req("R", 0, [0] * rank, [1] * rank, full)
            lines += ["G", fr, "C", "G", fr]
        if r.random() < 0.4:
            lines += ["O", "G", fr, "C"]
        lines.append("E")
        return lines

    def multi_history(self):
        """One file with 2..5 datasets (mixed ranks/types, some unlimited, some never written, some partly written);
        writes and reads interleaved across the datasets and across SDend/SDstart cycles.  After every reopen, and at
        the end, EVERY dataset is read back in full and compared with its own array: a never-written dataset must
        read as its fill value, and a write to one dataset must not show up in any other."""
        r = self.r
        ds = []          # dicts: dims, cdims, unlim, w, numrecs, nt
        lines = []

        def create(first):
            rank = r.choice([0, 1, 1, 2, 2, 3])
            base = r.choice(list(BASES))
            nt = base | r.choice(FLAV)
            unlim = rank > 0 and r.random() < 0.35
            dims = [r.randrange(1, 6) for _ in range(rank)]
            cd = list(dims)
            if unlim:
                cd[0] = 0
            lines.append("%s %d %d %d%s" % ("H" if first else "D", rank, nt, 1 if unlim else 0,
                                              "".join(" %d" % d for d in cd)))
            d = {"dims": dims, "unlim": unlim, "w": BASES[base], "numrecs": 0, "written": False}
            ds.append(d)
            if r.random() < 0.4:
                lines.append("V " + self.value(d["w"]))
            return d

        def full_read(k):
            d = ds[k]
            full = list(d["dims"])
            if d["unlim"]:
                full[0] = max(d["numrecs"], 1)
            rank = len(full)
            return ["S %d" % k, "G", self.fmt_req("R", 0, [0] * rank, [1] * rank, full)]

        def read_all():
            out = []
            for k in range(len(ds)):
                out += full_read(k)
            return out

        n0 = r.randrange(2, 5)
        for i in range(n0):
            create(i == 0)
        # datasets that stay unwritten for the whole history (at least one, not the last created by preference)
        never = set(r.sample(range(len(ds)), r.randrange(1, max(2, len(ds) // 2 + 1))))
        cur = len(ds) - 1
        for _ in range(r.randrange(6, 16)):
            p = r.random()
            if p < 0.07 and len(ds) < 5:
                create(False)
                cur = len(ds) - 1
                if r.random() < 0.5:
                    never.add(cur)
                continue
            if p < 0.20:
                if r.random() < 0.4:
                    lines += ["O"] + read_all()     # read-only session: every dataset, never-written ones included
                lines.append("C")
                lines += read_all()
                cur = len(ds) - 1
                continue
            k = r.randrange(len(ds))
            if k != cur:
                lines.append("S %d" % k)
                cur = k
            d = ds[k]
            if p < 0.62 and k not in never:
                kk = r.random()
                kind = "valid" if kk < 0.85 else "oob"
                us, st, sd, ct = self.request(d["dims"], d["unlim"], d["numrecs"], True, kind)
                n = 1
                for c in ct:
                    n *= max(c, 0)
                vals = [self.value(d["w"]) for _ in range(n)]
                lines.append(self.fmt_req("W", us, st, sd, ct) + " %d%s" % (n, "".join(" " + v for v in vals)))
                d["written"] = True
                if kind == "valid" and d["unlim"]:
                    d["numrecs"] = max(d["numrecs"], st[0] + (ct[0] - 1) * sd[0] + 1)
            elif p < 0.92:
                us, st, sd, ct = self.request(d["dims"], d["unlim"], d["numrecs"], False,
                                              "valid" if r.random() < 0.9 else "oob")
                lines.append(self.fmt_req("R", us, st, sd, ct))
            else:
                lines.append("G")
        lines += read_all() + (["O"] + read_all() if r.random() < 0.5 else []) + ["C"] + read_all()
        # after the reopen: write into a so far unwritten dataset, then every other dataset must be unchanged.
        # In half of the histories no-fill mode is switched on and off again first, with nothing in between that
        # dirties the file description (reads, a write into a dataset that already has data): fill mode must be back.
        if r.random() < 0.5:
            lines.append("M 256")
            wr = [j for j in range(len(ds)) if ds[j]["written"] and not ds[j]["unlim"] and j not in never]
            for _ in range(r.randrange(1, 3)):
                j = r.randrange(len(ds))
                dj = ds[j]
                us, st, sd, ct = self.request(dj["dims"], dj["unlim"], dj["numrecs"], False, "valid")
                lines += ["S %d" % j, self.fmt_req("R", us, st, sd, ct)]
            if wr and r.random() < 0.5:
                j = r.choice(wr)
                dj = ds[j]
                us, st, sd, ct = self.request(dj["dims"], False, 0, True, "valid")
                n = 1
                for c in ct:
                    n *= max(c, 0)
                lines += ["S %d" % j, self.fmt_req("W", us, st, sd, ct) + " %d%s" % (n, "".join(" " + self.value(dj["w"]) for _ in range(n)))]
            lines.append("M 0")
        k = r.choice(sorted(never))
        d = ds[k]
        us, st, sd, ct = self.request(d["dims"], d["unlim"], d["numrecs"], True, "valid")
        n = 1
        for c in ct:
            n *= max(c, 0)
        lines += ["S %d" % k, self.fmt_req("W", us, st, sd, ct) + " %d%s" % (n, "".join(" " + self.value(d["w"]) for _ in range(n)))]
        if d["unlim"]:
            d["numrecs"] = max(d["numrecs"], st[0] + (ct[0] - 1) * sd[0] + 1)
        lines += read_all() + ["C"] + read_all() + ["E"]
        return lines

    @staticmethod
    def fmt_req(op, us, st, sd, ct):
        return "%s %d%s%s%s" % (op, us, "".join(" %d" % x for x in st), "".join(" %d" % x for x in sd),
                                "".join(" %d" % x for x in ct))


# --------------------------------------------------------------------------------------------
# running and comparing
# --------------------------------------------------------------------------------------------

WRAPS = ["Hwrite", "Hread", "Hsetlength"]


def tools(ctx):
    exe = ctx.harness("drive_sd", ["drive_sd.c"], wraps=WRAPS)
    mod = ctx.model("slab_model", ["slab_main.ml"], ["slab_model"])
    return exe, mod


def run_batch(ctx, hists, tag):
    """Returns (R lines per history or None when the harness died there, S lines, M lines, rc)."""
    exe, mod = tools(ctx)
    p = os.path.join(ctx.bdir, "harness", "c03-%s-%d.in" % (tag, os.getpid()))
    h5 = os.path.join(ctx.bdir, "harness", "c03-%s-%d.hdf" % (tag, os.getpid()))
    with open(p, "w") as fh:
        for h in hists:
            fh.write("\n".join(h) + "\n")
    rc, R = run_harness(exe, p, h5)
    # the extracted model keeps arrays as lists: deep recursion on the multi-megabyte cases needs a large stack
    rcm, out = vc.sh(["sh", "-c", "ulimit -s unlimited 2>/dev/null || ulimit -s 4000000 2>/dev/null; exec \"$0\" \"$1\"", mod, p],
                     timeout=1200)
    MS = out.splitlines()
    os.unlink(p)
    import glob
    for x in glob.glob(h5 + "*"):
        os.unlink(x)
    if rcm != 0:
        raise vc.BuildError("model driver failed (rc=%d): %s" % (rcm, "\n".join(MS[-5:])))
    S = [l[2:] for l in MS if l.startswith("S ")]
    M = [l[2:] for l in MS if l.startswith("M ")]
    return rc, R, S, M


def run_harness(exe, infile, h5):
    e = dict(vc.HARNESS_ENV)
    rc, out = vc.sh([exe, infile, h5], timeout=1200, env=e)
    return rc, out.splitlines()


def split_hist(lines, hists):
    """Cut a flat line list into per-history chunks according to the operation counts."""
    out, i = [], 0
    for h in hists:
        out.append(lines[i:i + len(h)])
        i += len(h)
    return out


RLINE = re.compile(r"^(H (ok|fail)$|D (ok|fail)$|S ok$|[MVB] -?\d+$|W -?\d+ \||R -?\d+ g[01] \d+|G -?\d+ |[CEO] (ok|fail)$)")


def split_r(lines, hists):
    """Harness output per history.  Sanitizer reports and other noise are set aside (returned as the third
    component for the history during which they appeared)."""
    out, noise = [[]], [[]]
    for l in lines:
        if RLINE.match(l):
            out[-1].append(l)
            if l[0] == "E":
                out.append([])
                noise.append([])
        else:
            noise[-1].append(l)
    while len(out) < len(hists):
        out.append([])
        noise.append([])
    return out[:len(hists)], noise[:len(hists)]


def parse_r_read(line):
    # R rc g<0|1> n hex.. | transfers
    head, _, tr = line.partition("|")
    t = head.split()
    return int(t[1]), t[2] == "g1", t[4:4 + int(t[3])], tr.split()


def cmp_spec(hl, r, s, meta):
    """Compare one operation: input line hl, library line r, spec line s.  Returns None or a description."""
    op = hl[0]
    if op == "H":
        return None if r == "H ok" else "SDcreate failed: " + r
    if op == "E":
        return None if r == "E ok" else "SDendaccess/SDend failed: " + r
    if op == "D":
        return None if r == "D ok" else "SDcreate of a further dataset failed: " + r
    if op == "S":
        return None
    if op in "MVB":
        return None if not r.endswith(" -1") else "%s returned FAIL: %s" % (hl.split()[0], r)
    if op == "C":
        return None if r == "C ok" else "close/reopen failed: " + r
    if op == "O":
        return None if r == "O ok" else "close/reopen read-only failed: " + r
    if op == "W":
        rc = int(r.split("|")[0].split()[1])
        want = s.split()[1]
        if want == "ok" and rc != 0:
            return "valid SDwritedata returned %d" % rc
        if want == "fail" and rc != -1:
            return "SDwritedata reaching outside the extent returned %d (FAIL expected)" % rc
        if want == "ok":
            meta["wrote"] = True
        return None
    if op == "R":
        rc, guard, cells, _ = parse_r_read(r)
        t = s.split()
        want = t[1]
        if not guard:
            return "SDreaddata wrote beyond the requested buffer"
        if want == "fail" and rc != -1:
            return "SDreaddata reaching outside the extent returned %d (FAIL expected)" % rc
        if want == "ok":
            exp = t[3:]
            if "?" not in exp and rc != 0:
                return "valid SDreaddata of defined cells returned %d" % rc
            if rc == 0:
                if len(exp) != len(cells):
                    return "cell count differs"
                for i, (a, b) in enumerate(zip(exp, cells)):
                    if a != "?" and a != b:
                        return "cell #%d of the selection reads %s, array holds %s" % (i, b, a)
                if any(a != "?" for a in exp) and meta.get("wrote"):
                    meta["compared"] = True
        return None
    if op == "G":
        left, _, fv = r.partition(";")
        t = left.split()
        sl, _, sfv = s.partition(";")
        st = sl.split()[1:]
        if int(t[1]) != 0:
            return "SDgetinfo failed"
        if int(t[2]) != meta["rank"]:
            return "SDgetinfo rank %s differs from creation" % t[2]
        dims = [int(x) for x in t[4:]]
        if len(dims) != len(st):
            return "SDgetinfo rank differs"
        for i, (d, iv) in enumerate(zip(dims, st)):
            lo, hi = [int(x) for x in iv.split(":")]
            if not lo <= d <= hi:
                return "SDgetinfo extent %d of dimension %d outside [%d,%d]" % (d, i, lo, hi)
        f = fv.split()
        sf = sfv.split()[1]
        if sf == "-":
            if int(f[1]) != -1:
                return "SDgetfillvalue succeeded without a user fill value"
        elif int(f[1]) != 0 or f[2] != sf:
            return "SDgetfillvalue gives %s, expected %s" % (" ".join(f[1:]), sf)
        return None
    return "unknown op"


def cmp_model(hl, r, m):
    """Library vs implementation model: return codes, transfer sequence, read values, extents -- exact."""
    op = hl[0]
    if op in "HEMVBCDSO" or m == "-":
        return None
    if op == "W":
        head, _, tr = r.partition("|")
        mh, _, mtr = m.partition("|")
        if head.split()[1] != mh.split()[1]:
            return "return %s vs model %s" % (head.split()[1], mh.split()[1])
        if tr.split() != mtr.split():
            return "transfers [%s] vs model [%s]" % (tr.strip(), mtr.strip())
        return None
    if op == "R":
        rc, guard, cells, tr = parse_r_read(r)
        mh, _, mtr = m.partition("|")
        t = mh.split()
        if int(t[1]) != rc:
            return "return %d vs model %s" % (rc, t[1])
        if tr != mtr.split():
            return "transfers [%s] vs model [%s]" % (" ".join(tr), mtr.strip())
        if rc == 0:
            exp = t[3:]
            if len(exp) != len(cells):
                return "cell count %d vs model %d" % (len(cells), len(exp))
            for i, (a, b) in enumerate(zip(exp, cells)):
                if a != "?" and a != b:
                    return "cell #%d %s vs model %s" % (i, b, a)
        return None
    if op == "G":
        left, _, fv = r.partition(";")
        ml, _, mfv = m.partition(";")
        if left.split()[4:] != ml.split()[1:]:
            return "extents %s vs model %s" % (left.split()[4:], ml.split()[1:])
        return None
    return None


def signature(h, idx):
    """Call-pattern tag of a failing history (for known findings): the failing operation's shape."""
    hl = h[idx].split()
    rank, ranks = 0, []
    for l in h[:idx + 1]:
        if l[0] in "HD":
            ranks.append(int(l.split()[1]))
            rank = ranks[-1]
        elif l[0] == "S":
            rank = ranks[int(l.split()[1])]
    if hl[0] in "WR" and rank > 0:
        us = int(hl[1])
        ct = [int(x) for x in hl[2 + 2 * rank:2 + 3 * rank]]
        sd = [int(x) for x in hl[2 + rank:2 + 2 * rank]]
        tag = "write" if hl[0] == "W" else "read"
        if any(c <= 0 for c in ct):
            return "%s:count<=0:%s" % (tag, "strided" if us and any(x != 1 for x in sd) else "unit")
    if hl[0] in "WR" and rank == 0 and int(hl[1]):
        return "%s:rank0:stride-array" % ("write" if hl[0] == "W" else "read")
    return "%s:other" % hl[0]


def check_history(h, R, S, M, meta):
    """-> (spec_problem, model_problem) each None or (op index, text)."""
    sp = mp = None
    if any(l.startswith("M 256") for l in h):
        M = []      # the model's domain is fill mode (no-fill storage states are not modelled): R ~ S only
    ranks, cur = [], 0
    for i, hl in enumerate(h):
        if hl[0] in "HD":
            ranks.append(int(hl.split()[1]))
            cur = len(ranks) - 1
        elif hl[0] == "S":
            cur = int(hl.split()[1])
        meta["rank"] = ranks[cur]
        if i >= len(R):
            sp = sp or (i, "harness died during: " + hl[:120])
            break
        if i < len(S) and sp is None:
            try:
                d = cmp_spec(hl, R[i], S[i], meta)
            except (ValueError, IndexError) as ex:
                d = "unparsable output %r (%s)" % (R[i][:100], ex)
            if d:
                sp = (i, d)
        if i < len(M) and mp is None and sp is None:
            try:
                d = cmp_model(hl, R[i], M[i])
            except (ValueError, IndexError) as ex:
                d = "unparsable output %r / %r (%s)" % (R[i][:100], M[i][:100], ex)
            if d:
                mp = (i, d)
    return sp, mp


def meta_of(h):
    t = h[0].split()
    return {"rank": int(t[1]), "nt": int(t[2])}


def run_one(ctx, h, tag="one"):
    rc, R, S, M = run_batch(ctx, [h], tag)
    (Rh, noise), _, _ = split_r(R, [h]), 0, 0
    R = Rh[0]
    run_one.noise = noise[0]
    meta = meta_of(h)
    sp, mp = check_history(h, R, S, M, meta)
    return sp, mp, R, S, M


def shrink(ctx, h, want_spec=True):
    """Greedy one-operation removal keeping the disagreement (spec disagreement when want_spec)."""
    cur = list(h)
    budget = 60
    changed = True
    while changed and budget > 0:
        changed = False
        for i in range(len(cur) - 2, 0, -1):
            if budget <= 0:
                break
            cand = cur[:i] + cur[i + 1:]
            budget -= 1
            try:
                sp, mp, _, _, _ = run_one(ctx, cand, "shr")
            except vc.BuildError:
                continue
            if (sp if want_spec else mp):
                cur = cand
                changed = True
    return cur


def side_by_side(h, R, S, M):
    out = []
    for i, hl in enumerate(h):
        out.append("# op %d: %s" % (i, hl[:160]))
        out.append("#   R: " + (R[i][:300] if i < len(R) else "<no output: harness died>"))
        out.append("#   S: " + (S[i][:300] if i < len(S) else "-"))
        out.append("#   M: " + (M[i][:300] if i < len(M) else "-"))
    return out


def report(ctx, h, sp, mp, R, S, M, noise=()):
    if sp:
        small = shrink(ctx, h, True)
        sp2, mp2, R2, S2, M2 = run_one(ctx, small, "rep")
        noise = run_one.noise or noise
        if not sp2:
            small, sp2, R2, S2, M2 = h, sp, R, S, M
        txt = ["# C03 replay: bin/check C03 --replay <this file>",
               "# library (R) disagrees with the n-d array specification (S) at op %d: %s" % sp2] + \
            side_by_side(small, R2, S2, M2) + ["# harness stderr: " + x[:200] for x in list(noise)[:25]] + small
        ctx.violation("SD hyperslab I/O differs from the n-d array: " + sp2[1], "\n".join(txt), found=True,
                      signature=signature(small, min(sp2[0], len(small) - 1)))
    elif mp:
        small = shrink(ctx, h, False)
        sp2, mp2, R2, S2, M2 = run_one(ctx, small, "rep")
        if sp2:      # the shrunk history exposes a spec-level failure: that is the better report
            return report(ctx, small, sp2, None, R2, S2, M2)
        if not mp2:
            small, mp2, R2, S2, M2 = h, mp, R, S, M
        txt = ["# C03: correspondence R ~ M broken (library vs implementation model), spec still agrees",
               "# relation: transfers/returns of SDwritedata/SDreaddata vs SlabModel.m_step at op %d: %s" % mp2,
               "# theorems resting on it: vario_plan_correct, genio_plan_correct, slab_refines_array"] + \
            side_by_side(small, R2, S2, M2) + small
        ctx.violation("library no longer matches the implementation model: " + mp2[1], "\n".join(txt), found=False)


def corpus(ctx):
    d = os.path.join(vc.VERIF, "corpus", "C03")
    hs = []
    if os.path.isdir(d):
        for f in sorted(os.listdir(d)):
            cur = []
            for l in open(os.path.join(d, f)).read().splitlines():
                l = l.strip()
                if not l or l.startswith("#"):
                    continue
                cur.append(l)
                if l == "E":
                    hs.append(cur)
                    cur = []
    return hs


def big_histories(rng, thorough=False):
    """First writes far into a large new fixed-size dataset (lead-in / remainder above MAX_SIZE = 1,000,000 bytes,
    not multiples of it): the chunked fill loops of hdf_xdr_NCvdata.  Only the written slab, a small window around
    it and samples of the fill region are read back (the extracted array model is a list: cost ~ cells x size).
    Wide element types keep the cell count low for the same byte offsets; the int8 case with 2,300,000 cells
    runs in the thorough tier."""
    hs = []

    def vals(n, w):
        return ["".join("%02x" % ((37 + 11 * i + 3 * k) & 255) for k in range(w)) for i in range(n)]

    def one_d(nt, w, n, s, c, fill):
        pts = sorted(set([0, 1000000 // w - 1, 2000000 // w - 1, n - 2]))
        h = ["H 1 %d 0 %d" % (nt, n)]
        if fill:
            h.append("V " + "".join("%02x" % (0xc3 + k) for k in range(w)))
        h.append("W %d %d 1 %d %d %s" % (rng.choice([0, 1]), s, c, c, " ".join(vals(c, w))))
        lo = max(s - 3, 0)
        rd = ["R 0 %d 1 %d" % (lo, min(c + 6, n - lo))]
        rd += ["R 0 %d 1 2" % q for q in pts if 0 <= q < n - 1]
        rd += ["R 1 1 %d %d" % (500000 // w, min(4, (n - 2) // (500000 // w) + 1))]
        return h + rd + ["G", "C"] + rd + ["E"]

    hs.append(one_d(6, 8, 290000, 154321 + rng.randrange(0, 100), 7, False))             # lead-in 1.23 MB
    hs.append(one_d(16384 | 6, 8, 290000, 250001 + rng.randrange(0, 20000), 5, True))     # lead-in > 2 MB
    hs.append(one_d(24, 4, 700000, 600123 + rng.randrange(0, 50), 10, False))             # the 2.4 MB int32 case
    hs.append(one_d(4096 | 6, 8, 290000, 3 + rng.randrange(0, 90), 4, True))              # remainder > 2 * MAX_SIZE
    hs.append(one_d(6, 8, 290000, 125000, 6, False))                                      # lead-in exactly MAX_SIZE
    if thorough:
        hs.append(one_d(20, 1, 2300000, 1234567 + rng.randrange(0, 1000), 7, False))
        hs.append(one_d(16384 | 21, 1, 2300000, 2000001 + rng.randrange(0, 200000), 5, True))
    for row, col in ((155 + rng.randrange(0, 5), 123), (260 + rng.randrange(0, 9), 777)):
        nt, w, d0, d1 = 6, 8, 300, 1000
        h = ["H 2 %d 0 %d %d" % (nt, d0, d1),
             "W 1 %d %d 1 2 2 3 6 %s" % (row, col, " ".join(vals(6, w)))]
        rd = ["R 0 %d %d 1 1 2 7" % (row, col - 1), "R 0 %d %d 1 1 2 2" % (row - 1, d1 - 2),
              "R 0 0 0 1 1 1 2", "R 0 124 998 1 1 2 2", "R 0 %d %d 1 1 1 2" % (d0 - 1, d1 - 2),
              "R 1 0 %d 100 1 3 1" % col]
        hs.append(h + rd + ["G", "C"] + rd + ["E"])
    return hs


def exhaustive_small(rng):
    """Rank <= 2, extents <= 3: every (start, stride, count) with start in -1..d, stride 1..2, count 0..d+1
    (thorough tier), written then read back through a different full read."""
    hs = []
    for dims in ([2], [3], [2, 3], [3, 2]):
        per = []
        for d in dims:
            per.append([(s, t, c) for s in range(-1, d + 1) for t in (1, 2) for c in range(0, d + 2)])
        import itertools
        for combo in itertools.product(*per):
            st = [x[0] for x in combo]
            sd = [x[1] for x in combo]
            ct = [x[2] for x in combo]
            n = 1
            for c in ct:
                n *= max(c, 0)
            rank = len(dims)
            nt = rng.choice([20, 22, 24, 4096 | 23, 16384 | 25, 5])
            w = BASES[nt & 255]
            vals = ["%02x" % ((17 + i * 3) & 255) * w for i in range(n)]
            full = Gen.fmt_req("R", 0, [0] * rank, [1] * rank, dims)
            h = ["H %d %d 0%s" % (rank, nt, "".join(" %d" % d for d in dims)),
                 Gen.fmt_req("W", 1, st, sd, ct) + " %d%s" % (n, "".join(" " + v for v in vals)),
                 full, Gen.fmt_req("R", 1, st, sd, ct), "C", full, "E"]
            hs.append(h)
    return hs


def run(ctx):
    g = Gen(ctx.rng)
    n = 700 if ctx.tier == "quick" else 14000
    hists = corpus(ctx)
    ncorpus = len(hists)
    hists += [g.history() for _ in range(n)]
    heavy = [g.history(mode_heavy=True) for _ in range(150 if ctx.tier == "quick" else 3000)]
    hists += heavy
    hists += [g.history(spot=8) for _ in range(6 if ctx.tier == "quick" else 60)]
    hists += [g.history(spot=32) for _ in range(4 if ctx.tier == "quick" else 40)]
    nmulti = 250 if ctx.tier == "quick" else 4000
    multi = [g.multi_history() for _ in range(nmulti)]
    hists += multi
    big = big_histories(ctx.rng, ctx.tier == "thorough")
    hists += big
    if ctx.tier == "thorough":
        hists += exhaustive_small(ctx.rng)
    stats = {"histories": len(hists), "corpus": ncorpus, "large_offset_histories": len(big), "fillmode_toggle_histories": len(heavy), "multi_dataset_histories": len(multi), "ops": {}, "write_ok": 0, "write_fail": 0, "write_any": 0,
             "read_ok": 0, "read_fail": 0, "read_any": 0, "cells_compared": 0, "unlimited": 0, "strided_ops": 0,
             "reopen": 0, "nofill_histories": 0, "rank_hist": {}, "type_hist": {}, "harness_deaths": 0,
             "model_compared_ops": 0}
    queue = list(hists)
    model_reports = 0
    todo = []
    base = 0
    CH = 120     # histories per harness process (keeps one process's leaked state from piling up)
    while todo or queue:
        if not todo:
            todo, queue = queue[:CH], queue[CH:]
        rc, R, S, M = run_batch(ctx, todo, "main")
        (Rh, noise), Sh, Mh = split_r(R, todo), split_hist(S, todo), split_hist(M, todo)
        died_at = None
        for k, h in enumerate(todo):
            if len(Rh[k]) < len(h):
                died_at = k
            meta = meta_of(h)
            sp, mp = check_history(h, Rh[k], Sh[k], Mh[k], meta)
            hd = h[0].split()
            stats["rank_hist"][hd[1]] = stats["rank_hist"].get(hd[1], 0) + 1
            stats["type_hist"][hd[2]] = stats["type_hist"].get(hd[2], 0) + 1
            stats["unlimited"] += hd[3] == "1"
            stats["datasets"] = stats.get("datasets", 0) + sum(1 for l in h if l[0] in "HD")
            stats["nofill_histories"] += any(l == "M 256" for l in h)
            for i, hl in enumerate(h):
                stats["ops"][hl[0]] = stats["ops"].get(hl[0], 0) + 1
                if hl[0] in "WR" and i < len(Sh[k]):
                    kind = Sh[k][i].split()[1]
                    stats[("write_" if hl[0] == "W" else "read_") + kind] += 1
                    stats["strided_ops"] += hl.split()[1] == "1"
                    if hl[0] == "R" and kind == "ok":
                        stats["cells_compared"] += sum(1 for x in Sh[k][i].split()[3:] if x != "?")
                if hl[0] in "WRG" and i < len(Mh[k]) and Mh[k][i] != "-":
                    stats["model_compared_ops"] += 1
                stats["reopen"] += hl[0] == "C"
                stats["readonly_sessions"] = stats.get("readonly_sessions", 0) + (hl[0] == "O")
            ctx.case(tuple(h), bool(meta.get("compared")),
                     sample={"history": [x[:100] for x in h[:6]], "lib": [x[:100] for x in Rh[k][:6]]}
                     if (base + k) % 157 == 0 else None)
            if sp or (mp and not model_reports):
                if died_at == k:
                    stats["harness_deaths"] += 1
                if not sp:
                    model_reports += 1      # one report of a broken R ~ M tie is enough; keep looking for R vs S
                report(ctx, h, sp, mp, Rh[k], Sh[k], Mh[k], noise[k])
            if mp and not sp:
                stats["model_mismatches"] = stats.get("model_mismatches", 0) + 1
            if died_at is not None or len(ctx.violations) >= 3:
                break
        if len(ctx.violations) >= 3:
            break
        if died_at is None:
            base += len(todo)
            todo = []
        else:
            base += died_at + 1
            todo = todo[died_at + 1:]
    stats["boundary_hits"] = {"oob_requests": stats["write_fail"] + stats["read_fail"],
                              "degenerate_requests": stats["write_any"] + stats["read_any"]}
    ctx.corr("SD~array-spec~slab-model", **stats)


def replay(ctx, path):
    lines = [l.strip() for l in open(path).read().splitlines()]
    lines = [l for l in lines if l and not l.startswith("#")]
    hs, cur = [], []
    for l in lines:
        cur.append(l)
        if l == "E":
            hs.append(cur)
            cur = []
    if cur:
        hs.append(cur + ["E"])
    bad = 0
    for h in hs:
        sp, mp, R, S, M = run_one(ctx, h, "replay")
        print("\n".join(x[2:] if x.startswith("# ") else x for x in side_by_side(h, R, S, M)))
        if run_one.noise:
            print("\n".join(run_one.noise[:40]))
        if sp:
            print("DISAGREES with the specification at op %d: %s" % sp)
            bad = 1
        elif mp:
            print("DISAGREES with the implementation model at op %d: %s" % mp)
            bad = 1
        else:
            print("agrees")
    return bad
