"""C15 -- all interfaces agree on the content of the same objects.

Correspondence: harness/drive_mix.c writes objects with one programming interface of the freshly built library
and reads them with every other interface able to address them (R); the extracted specification coq/MixSpec.v
says what each view must show (S); the extracted record models coq/MixModel.v (NT / SDD / NDG / ID / RIG codecs,
the NDG and Vgroup readers of the SD interface, the RIG readers of the raster interfaces) are run on the element
dump of the very files the library wrote, and their writers' records are read back by the library (R vs M).
R vs S decides the property; R vs M is the tie of the theorems in Properties_C15.v to the code."""
import glob
import os
import re
import shutil
import vcommon as vc

RULE = ("cases drawn from one PRNG (VERIF_SEED), one fresh file each; files hold several objects (1-4) in varied creation "
        "order, optionally after 1-2 objects of the other family (shifted refs), and optionally get a LATER session that "
        "only changes metadata of some objects (SDsetattr / GRsetattr) before every older interface reads them; "
        "(sds) datasets also carry dimension scales on arbitrary subsets of their dimensions (DFSDsetdimscale with NULL "
        "for the others / SDsetdimscale), label/unit/format strings and a range, compared through DFSDgetdimscale/"
        "getdatastrs/getrange and SDgetdimscale/getdatastrs/getrange; SD files hold several record variables with "
        "different record counts; GR files mix images without a raster-image group (other types, 2/4 components) with "
        "8/24-bit ones; counts (DFSDndatasets, DFR8nimages, DF24nimages, DFPnpals, SD/GR file info) are compared; "
        "dimensions also carry label/unit/format strings (DFSDsetdimstrs / SDsetdimstrs) and, for SD, user names drawn "
        "from a pool in which several names are proper prefixes of others (lat, lat_bnds, x, x1, x10 ...); some files hold "
        "more than ten dimension variables (fakeDim1 vs fakeDim10 ...); every DFSD read is repeated into a caller's array "
        "that is larger than the dataset by 0-3 in each dimension, through DFSDgetdata(maxsizes) | DFSDgetslice | "
        "DFSDreadslab, and every DFR8getimage into a larger xdim/ydim: same values at the array's strides, rest untouched; "
        "(dfsdseq) sessions of the single-file SDS writer given call by call - DFSDsetdims (new or the same), DFSDsetNT, "
        "DFSDsetdimscale (a scale or NULL), DFSDsetdatastrs, DFSDsetdimstrs, DFSDsetrange, DFSDadddata, DFSDclear - with no "
        "reset the sequence does not contain, steered towards set/write/remove/write and set/write/write; the raster "
        "writers likewise call DFR8setpalette / DF24setil only when the setting in effect changes; "
        "in half of the cases a second, different file holding objects under the same tag/refs (labels, descriptions, a "
        "dataset with scale, an 8-bit image with palette, a 24-bit image) is written and read through every single-file "
        "reader of the same process before the case's file is read; DFR8/DF24 images are read a second time by a caller "
        "that knows the dimensions and calls DFR8getimage / DF24getimage alone (no dimension query in between); "
        "(sds) 1-6 datasets of rank 1-4, extents 1-5, "
        "every 8/16/32-bit integer, char and float32/64 type in standard, little-endian and native flavour, optional "
        "unlimited first dimension, written by DFSDadddata | SDcreate+SDwritedata | nccreate/ncdimdef/ncvardef/ncvarput "
        "and read by DFSDgetdims/getNT/getdata, SDgetinfo/SDreaddata, ncvarinq/ncvarget, the Vgroup/Vdata records "
        "(Vgettagref, VSread of the dimension Vdatas, the NT and SD elements) and SD again after the CDF0.0 Vgroup was "
        "removed (NDG description only); (img) 1-3 images of 1-6 x 1-6 pixels, 1-4 components, every interlace, "
        "uncompressed / RLE / deflate, with or without palette, written by DFR8addimage | DF24addimage | "
        "GRcreate+GRwriteimage(+GRwritelut) and read by DFR8getimage, DF24getimage (each requested interlace), "
        "GRreadimage+GRreadlut (each requested interlace), DFPgetpal, the RI0.0 Vgroup records and GR again after the "
        "RIG0.0 Vgroup was removed (RIG description only); (pal) DFPaddpal; (ann) file/object labels and descriptions "
        "written by DFAN* | AN* and read by both; (raw) old-style files assembled from the Coq record writers "
        "(SDG+SDD+NT+SD, NDG, RIG+ID, bare RI8/ID8/IP8) read by every interface; (legacy) every checked-in HDF file "
        "under hdf/test/test_files and mfhdf/test read by every interface.  A case is non-trivial when at least "
        "two different interfaces returned the values of at least one object; distinct by its full text")
TRUSTED = ["Coq 8.16.1 kernel",
           "translator gen/gen_consts.py + plugin gen/plugins/mix_codec.py (constants, switch tables, ENCODE/DECODE "
           "field sequences) run on htags.h, hntdefs.h, hdf.h, mfgr.h, dfsd.c, dfr8.c, dfgr.c, mfgr.c, hdfsds.c, cdf.c",
           "extraction: Require Extraction + ExtrOcamlBasic; no Extract Constant; Z/positive/nat extracted as inductives",
           "OCaml driver extract/mix_main.ml, C harness harness/drive_mix.c, generator and comparison in checks/C15.py",
           "modelled, not verified: everything below the records (element store C01/C12, Vgroup/Vdata C07/C08, "
           "number-type conversion C06, compression coders C05, the SD hyperslab engine C03, GR interlace conversion "
           "C09); end-to-end agreement of the interfaces rests on the correspondence runs"]
ASSUMPTIONS = ["host is little-endian; JPEG and IMCOMP images are outside the equality claim (dimensions only)",
               "the older raster calls address an image only through a raster-image group; GR writes one for "
               "8-bit unsigned images of 1 or 3 components",
               "record variables with different record counts in one file: the netCDF-style calls and the record-dimension "
               "Vdata know a single record count per file (the largest), so these two views are compared only when the "
               "counts agree; DFSD, SD and the NDG path are always compared",
               "metadata direction: the multi-file SD calls keep scales/strings/range in dimension variables and "
               "attributes which the older NDG description cannot hold; DFSD shows them for DFSD-written datasets only, "
               "and shows every SD dimension scale as a one-dimensional dataset of its own (it is an SD variable)",
               "bare Raster-8 files (RI8/ID8/IP8 without RIG): a palette stays in effect for the following images "
               "(the 8-bit calls apply it, GR shows it only with the image it was stored with), so generated files "
               "give every image after the first palette its own",
               "one label and one description per object (the DFAN calls return the first one only); annotation "
               "order within one kind is not compared"]

BASES = {3: 1, 4: 1, 20: 1, 21: 1, 22: 2, 23: 2, 24: 4, 25: 4, 5: 4, 6: 8}
NC_OK = [20, 4, 22, 24, 5, 6]


# --------------------------------------------------------------------------------------------
# generator
# --------------------------------------------------------------------------------------------
def rbytes(r, n):
    style = r.randrange(5)
    if style == 0:
        b = r.randrange(256)
        return [b] * n
    if style == 1:
        s = r.randrange(256)
        return [(s + i) & 255 for i in range(n)]
    if style == 2:
        # runs (RLE boundaries) mixed with noise
        out = []
        while len(out) < n:
            if r.random() < 0.5:
                out += [r.randrange(256)] * r.choice([2, 3, 4, 127, 128, 129])
            else:
                out += [r.randrange(256) for _ in range(r.randrange(1, 5))]
        return out[:n]
    return [r.randrange(256) for _ in range(n)]


def hexs(b):
    return "".join("%02x" % x for x in b) if b else "-"


def rstr(r):
    return [r.randrange(33, 127) for _ in range(r.choice([1, 2, 5, 8]))]


def gen_pad(r):
    """how much larger than the object the reading caller's array is (2 bits per dimension) and which call reads"""
    if r.random() < 0.3:
        return 0
    p = 0
    for i in range(4):
        p |= r.choice([0, 0, 1, 2, 3]) << (2 * i)
    return p | (r.choice([0, 0, 1, 2]) << 12)


def gen_sds(r):
    w = r.choice(["dfsd", "sd", "sd", "nc"])
    n = r.choice([1, 2, 2, 3, 4])
    many = w != "nc" and r.random() < 0.12      # a file with more than ten dimensions that all have variables
    if many:
        n = r.choice([4, 5, 6])
    ds = []
    unl_used = False
    # dimension names an SD writer may give: several are proper prefixes of others
    names = ["lat", "lat_bnds", "lat2", "x", "x1", "x10", "t", "time", "ti", "lon", "lo", "l", "fake", "fakeD"]
    r.shuffle(names)
    nrec = r.choice([1, 2, 3, 5])     # the netCDF-style calls know one record count per file
    for _ in range(n):
        rank = r.choice([1, 1, 2, 2, 3, 3, 4]) if not many else 3
        dims = [r.choice([1, 2, 3, 4, 5]) for _ in range(rank)]
        if w == "nc":
            nt = r.choice(NC_OK)
        else:
            nt = r.choice(list(BASES)) | r.choice([0, 0, 0, 0x4000, 0x1000])
        unl = False
        if w == "sd" and r.random() < 0.45:
            unl = True          # several record variables, each with its own record count
        if w == "nc" and not unl_used and r.random() < 0.3:
            unl = unl_used = True
            dims[0] = nrec
        ne = 1
        for d in dims:
            ne *= d
        wd = BASES[nt & 255]
        d = {"dims": dims, "unl": unl, "nt": nt, "data": rbytes(r, ne * wd), "scales": [None] * rank, "strs": None, "range": None,
             "dstrs": [None] * rank, "dnames": [[] for _ in range(rank)]}
        if w in ("dfsd", "sd") and (many or r.random() < 0.5):
            # label/unit/format of dimensions, on an arbitrary subset (all of them in a many-dimension file)
            for i in range(rank):
                if many or r.random() < 0.5:
                    d["dstrs"][i] = (rstr(r), rstr(r) if r.random() < 0.7 else [], rstr(r) if r.random() < 0.7 else [])
        if w == "sd" and r.random() < 0.5:
            for i in range(rank):
                if names and r.random() < 0.6:
                    d["dnames"][i] = [ord(ch) for ch in names.pop()]
        if w in ("dfsd", "sd") and (many or r.random() < 0.6):
            # dimension scales on an arbitrary subset of the dimensions (never on a record dimension)
            for i in range(rank):
                if (many or r.random() < 0.5) and not (unl and i == 0):
                    d["scales"][i] = rbytes(r, dims[i] * wd)
        if w in ("dfsd", "sd") and r.random() < 0.4:
            d["strs"] = (rstr(r), rstr(r) if r.random() < 0.7 else [], rstr(r) if r.random() < 0.7 else [])
        if w in ("dfsd", "sd") and r.random() < 0.3:
            d["range"] = (rbytes(r, wd), rbytes(r, wd))
        if w == "sd":
            # an SD dimension with strings but no scale becomes a coordinate variable without values, which the older
            # description shows as a dataset with unspecified content: keep strings on dimensions that have a scale
            for i in range(rank):
                if d["dstrs"][i] and not d["scales"][i]:
                    if unl and i == 0:
                        d["dstrs"][i] = None
                    else:
                        d["scales"][i] = rbytes(r, dims[i] * wd)
        ds.append(d)
    pre = r.choice([0, 0, 1, 2]) if w != "nc" else 0
    edits = sorted(r.sample(range(n), r.randrange(1, n + 1))) if (w == "sd" and r.random() < 0.5) else []
    return {"kind": "sds", "w": w, "pre": pre, "edits": edits, "pad": gen_pad(r) | (r.choice([0, 1]) << 15), "objs": ds}


def gen_img(r):
    w = r.choice(["df", "gr", "gr"])
    n = r.choice([1, 2, 2, 3, 4])
    ims = []
    for k in range(n):
        x, y = r.choice([1, 2, 3, 4, 5, 6]), r.choice([1, 2, 3, 4, 5, 6])
        if r.random() < 0.1:
            x = r.choice([130, 257])    # rows longer than one RLE run
        if w == "df":
            nc = r.choice([1, 1, 3])
            nt = 3
            il = r.choice([0, 1, 2]) if nc == 3 else 0
            comp = r.choice([0, 1]) if nc == 1 else 0
            pal = nc == 1 and r.random() < 0.5
        else:
            # images the older calls cannot take (no raster-image group) mixed with the ones they can, in any
            # creation order: group refs and image refs then differ
            if r.random() < 0.35:
                nc, nt = r.choice([(2, 21), (4, 21), (1, 20), (3, 4), (1, 3)])
            else:
                nc, nt = r.choice([1, 1, 3]), 21
            il = r.choice([0, 1, 2])
            comp = r.choice([0, 0, 1, 2])
            pal = r.random() < 0.4
        ims.append({"x": x, "y": y, "nc": nc, "nt": nt, "il": il, "comp": comp, "data": rbytes(r, x * y * nc),
                    "pal": rbytes(r, 768) if pal else None})
    pre = r.choice([0, 0, 1, 2])
    edits = sorted(r.sample(range(n), r.randrange(1, n + 1))) if (w == "gr" and r.random() < 0.6) else []
    lazy = 0
    if w == "df" and r.random() < 0.6:
        # the palette / interlace set for one image stays in effect: consecutive images often share it and the writer
        # then makes no call for it
        lazy = 1 << 14
        for a, b in zip(ims, ims[1:]):
            if r.random() < 0.5 and a["nc"] == 1 and b["nc"] == 1:
                b["pal"] = a["pal"]
            if r.random() < 0.5 and a["nc"] == 3 and b["nc"] == 3:
                b["il"] = a["il"]
    return {"kind": "img", "w": w, "pre": pre, "edits": edits, "pad": (gen_pad(r) & 15) | lazy | (r.choice([0, 1]) << 15), "ril": r.choice([-1, 0, 1, 2]), "objs": ims}


def gen_rawsds(r):
    """an old-style file assembled from the Coq record writers: SDG form (float32 only) or NDG form"""
    form = r.choice(["sdg", "ndg"])
    ds = []
    for _ in range(r.choice([1, 2, 3])):
        rank = r.choice([1, 2, 3])
        dims = [r.choice([1, 2, 3, 4]) for _ in range(rank)]
        nt = 5 if form == "sdg" else r.choice(list(BASES)) | r.choice([0, 0, 0x4000])
        ne = 1
        for d in dims:
            ne *= d
        d = {"dims": dims, "unl": False, "nt": nt, "data": rbytes(r, ne * BASES[nt & 255]), "scales": [None] * rank,
             "strs": None, "range": None}
        if r.random() < 0.6:      # scales record written by the model: any subset of the dimensions
            for i in range(rank):
                if r.random() < 0.5:
                    d["scales"][i] = rbytes(r, dims[i] * BASES[nt & 255])
        ds.append(d)
    return {"kind": "rawsds", "form": form, "objs": ds}


def gen_rawimg(r):
    form = r.choice(["rig", "ri8"])
    ims = []
    for _ in range(r.choice([1, 2, 3])):
        x, y = r.choice([1, 2, 3, 4, 5]), r.choice([1, 2, 3, 4])
        nc = 1 if form == "ri8" else r.choice([1, 1, 3])
        il = 0
        # GR names the component type of a bare Raster-8 image DFNT_UINT8, of a RIG image what its NT record says
        # (in the bare Raster-8 convention a palette stays in effect for the images that follow it: once one image
        #  has a palette, the later ones of the file get their own)
        sticky = form == "ri8" and any(m["pal"] for m in ims)
        ims.append({"x": x, "y": y, "nc": nc, "nt": 21 if form == "ri8" else 3, "il": il, "comp": 0,
                    "data": rbytes(r, x * y * nc),
                    "pal": rbytes(r, 768) if (nc == 1 and (sticky or r.random() < 0.5)) else None})
    return {"kind": "rawimg", "form": form, "ril": r.choice([-1, 0]), "objs": ims}


def gen_dfsdseq(r):
    """a session of the single-file SDS writer: settings stay in effect between datasets unless a call changes them;
    no reset is issued that the sequence does not contain.  A light shadow (which dimensions have a scale) only steers
    the generator towards 'set, write, remove, write' and 'set, write, write' motifs."""
    ops = []
    dims, nt = None, None
    scaled = set()

    def setdims():
        nonlocal dims
        rank = r.choice([1, 2, 2, 3])
        nd = [r.choice([1, 2, 3, 4]) for _ in range(rank)]
        if nd != dims:
            scaled.clear()
        dims = nd
        ops.append(["D", str(rank)] + [str(x) for x in dims])

    def setnt():
        nonlocal nt
        n2 = r.choice(list(BASES)) | r.choice([0, 0, 0, 0x4000])
        if n2 != nt:
            scaled.clear()
        nt = n2
        ops.append(["N", str(nt)])

    def add():
        ne = 1
        for x in dims:
            ne *= x
        ops.append(["A", hexs(rbytes(r, ne * BASES[nt & 255]))])
    setdims()
    setnt()
    hs = lambda b: hexs(b) if b else "_"
    nadd = 0
    want = r.choice([2, 3, 3, 4, 5])
    while nadd < want and len(ops) < 60:
        a = r.random()
        wd = BASES[nt & 255]
        if a < 0.30:
            d = r.randrange(len(dims))
            if r.random() < 0.65:
                ops.append(["S", str(d), hexs(rbytes(r, dims[d] * wd))])
                scaled.add(d)
            else:
                ops.append(["S", str(d), "-"])       # NULL: remove the scale
                scaled.discard(d)
        elif a < 0.40:
            ops.append(["T", hs(rstr(r)), hs(rstr(r) if r.random() < 0.7 else []), hs(rstr(r) if r.random() < 0.7 else [])])
        elif a < 0.50:
            ops.append(["X", str(r.randrange(len(dims))), hs(rstr(r)), hs(rstr(r) if r.random() < 0.7 else []), hs([])])
        elif a < 0.56:
            ops.append(["R", hexs(rbytes(r, wd)), hexs(rbytes(r, wd))])
        elif a < 0.62:
            if r.random() < 0.5:
                ops.append(["D", str(len(dims))] + [str(x) for x in dims])     # the same dimensions again: nothing changes
            else:
                setdims()
        elif a < 0.66:
            setnt()
        elif a < 0.69:
            ops.append(["C"])
            scaled.clear()
            dims = None
            setdims()
            nt = None
            setnt()
        else:
            add()
            nadd += 1
            if scaled and r.random() < 0.5:
                # a written dataset had scales: remove one (or keep all) and write the next dataset right away
                if r.random() < 0.7:
                    d = r.choice(sorted(scaled))
                    ops.append(["S", str(d), "-"])
                    scaled.discard(d)
                if r.random() < 0.3:
                    ops.append(["D", str(len(dims))] + [str(x) for x in dims])
                add()
                nadd += 1
    return {"kind": "dfsdseq", "w": "dfsd", "ops": ops}


def gen_pal(r):
    return {"kind": "pal", "objs": [rbytes(r, 768) for _ in range(r.choice([1, 2, 3]))]}


def gen_ann(r):
    w = r.choice(["dfan", "an"])
    n = r.randrange(1, 7)
    seen = set()
    objs = []
    for _ in range(n):
        ty = r.choice(["fl", "fd", "ol", "od"])
        tag, ref = (r.choice([702, 720, 306, 1962, 1965]), r.randrange(1, 6)) if ty[0] == "o" else (0, 0)
        if ty[0] == "o":
            if (ty, tag, ref) in seen:
                continue
            seen.add((ty, tag, ref))
        ln = r.choice([1, 2, 5, 17, 40])
        if ty in ("fl", "ol"):
            txt = [r.randrange(33, 127) for _ in range(ln)]
        else:
            txt = [r.randrange(256) for _ in range(ln)]
        objs.append({"ty": ty, "tag": tag, "ref": ref, "txt": txt})
    return {"kind": "ann", "w": w, "decoy": r.choice([0, 1, 1]), "objs": objs}


def meta_tok(d):
    hs = lambda b: hexs(b) if b else "_"
    it = ["s%d=%s" % (i, hexs(sc)) for i, sc in enumerate(d.get("scales") or []) if sc]
    if d.get("strs"):
        it.append("t=%s;%s;%s" % tuple(hs(x) for x in d["strs"]))
    if d.get("range"):
        it.append("r=%s;%s" % (hexs(d["range"][0]), hexs(d["range"][1])))
    for i, x in enumerate(d.get("dstrs") or []):
        if x:
            it.append("d%d=%s;%s;%s" % ((i,) + tuple(hs(y) for y in x)))
    for i, x in enumerate(d.get("dnames") or []):
        if x:
            it.append("n%d=%s" % (i, hexs(x)))
    return ",".join(it) or "-"


def parse_meta(tok, rank):
    d = {"scales": [None] * rank, "strs": None, "range": None, "dstrs": [None] * rank, "dnames": [[] for _ in range(rank)]}
    ub = lambda h: [] if h == "_" else list(bytes.fromhex(h))
    if tok != "-":
        for it in tok.split(","):
            if it[0] == "s":
                i, h = it[1:].split("=")
                d["scales"][int(i)] = ub(h)
            elif it[0] == "t":
                d["strs"] = tuple(ub(x) for x in it[2:].split(";"))
            elif it[0] == "d":
                i, h = it[1:].split("=")
                d["dstrs"][int(i)] = tuple(ub(x) for x in h.split(";"))
            elif it[0] == "n":
                i, h = it[1:].split("=")
                d["dnames"][int(i)] = ub(h)
            elif it[0] == "r":
                d["range"] = tuple(ub(x) for x in it[2:].split(";"))
    return d


def emit(cid, c):
    k = c["kind"]
    if k == "sds":
        t = ["%s sds %s %d %s %d %d" % (cid, c["w"], c.get("pre", 0), ",".join(map(str, c.get("edits", []))) or "-", c.get("pad", 0), len(c["objs"]))]
        for d in c["objs"]:
            dims = ["%s%d" % ("u" if (d["unl"] and i == 0) else "", x) for i, x in enumerate(d["dims"])]
            t.append("%d %s %d %s %s" % (len(d["dims"]), " ".join(dims), d["nt"], hexs(d["data"]), meta_tok(d)))
        return " ".join(t)
    if k == "img":
        t = ["%s img %s %d %s %d %d %d" % (cid, c["w"], c.get("pre", 0), ",".join(map(str, c.get("edits", []))) or "-", c.get("pad", 0), c["ril"], len(c["objs"]))]
        for m in c["objs"]:
            t.append("%d %d %d %d %d %d %s %s" % (m["x"], m["y"], m["nc"], m["nt"], m["il"], m["comp"], hexs(m["data"]),
                                                   hexs(m["pal"]) if m["pal"] else "-"))
        return " ".join(t)
    if k == "pal":
        return "%s pal %d %s" % (cid, len(c["objs"]), " ".join(hexs(p) for p in c["objs"]))
    if k == "ann":
        t = ["%s ann %s %d %d" % (cid, c["w"], c.get("decoy", 0), len(c["objs"]))]
        for a in c["objs"]:
            t.append("%s %d %d %s" % (a["ty"], a["tag"], a["ref"], hexs(a["txt"])))
        return " ".join(t)
    if k == "legacy":
        return "%s legacy %s" % (cid, c["path"])
    if k == "dfsdseq":
        return "%s dfsdseq %d %s" % (cid, len(c["ops"]), " ".join(" ".join(o) for o in c["ops"]))
    if k == "rawsds":
        t = ["%s rawsds %s %d" % (cid, c["form"], len(c["objs"]))]
        for d in c["objs"]:
            t.append("%d %s %d %s %s" % (len(d["dims"]), " ".join(map(str, d["dims"])), d["nt"], hexs(d["data"]), meta_tok(d)))
        return " ".join(t)
    if k == "rawimg":
        t = ["%s rawimg %s %d %d" % (cid, c["form"], c["ril"], len(c["objs"]))]
        for m in c["objs"]:
            t.append("%d %d %d %d %d %d %s %s" % (m["x"], m["y"], m["nc"], m["nt"], m["il"], m["comp"], hexs(m["data"]),
                                                   hexs(m["pal"]) if m["pal"] else "-"))
        return " ".join(t)
    if k == "text":
        return cid + " " + c["text"]
    raise ValueError(k)


def parse_case(line):
    """inverse of emit (corpus and replay files hold emitted lines)"""
    t = line.split()
    cid, k = t[0], t[1]
    i = [2]

    def nx():
        i[0] += 1
        return t[i[0] - 1]
    if k == "sds":
        w = nx()
        pre = int(nx())
        ed = nx()
        pad = int(nx())
        n = int(nx())
        objs = []
        for _ in range(n):
            rank = int(nx())
            dims, unl = [], False
            for j in range(rank):
                x = nx()
                if x.startswith("u"):
                    unl = True
                    x = x[1:]
                dims.append(int(x))
            nt = int(nx())
            h = nx()
            o = {"dims": dims, "unl": unl, "nt": nt, "data": list(bytes.fromhex(h)) if h != "-" else []}
            o.update(parse_meta(nx(), rank))
            objs.append(o)
        return cid, {"kind": "sds", "w": w, "pre": pre, "edits": [int(x) for x in ed.split(",")] if ed != "-" else [], "pad": pad, "objs": objs}
    if k == "img":
        w = nx()
        pre = int(nx())
        ed = nx()
        pad = int(nx())
        ril = int(nx())
        n = int(nx())
        objs = []
        for _ in range(n):
            x, y, nc, nt, il, comp = [int(nx()) for _ in range(6)]
            h, p = nx(), nx()
            objs.append({"x": x, "y": y, "nc": nc, "nt": nt, "il": il, "comp": comp,
                         "data": list(bytes.fromhex(h)) if h != "-" else [], "pal": list(bytes.fromhex(p)) if p != "-" else None})
        return cid, {"kind": "img", "w": w, "pre": pre, "edits": [int(x) for x in ed.split(",")] if ed != "-" else [], "pad": pad, "ril": ril, "objs": objs}
    if k == "pal":
        n = int(nx())
        return cid, {"kind": "pal", "objs": [list(bytes.fromhex(nx())) for _ in range(n)]}
    if k == "ann":
        w = nx()
        dec = int(nx())
        n = int(nx())
        objs = []
        for _ in range(n):
            ty, tag, ref, h = nx(), int(nx()), int(nx()), nx()
            objs.append({"ty": ty, "tag": tag, "ref": ref, "txt": list(bytes.fromhex(h)) if h != "-" else []})
        return cid, {"kind": "ann", "w": w, "decoy": dec, "objs": objs}
    if k == "legacy":
        return cid, {"kind": "legacy", "path": nx()}
    if k == "dfsdseq":
        n = int(nx())
        ops = []
        arity = {"N": 1, "S": 2, "T": 3, "X": 4, "R": 2, "A": 1, "C": 0}
        for _ in range(n):
            o = nx()
            if o == "D":
                rk = nx()
                ops.append(["D", rk] + [nx() for _ in range(int(rk))])
            else:
                ops.append([o] + [nx() for _ in range(arity[o])])
        return cid, {"kind": "dfsdseq", "w": "dfsd", "ops": ops}
    if k == "rawsds":
        form = nx()
        n = int(nx())
        objs = []
        for _ in range(n):
            rank = int(nx())
            dims = [int(nx()) for _ in range(rank)]
            nt = int(nx())
            h = nx()
            o = {"dims": dims, "unl": False, "nt": nt, "data": list(bytes.fromhex(h)) if h != "-" else []}
            o.update(parse_meta(nx(), rank))
            objs.append(o)
        return cid, {"kind": "rawsds", "form": form, "objs": objs}
    if k == "rawimg":
        form = nx()
        ril = int(nx())
        n = int(nx())
        objs = []
        for _ in range(n):
            x, y, nc, nt, il, comp = [int(nx()) for _ in range(6)]
            h, p_ = nx(), nx()
            objs.append({"x": x, "y": y, "nc": nc, "nt": nt, "il": il, "comp": comp,
                         "data": list(bytes.fromhex(h)) if h != "-" else [], "pal": list(bytes.fromhex(p_)) if p_ != "-" else None})
        return cid, {"kind": "rawimg", "form": form, "ril": ril, "objs": objs}
    return cid, {"kind": "text", "text": " ".join(t[1:])}


# --------------------------------------------------------------------------------------------
# running
# --------------------------------------------------------------------------------------------
def by_case(lines):
    out = {}
    for l in lines:
        sp = l.split(" ", 1)
        if len(sp) == 2:
            out.setdefault(sp[0], []).append(sp[1])
    return out


def run_cases(ctx, cases, tag):
    """cases: list of (cid, case).  Returns (R, S) dicts cid -> list of lines (without the id)."""
    exe = ctx.harness("drive_mix", ["drive_mix.c"])
    mod = ctx.model("mix_model", ["mix_main.ml"], ["mix_model"])
    wd = os.path.join(ctx.bdir, "harness", "c15-%s-%d" % (tag, os.getpid()))
    shutil.rmtree(wd, ignore_errors=True)
    os.makedirs(wd)
    p = os.path.join(wd, "cases.in")
    with open(p, "w") as fh:
        fh.write("\n".join(emit(cid, c) for cid, c in cases) + "\n")
    rcs, S = vc.run_lines(mod, p, timeout=900)
    if rcs != 0:
        raise vc.BuildError("model driver failed rc=%d: %s" % (rcs, "\n".join(S[-5:])))
    # the record writers' files (RAW lines) become harness cases
    rawline = {l.split(" ", 2)[0]: l.split(" ", 2)[2] for l in S if " RAW " in l[:40]}
    S = [l for l in S if " RAW " not in l[:40]]
    ph = os.path.join(wd, "harness.in")
    with open(ph, "w") as fh:
        for cid, c in cases:
            fh.write((cid + " " + rawline[cid] if cid in rawline else emit(cid, c)) + "\n")
    rc, R = vc.run_lines(exe, ph, timeout=1500, args=[wd])
    noise = [l for l in R if not re.match(r"^\S+ (w|rec|end|crash|dfsd|sd|sdn|nc|vg|vgi|dfr8|df24|gr|grr|dfp|dfan|an|legacy|dfsdmeta|sdmeta|dfsdp|dfr8p|df24s|dfr8s) ", l + " ")]
    Rd = by_case([l for l in R if l not in noise])
    Sd = by_case(S)
    # phase 2: the record models read the element dump of every file the library wrote
    p2 = os.path.join(wd, "recs.in")
    with open(p2, "w") as fh:
        for cid, c in cases:
            recs = [t for t in (l.split() for l in Rd.get(cid, []) if l.startswith("rec ")) if len(t) == 6 and t[4].lstrip("-").isdigit()]
            if recs and c["kind"] in ("sds", "img", "legacy", "pal", "dfsdseq"):
                fh.write("%s recs %d %s\n" % (cid, len(recs), " ".join("%s %s %s %s" % ((t[1], t[2], t[4], t[5]) if re.fullmatch(r"[0-9a-f]+|-", t[5]) else (t[1], t[2], "1", "-"))
                                                                     for t in recs)))
    rcm, M = vc.run_lines(mod, p2, timeout=900)
    if rcm != 0:
        raise vc.BuildError("model driver (records) failed rc=%d: %s" % (rcm, "\n".join(M[-5:])))
    Md = by_case(M)
    shutil.rmtree(wd, ignore_errors=True)
    return Rd, Sd, Md, noise


VIEWS = ("dfsd", "sd", "sdn", "nc", "vg", "vgi", "dfr8", "df24", "gr", "grr", "dfp", "dfan", "an", "dfsdmeta", "sdmeta", "dfsdp", "dfr8p", "df24s", "dfr8s")


def observed(lines):
    return sorted(l for l in lines if l.split(" ", 1)[0] in VIEWS)


def compare(c, R, S):
    """-> (list of disagreement strings, number of values compared)"""
    r, s = observed(R), observed(S)
    crash = [l for l in R if l.startswith("crash")]
    if crash:
        return ["library crashed: " + crash[0]], 0
    if c["kind"] == "img" and (c.get("pad", 0) >> 14) & 1:
        # a palette that stays in effect for several images is stored once: DFPnpals counts it once while DFPgetpal
        # meets it once per image; the palette calls are compared only when every image got its own palette
        r = [l for l in r if not l.startswith("dfp ")]
        s = [l for l in s if not l.startswith("dfp ")]
    named = set(" ".join(l.split()[:4]) for l in s if l.startswith("sdmeta ") and l.split()[2] == "dname")
    r = [l for l in r if not (l.startswith("sdmeta ") and l.split()[2] == "dname" and " ".join(l.split()[:4]) not in named)]
    if c["kind"] == "sds" and len(set(o["dims"][0] for o in c["objs"] if o["unl"])) > 1:
        # record variables with different record counts: the netCDF-style calls (and the record-dimension Vdata)
        # know one record count per file and present every record variable with the largest; outside the claim
        r = [l for l in r if l.split()[0] not in ("nc", "vg")]
        s = [l for l in s if l.split()[0] not in ("nc", "vg")]
    wfail = [l for l in R if l.startswith("w ") and re.search(r" -\d", l.split("ref=")[0])]
    # the Vgroup view cannot show the pixels of a compressed image: compare its description only
    rd = {" ".join(l.split()[:2]): l for l in r if l.startswith("vgi ") and l.endswith(" -")}
    if rd:
        s = [(" ".join(l.split()[:-1]) + " -") if " ".join(l.split()[:2]) in rd else l for l in s]
        s = sorted(s)
    bad = []
    if wfail:
        bad.append("a writing call failed: " + wfail[0][:100])
    if r != s:
        rs, ss = set(r), set(s)
        for l in s:
            if l not in rs:
                bad.append("expected  " + l[:300])
        for l in r:
            if l not in ss:
                bad.append("library   " + l[:300])
        if not bad:
            bad.append("same lines, different multiplicity")
    nvals = sum(1 for l in r if re.search(r" [0-9a-f]{2,}( |$)", l))
    return bad, nvals


# --------------------------------------------------------------------------------------------
# legacy files: the views of one file must agree with each other
# --------------------------------------------------------------------------------------------
def legacy_files():
    out = []
    for pat in ("hdf/test/test_files/*", "mfhdf/test/*.hdf", "mfhdf/test/*.dat", "mfhdf/test/*.nc"):
        for p in sorted(glob.glob(os.path.join(vc.REPO, pat))):
            try:
                if open(p, "rb").read(4) == b"\x0e\x03\x13\x01":
                    out.append(p)
            except OSError:
                pass
    return out


LOSSY = {12, 13, 14, 15, 16}     # DFTAG_IMC, DFTAG_JPEG, DFTAG_GREYJPEG, DFTAG_JPEG5, DFTAG_GREYJPEG5


def to_pixel(hexdata, il, X, Y, C):
    """GR hands an image over in its own interlace when none is requested; the older calls in pixel interlace"""
    if il == 0 or hexdata in ("-", "fail") or len(hexdata) != 2 * X * Y * C:
        return hexdata
    b = bytes.fromhex(hexdata)
    out = bytearray(len(b))
    for y in range(Y):
        for x in range(X):
            for c in range(C):
                src = (y * C + c) * X + x if il == 1 else (c * Y + y) * X + x
                out[(y * X + x) * C + c] = b[src]
    return out.hex()


def compare_legacy(R):
    """dfsd == sd (same datasets, same order); nc == sd with the type renamed; every dfr8 / df24 image is the
    gr image of the same position among the images of that component count."""
    bad, nvals = [], 0
    crash = [l for l in R if l.startswith("crash")]
    if crash:
        return ["library crashed: " + crash[0]], 0
    v = {k: [l.split()[1:] for l in R if l.startswith(k + " ") and not l.startswith(k + " n ")] for k in VIEWS}
    lossy = set()
    for l in R:
        t = l.split()
        if t[0] == "rec" and t[1] == "300" and len(t[5]) >= 36 and int(t[5][32:36], 16) in LOSSY:
            lossy.add((int(t[5][0:8], 16), int(t[5][8:16], 16)))
    # SD-family
    sd = [x for x in v["sd"] if x[0].isdigit()]
    dfsd = [x for x in v["dfsd"] if x[0].isdigit()]
    if dfsd and [x[1:] for x in dfsd] != [x[1:] for x in sd][:len(dfsd)] and [x[1:] for x in dfsd] != [x[1:] for x in sd if int(x[1]) > 0]:
        # (datasets that only the Vgroup description holds come after the NDG ones or have no NDG)
        common = [x[1:] for x in sd if x[1:] in [y[1:] for y in dfsd]]
        if common != [x[1:] for x in dfsd]:
            bad.append("DFSD and SD views differ: dfsd=%s sd=%s" % (str(dfsd)[:200], str(sd)[:200]))
    nvals += len(dfsd)
    nc = [x for x in v["nc"] if x[0].isdigit()]
    for a, b in zip(nc, sd):
        if a[1:-2] != b[1:-2] or a[-1] != b[-1]:
            bad.append("netCDF-style and SD views differ: nc=%s sd=%s" % (str(a)[:200], str(b)[:200]))
    nvals += len(nc)
    # raster family: position among the images with a raster-image group is not recoverable from GR alone, so
    # each old-interface image must equal some GR image of the same shape (in order)
    gr = [x for x in v["gr"] if x[0].isdigit() and len(x) > 7]
    for view, nc_ in (("dfr8", 1), ("df24", 3)):
        cand = [g for g in gr if int(g[3]) == nc_]
        used = set()
        for im in [x for x in v[view] if x[0].isdigit()]:
            x_, y_ = im[1], im[2]
            data = im[4] if len(im) > 4 else None
            ok = False
            for j, g in enumerate(cand):
                if j in used:
                    continue
                if g[1] == x_ and g[2] == y_ and ((int(x_), int(y_)) in lossy or data is None or
                                                 to_pixel(g[6], int(g[5]), int(x_), int(y_), nc_) == data):
                    ok = True
                    used.add(j)
                    break
            if not ok:
                bad.append("%s image %s (%sx%s) is not shown with the same content by GR" % (view, im[0], x_, y_))
            nvals += 1
    return bad, nvals


# --------------------------------------------------------------------------------------------
# shrinking
# --------------------------------------------------------------------------------------------
def shrinks(c):
    """smaller variants of a case"""
    if c["kind"] == "dfsdseq":
        for i, o in enumerate(c["ops"]):
            if o[0] in ("S", "T", "X", "R", "A") and not (o[0] == "A" and sum(1 for x in c["ops"] if x[0] == "A") <= 1):
                d = dict(c)
                d["ops"] = c["ops"][:i] + c["ops"][i + 1:]
                yield d
        return
    if c["kind"] not in ("sds", "img", "pal", "ann", "rawsds", "rawimg"):
        return
    objs = c["objs"]
    if len(objs) > 1:
        for i in range(len(objs)):
            d = dict(c)
            d["objs"] = objs[:i] + objs[i + 1:]
            if c.get("edits"):
                d["edits"] = [e if e < i else e - 1 for e in c["edits"] if e != i]
            yield d
    if c.get("edits"):
        d = dict(c)
        d["edits"] = []
        yield d
    if c.get("pre"):
        d = dict(c)
        d["pre"] = 0
        yield d
    if c.get("pad"):
        d = dict(c)
        d["pad"] = 0
        yield d
    if c["kind"] in ("sds", "rawsds"):
        for i, o in enumerate(objs):
            for j, dim in enumerate(o["dims"]):
                if dim > 1:
                    o2 = dict(o)
                    o2["dims"] = o["dims"][:j] + [1] + o["dims"][j + 1:]
                    ne = 1
                    for x in o2["dims"]:
                        ne *= x
                    o2["data"] = o["data"][:ne * BASES[o["nt"] & 255]]
                    if o.get("scales") and o["scales"][j]:
                        o2["scales"] = list(o["scales"])
                        o2["scales"][j] = o["scales"][j][:BASES[o["nt"] & 255]]
                    d = dict(c)
                    d["objs"] = objs[:i] + [o2] + objs[i + 1:]
                    yield d
    if c["kind"] in ("img", "rawimg"):
        for i, o in enumerate(objs):
            for key in ("x", "y"):
                if o[key] > 1:
                    o2 = dict(o)
                    o2[key] = 1
                    o2["data"] = o["data"][:o2["x"] * o2["y"] * o["nc"]]
                    d = dict(c)
                    d["objs"] = objs[:i] + [o2] + objs[i + 1:]
                    yield d
            if o["pal"]:
                o2 = dict(o)
                o2["pal"] = None
                d = dict(c)
                d["objs"] = objs[:i] + [o2] + objs[i + 1:]
                yield d


def fails(ctx, c):
    Rd, Sd, Md, _ = run_cases(ctx, [("x", c)], "shrink")
    bad, _ = compare(c, Rd.get("x", []), Sd.get("x", []))
    return bad


def shrink(ctx, c, limit=25):
    n = 0
    progress = True
    while progress and n < limit:
        progress = False
        for d in shrinks(c):
            n += 1
            if n > limit:
                break
            if fails(ctx, d):
                c = d
                progress = True
                break
    return c


# --------------------------------------------------------------------------------------------
# known findings: signatures computed from the failing case itself
# --------------------------------------------------------------------------------------------
def signature(c, bad, S=None):
    """'gr-reads-nonpixel-interlaced-rig': every disagreement is the GR view of a 24-bit image that DF24 stored with
    line or component interlace (GRreadimage takes the stored bytes for pixel-interlaced data)"""
    if c["kind"] in ("sds", "rawsds", "dfsdseq") and c.get("w", "dfsd") == "dfsd":
        # 'sd-drops-strings-of-unscaled-old-dimension': every disagreement is the SD view of the label/unit/format of a
        # dimension of an old-style (DFSD-written) dataset that has strings but no scale (decided on what the
        # specification expects for that dimension)
        exp = set(S or [])
        ok = bool(bad)
        for b in bad:
            m = re.match(r"^(expected|library)\s+sdmeta (\d+) dstrs (\d+) (.*)$", b)
            if not m:
                ok = False
                break
            if "sdmeta %s scale %s none" % (m.group(2), m.group(3)) not in exp or \
                    ("sdmeta %s dstrs %s - - -" % (m.group(2), m.group(3))) in exp:
                ok = False
                break
        if ok:
            return "sd-drops-strings-of-unscaled-old-dimension"
    if c["kind"] == "img" and c["w"] == "df" and c["ril"] >= 0:
        idx = set()
        for b in bad:
            m = re.match(r"^(expected|library)\s+gr (\d+) ", b)
            if not m:
                return None
            idx.add(int(m.group(2)))
        if idx and all(k < len(c["objs"]) and c["objs"][k]["nc"] == 3 and c["objs"][k]["il"] != 0 for k in idx):
            return "gr-reads-nonpixel-interlaced-rig"
    return None


def report(ctx, cid, c, R, S, bad, M=None):
    txt = ["# C15 replay: one case for harness/drive_mix.c; library (R) vs specification (S)",
           "# run: bin/check C15 --replay <this file>", emit(cid, c)]
    txt += ["# " + b for b in bad[:12]]
    ctx.violation("interfaces disagree on a %s case (%s): %s" % (c["kind"], c.get("w", ""), bad[0][:160]), "\n".join(txt),
                  found=True, signature=signature(c, bad, S))


def run(ctx):
    r = ctx.rng
    cases = []
    cdir = os.path.join(vc.VERIF, "corpus", "C15")
    for fn in sorted(glob.glob(os.path.join(cdir, "*.case"))):
        for l in open(fn).read().splitlines():
            if l.strip() and not l.startswith("#"):
                cid, c = parse_case(l)
                cases.append(("k%d" % len(cases), c))
    ncorpus = len(cases)
    nq = 1 if ctx.tier == "quick" else 12
    for i in range(90 * nq):
        cases.append(("s%d" % i, gen_sds(r)))
    for i in range(90 * nq):
        cases.append(("i%d" % i, gen_img(r)))
    for i in range(6 * nq):
        cases.append(("p%d" % i, gen_pal(r)))
    for i in range(40 * nq):
        cases.append(("a%d" % i, gen_ann(r)))
    for i in range(60 * nq):
        cases.append(("q%d" % i, gen_dfsdseq(r)))
    for i in range(25 * nq):
        cases.append(("rs%d" % i, gen_rawsds(r)))
    for i in range(25 * nq):
        cases.append(("ri%d" % i, gen_rawimg(r)))
    leg = legacy_files()
    for i, p in enumerate(leg):
        cases.append(("L%d" % i, {"kind": "legacy", "path": p}))
    Rd, Sd, Md, noise = run_cases(ctx, cases, "main")
    stats = {"cases": len(cases), "corpus": ncorpus, "legacy_files": len(leg), "by_kind": {}, "by_writer": {},
             "values_compared": 0, "number_types": {}, "interlace_pairs": {}, "compressions": {},
             "metadata_lines_compared": 0, "datasets_with_scales_on_a_proper_subset": 0, "scale_after_unscaled_dimension": 0,
             "files_with_differing_record_counts": 0, "later_metadata_sessions": 0, "foreign_objects_first": 0,
             "gr_files_with_group_less_image_before_group_image": 0, "objects_per_file": {},
             "dimensions_with_strings": 0, "named_dimensions": 0, "files_with_prefix_related_dimension_names": 0,
             "files_with_more_than_ten_dimension_variables": 0, "reads_into_larger_array": {"DFSDgetdata": 0, "DFSDgetslice": 0,
             "DFSDreadslab": 0, "DFR8getimage": 0}, "larger_in_non_leading_dimension": 0,
             "writer_sessions": 0, "session_ops": {}, "sessions_scale_removed_between_datasets": 0,
             "sessions_scale_kept_between_datasets": 0, "lazy_raster_writers": 0,
             "cases_with_another_file_read_in_between": 0, "reads_without_dimension_query": 0,
             "files_with_8bit_image_before_24bit_image": 0}
    nviol = 0
    for cid, c in cases:
        R, S = Rd.get(cid, []), Sd.get(cid, [])
        k = c["kind"]
        stats["by_kind"][k] = stats["by_kind"].get(k, 0) + 1
        if "w" in c:
            stats["by_writer"][c["w"]] = stats["by_writer"].get(c["w"], 0) + 1
        if k == "legacy":
            bad, nv = compare_legacy(R)
        else:
            bad, nv = compare(c, R, S)
        if k in ("sds", "img"):
            stats["objects_per_file"][str(len(c["objs"]))] = stats["objects_per_file"].get(str(len(c["objs"])), 0) + 1
            stats["later_metadata_sessions"] += 1 if c.get("edits") else 0
            stats["foreign_objects_first"] += 1 if c.get("pre") else 0
        if k == "sds" and len(set(o["dims"][0] for o in c["objs"] if o["unl"])) > 1:
            stats["files_with_differing_record_counts"] += 1
        if k == "img" and c["w"] == "gr":
            rig = [(o["nt"] == 21 and o["nc"] in (1, 3)) for o in c["objs"]]
            if any((not a) and any(rig[i + 1:]) for i, a in enumerate(rig)):
                stats["gr_files_with_group_less_image_before_group_image"] += 1
        if k == "sds":
            nm = ["".join(map(chr, x)) for o in c["objs"] for x in o.get("dnames", []) if x]
            stats["named_dimensions"] += len(nm)
            stats["dimensions_with_strings"] += sum(1 for o in c["objs"] for x in o.get("dstrs", []) if x)
            if any(a != b and b.startswith(a) for a in nm for b in nm):
                stats["files_with_prefix_related_dimension_names"] += 1
            if sum(1 for o in c["objs"] for i in range(len(o["dims"])) if o["scales"][i] or o["dstrs"][i] or c["w"] == "dfsd") > 10:
                stats["files_with_more_than_ten_dimension_variables"] += 1
            if c.get("pad"):
                stats["reads_into_larger_array"][("DFSDgetdata", "DFSDgetslice", "DFSDreadslab", "DFSDgetdata")[(c["pad"] >> 12) & 3]] += 1
                if any(((c["pad"] >> (2 * i)) & 3) and i < len(o["dims"]) for o in c["objs"] for i in range(1, 4)):
                    stats["larger_in_non_leading_dimension"] += 1
        if k == "img" and c.get("pad", 0) & 15:
            stats["reads_into_larger_array"]["DFR8getimage"] += 1
        if k == "img" and (c.get("pad", 0) >> 14) & 1:
            stats["lazy_raster_writers"] += 1
        if (k in ("sds", "img") and (c.get("pad", 0) >> 15) & 1) or (k == "ann" and c.get("decoy")) or \
                (k == "dfsdseq" and len(c["ops"]) & 1):
            stats["cases_with_another_file_read_in_between"] += 1
        stats["reads_without_dimension_query"] += sum(1 for l in R if l.startswith(("df24s ", "dfr8s ")))
        if k == "img":
            ncs = [o["nc"] for o in c["objs"]]
            if any(a == 1 and 3 in ncs[i + 1:] for i, a in enumerate(ncs)):
                stats["files_with_8bit_image_before_24bit_image"] += 1
        if k == "dfsdseq":
            stats["writer_sessions"] += 1
            have, wrote, rem, kept = set(), False, False, False
            for o in c["ops"]:
                stats["session_ops"][o[0]] = stats["session_ops"].get(o[0], 0) + 1
                if o[0] == "S" and o[2] != "-":
                    have.add(o[1])
                elif o[0] == "S":
                    rem = rem or (wrote and o[1] in have)
                    have.discard(o[1])
                elif o[0] == "A":
                    kept = kept or (wrote and bool(have))
                    wrote = bool(have)
                elif o[0] in ("C", "N") or o[0] == "D":
                    pass
            stats["sessions_scale_removed_between_datasets"] += 1 if rem else 0
            stats["sessions_scale_kept_between_datasets"] += 1 if kept else 0
        stats["metadata_lines_compared"] += sum(1 for l in R if l.startswith(("sdmeta ", "dfsdmeta ")))
        for o in c.get("objs", []):
            if k in ("sds", "rawsds") and o.get("scales"):
                sc = [x is not None for x in o["scales"]]
                if any(sc) and not all(sc):
                    stats["datasets_with_scales_on_a_proper_subset"] += 1
                if any((not a) and any(sc[i + 1:]) for i, a in enumerate(sc)):
                    stats["scale_after_unscaled_dimension"] += 1
            if k == "sds":
                stats["number_types"][str(o["nt"])] = stats["number_types"].get(str(o["nt"]), 0) + 1
            if k == "img":
                key = "%d->%d" % (o["il"], c["ril"])
                stats["interlace_pairs"][key] = stats["interlace_pairs"].get(key, 0) + 1
                stats["compressions"][str(o["comp"])] = stats["compressions"].get(str(o["comp"]), 0) + 1
        stats["values_compared"] += nv
        ctx.case(emit("", c), nv >= 2, sample={"case": emit(cid, c)[:160], "library": observed(R)[:4]}
                 if len(ctx.coverage["samples"]) < 4 and nv >= 2 else None)
        if bad and nviol < 3:
            sig = signature(c, bad, S)
            if sig is not None and ctx.match_known(sig) is not None:
                ctx.violation("known finding", "", found=True, signature=sig)
                continue
            nviol += 1
            small = shrink(ctx, c) if k != "legacy" else c
            R2, S2, M2, _ = run_cases(ctx, [(cid, small)], "rep")
            bad2 = (compare_legacy(R2.get(cid, [])) if k == "legacy" else compare(small, R2.get(cid, []), S2.get(cid, [])))[0]
            report(ctx, cid, small, R2.get(cid, []), S2.get(cid, []), bad2 or bad)
    if noise and nviol == 0:
        ctx.violation("harness printed unexpected output: " + noise[0][:200], "\n".join(noise[:30]), found=True)
    ctx.corr("views~MixSpec", **stats)
    run_models(ctx, cases, Rd, Md)


def to_file_order(nt, hexdata):
    """memory (little-endian host) -> stored byte order of an array of number type nt"""
    if hexdata in ("-", "fail") or nt & 0x5000:
        return hexdata
    w = BASES.get(nt & 255, 1)
    b = bytes.fromhex(hexdata)
    return b"".join(b[i:i + w][::-1] for i in range(0, len(b), w)).hex()


def model_disagreements(c, R, M):
    """R vs M on one file: the record models, run on the element dump of the file the library wrote, must
    reconstruct what the library's own readers show, and must re-encode every record byte for byte."""
    bad = []
    k = c["kind"]
    strict = k != "legacy"
    for l in M:
        t = l.split()
        if t[0] == "wm" and t[-1] in ("differs", "undecodable") and (strict or t[-1] == "differs"):
            bad.append("record codec: " + l)
    rows = lambda view, lines: [l.split()[1:] for l in lines if l.startswith(view + " ") and l.split()[1].isdigit()]

    def sds_keys(view, lines, model):
        out = []
        for x in rows(view, lines):
            if model:
                if x[-1] == "none":
                    out.append(("none",))
                    continue
                x = [x[0]] + x[3:]
            rank = int(x[1])
            dims, nt, data = x[2:2 + rank], int(x[2 + rank]), x[3 + rank]
            # (the model lines carry the values already converted to memory order by MixModel.convert)
            out.append((rank, tuple(dims), nt, data))
        return out

    def same(a, b):
        if len(a) != len(b):
            return False
        b = list(b)
        for x in a:
            hit = None
            for y in b:
                if x[:-1] == y[:-1] and (x[-1] == y[-1] or not re.fullmatch(r"[0-9a-f]+", str(x[-1])) or
                                         not re.fullmatch(r"[0-9a-f]+", str(y[-1]))):
                    hit = y
                    break
            if hit is None:
                return False
            b.remove(hit)
        return True
    if k == "dfsdseq":
        k = "sds"
    if k in ("sds", "legacy"):
        rd, md = sds_keys("dfsd", R, False), sds_keys("dfsdm", M, True)
        if k == "legacy":
            md = [x for x in md if x != ("none",)][:len(md)]
        if not same(rd, md) and not (k == "legacy" and same(rd, [x for x in md if x in rd])):
            bad.append("DFSDIgetndg model differs from DFSDgetdims/getNT/getdata: R=%s M=%s" % (str(rd)[:150], str(md)[:150]))
        view = "sd" if (k == "sds" and c["w"] == "dfsd") else ("sdn" if k == "sds" else None)
        if view:
            rd, md = sds_keys(view, R, False), sds_keys("ndgm", M, True)
            if not same(rd, md):
                bad.append("hdf_read_ndgs model differs from SDgetinfo/SDreaddata on the NDG path: R=%s M=%s" % (str(rd)[:150], str(md)[:150]))
    if k == "sds" and c["w"] == "dfsd":
        # the scales record through both readers' models vs SDgetdimscale / DFSDgetdimscale
        nts = {x[0]: int(x[2 + int(x[1])]) for x in rows("sd", R)}
        for view, mview, what in (("sdmeta", "scalem", "hdf_read_ndgs scale walk"), ("dfsdmeta", "dscalem", "DFSDIgetndg scales")):
            rr = sorted((t[3], to_file_order(nts.get(t[1], 0), t[4])) for t in (l.split() for l in R if l.startswith(view + " "))
                        if t[2] == "scale" and t[4] != "none")
            mm = sorted((t[2], t[3]) for t in (l.split() for l in M if l.startswith(mview + " ")) if t[3] != "none")
            if rr != mm:
                bad.append("%s model differs from the library: R=%s M=%s" % (what, str(rr)[:150], str(mm)[:150]))
    if k in ("img", "legacy"):
        # RIG readers: dimensions, component count, interlace code, and the stored pixels when not compressed
        mr = [x for x in rows("rigm", M)]
        m8 = [x for x in rows("r8m", M) if x[-1] != "none"]
        r8 = rows("dfr8", R)
        a = sorted((x[1], x[2], to_pixel(x[4], 0, 1, 1, 1) if x[4] != "fail" else "-") for x in r8)
        b = [(x[2], x[3], x[8] if (x[6] == "0" and re.fullmatch(r"[0-9a-f]+", x[8])) else None) for x in m8]
        # compressed pixels are not decoded by the model: such an image is matched on its dimensions only
        pool, ok8 = list(a), len(a) == len(b)
        for q in sorted(b, key=lambda q: q[2] is None):
            hit = [p_ for p_ in pool if p_[:2] == q[:2] and (q[2] is None or p_[2] == q[2])]
            if not hit:
                ok8 = False
                break
            pool.remove(hit[0])
        if k == "img" and not ok8:
            bad.append("DFR8getrig model differs from DFR8getdims/getimage: R=%s M=%s" % (str(a)[:150], str(b)[:150]))
        if k == "img":
            view = "grr" if c["w"] == "gr" else "gr"
            rg = [x for x in rows(view, R) if len(x) > 6]
            if c["w"] == "df" or True:
                want = sorted((x[1], x[2], x[3], x[5]) for x in rg)
                got = sorted((x[2], x[3], x[4], x[5]) for x in mr if x[-1] != "none")
                if want != got:
                    bad.append("DFGRgetrig model differs from GR's view of the raster-image groups: R=%s M=%s" % (str(want)[:150], str(got)[:150]))
    return bad


def run_models(ctx, cases, Rd, Md):
    """R vs M: the tie of the record-level theorems to the code"""
    n, nbad, nrec = 0, 0, 0
    for cid, c in cases:
        M = Md.get(cid)
        if M is None or c["kind"] not in ("sds", "img", "legacy", "dfsdseq"):
            continue
        n += 1
        nrec += sum(1 for l in M if l.startswith("wm "))
        bad = model_disagreements(c, Rd.get(cid, []), M)
        if bad and nbad < 2:
            nbad += 1
            txt = ["# C15: the record models (coq/MixModel.v) disagree with the library on the elements of this file",
                   "# run: bin/check C15 --replay <this file>", emit(cid, c)] + ["# " + b for b in bad[:8]] + \
                  ["# M: " + l[:200] for l in M[:20]]
            ctx.violation("record-model correspondence broken on a %s case: %s" % (c["kind"], bad[0][:160]), "\n".join(txt),
                          found=False)
    ctx.corr("records~MixModel", files=n, records_reencoded=nrec, disagreeing_files=nbad)


def replay(ctx, path):
    lines = [l for l in open(path).read().splitlines() if l.strip() and not l.startswith("#")]
    rcode = 0
    for l in lines:
        cid, c = parse_case(l)
        Rd, Sd, Md, noise = run_cases(ctx, [(cid, c)], "replay")
        R, S = Rd.get(cid, []), Sd.get(cid, [])
        print("case:", emit(cid, c)[:300])
        if c["kind"] == "legacy":
            bad, nv = compare_legacy(R)
            print("\n".join("  R: " + x[:200] for x in observed(R)))
        else:
            bad, nv = compare(c, R, S)
            r, s = observed(R), observed(S)
            rs, ss = set(r), set(s)
            for x in sorted(rs | ss):
                mark = "  " if (x in rs and x in ss) else ("R!" if x in rs else "S!")
                print("%s %s" % (mark, x[:200]))
        for x in Md.get(cid, []):
            print("  M: " + x[:200])
        if c["kind"] in ("sds", "img", "legacy", "dfsdseq") and cid in Md:
            for b in model_disagreements(c, R, Md[cid]):
                print("R/M DISAGREES: " + b[:300])
                rcode = 1
        for x in noise:
            print("  noise: " + x[:200])
        if bad:
            print("DISAGREES: " + "; ".join(b[:160] for b in bad[:6]))
            rcode = 1
        else:
            print("agrees (%d values compared)" % nv)
    return rcode
