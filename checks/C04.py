"""C04 -- storage layout and tuning knobs never change the data an application sees.

R = freshly built library driven through SDwritedata/SDreaddata/SDwritechunk/SDreadchunk and
    GRwriteimage/GRreadimage/GRwritechunk/GRreadchunk (harness/drive_layout.c), one storage configuration per record;
S = the n-d array specification (coq/LayoutSpec.v, extracted);
M = the chunk arithmetic of hchunks.c and the LRU cache of mcache.c (coq/ChunkModel.v, coq/MCacheModel.v, extracted),
    compared with the real static functions (harness/drive_chunkfn.c includes hchunks.c) and the real mcache_*
    (harness/drive_mcache.c)."""
import itertools
import os
import vcommon as vc

RULE = ("records = (write/read history, storage configuration); histories are drawn from one PRNG (VERIF_SEED): rank 1..4, "
        "extents 1..7, 8 number types, strided/contiguous slabs written and read, reopen in between, full read after the "
        "final reopen; every history is run under the contiguous baseline and under chunked (random chunk shapes incl. "
        "non-dividing, longer than the extent, all-ones; cache sizes 1..chunks+1 set initially and changed mid-history; "
        "whole-chunk writes/reads interleaved), chunked+{RLE,skphuff,deflate}, chunked+n-bit, compressed "
        "{RLE,skphuff,deflate}, n-bit, external file, unlimited+linked blocks with SDsetblocksize; GR images likewise "
        "(chunked, chunked+compressed, compressed, external). Parameter sweep in every tier: n-bit sign_ext x fill_one x "
        "(start_bit, bit_len) (all 36 fields of the 8-bit types, 8 boundary fields of the 16/32-bit types) contiguous and "
        "chunked with representable values compared EXACTLY (no projection of the library's output; the contiguous n-bit "
        "dataset with the same parameters is the chunked one's baseline), deflate levels 0..9 and skphuff skip sizes "
        "1,2,3,4,5,8 compressed and chunked+compressed for SD and GR; GR creation interlace x requested read interlace "
        "(3 x 4 incl. 'never requested') for contiguous, chunked and chunked+compressed multi-component images with "
        "GRwritechunk/GRreadchunk interleaved with GRwriteimage/GRreadimage of the same regions; byte-stream (H-level) "
        "reads of the data element through three access ids at the same time (interleaved Hseek/Hread, reads without a "
        "seek) under contiguous, chunked, chunked+compressed, compressed and external layouts for SD and GR; external "
        "elements at offsets 0..4096 sharing their file with foreign guard bytes in front, written completely and then "
        "partially rewritten near the end, with the guard bytes and the placement of the data in the external file "
        "checked at the end; in about half of all records 1-3 other attributes are set before and 0-3 after the fill "
        "value ahead of the layout-selection call (the object's other metadata must not matter), and for 30 % of the SD "
        "records the layout is selected in a later session than SDcreate; SD_NOFILL sessions (chunked, compressed, n-bit, "
        "contiguous); float64 datasets of 1-3 MB whose first write starts more than a megabyte in; GR writes/reads with "
        "strides 1-3 incl. a sub-sampled first write into a new image. Thorough tier: every chunk shape of every extent up to "
        "4x4x3 with cache sizes 1..chunks+1. Each record's output is compared with the array specification. "
        "Function level: static chunk arithmetic of hchunks.c and mcache_get/put/sync vs the Coq models on generated "
        "and exhaustive small cases. A record is non-trivial when it transfers data under a non-baseline layout; "
        "distinct by (extent, type, configuration, operations)")
TRUSTED = ["Coq 8.16.1 kernel",
           "translator gen/gen_consts.py + plugin gen/plugins/c04_chunk.py (constants and HASHKEY of mcache_priv.h; "
           "assignment/condition expressions of the chunk arithmetic functions of hchunks.c; flag updates of mcache.c; "
           "position/length updates of hextelt.c HXPwrite/HXPread; ordered call lists with argument text of the hchunks.c "
           "transfer routines and of the HXcreate/fseek calls of the external-file routines), "
           "through gcc -E",
           "extraction: Require Extraction + ExtrOcamlBasic; no Extract Constant; Z/positive/nat extracted as inductives",
           "OCaml driver extract/layout_main.ml, C harnesses harness/drive_layout.c, drive_chunkfn.c, drive_mcache.c, "
           "comparison in checks/C04.py",
           "zlib (deflate/inflate) and the RLE/skphuff/n-bit coders are not modelled here (C05); compressed layouts are "
           "covered by the R-vs-S comparison only",
           "modelled, not verified: loop/branch skeleton of the hchunks.c functions and of mcache_get/put/sync/bkt/write "
           "(tied by the function-level correspondence); int32 arithmetic assumed not to wrap (element and chunk byte "
           "sizes < 2^31, stated as hypotheses)"]
ASSUMPTIONS = ["domain: fixed-size datasets (SDsetchunk rejects unlimited); n-bit compared on projected values with a "
               "representable fill value (records whose written values are all representable are compared exactly, the others "
               "only after projecting the library's values, which cannot see a wrong fill/sign flag); non-chunked compressed datasets accept only appends and whole rewrites "
               "(coders return FAIL otherwise: a reported refusal ends the comparison of that record, silent corruption "
               "does not); GR write buffers are laid out in the "
               "interlace GRgetiminfo reports (creation interlace in the creating session, pixel after a reopen), read "
               "buffers in the interlace requested with GRreqimageil (pixel if never requested)",
               "GR chunk geometry follows GRsetchunk: the chunk layer views the pixel stream as an [xdim][ydim] array"]

NTS = {20: (8, True), 21: (8, False), 22: (16, True), 23: (16, False), 24: (32, True), 25: (32, False), 5: (32, None),
       6: (64, None)}
DEFAULT_FILL = {20: -127, 21: 129, 22: -32767, 23: 32769, 24: -2147483647, 25: 2147483649}
RLE, NBIT, SKPHUFF, DEFLATE = 1, 2, 3, 4
KINDNAME = {0: "contig", 1: "chunk", 2: "comp", 3: "chunk+comp", 4: "nbit", 5: "external", 6: "unlimited+linked",
            7: "chunk+nbit"}


def prod(l):
    p = 1
    for x in l:
        p *= x
    return p


def vrange(nt):
    w, sg = NTS[nt]
    if sg is None:
        return -100000, 100000
    if sg:
        return -(1 << (w - 1)), (1 << (w - 1)) - 1
    return 0, (1 << w) - 1


def nbit_proj(nt, sb, bl, se, fo, v):
    """only used to pick a representable fill value for n-bit configurations (never as an oracle)"""
    w, sg = NTS[nt]
    u = v % (1 << w)
    lo = sb - bl + 1
    field = (u >> lo) & ((1 << bl) - 1)
    lowfill = (1 << lo) - 1 if fo else 0
    nhigh = w - 1 - sb
    top = (u >> sb) & 1
    high = ((1 << nhigh) - 1) if ((se and top) or (not se and fo)) else 0
    r = (high << (sb + 1)) | (field << lo) | lowfill
    if sg and r >= (1 << (w - 1)):
        r -= 1 << w
    return r


class Rec:
    """one record: header + configuration + operations"""

    def __init__(self, api, dims, nt, hasfill, fill, cfg, ops, tag=""):
        self.api, self.dims, self.nt, self.hasfill, self.fill = api, list(dims), nt, hasfill, fill
        self.cfg, self.ops, self.tag = cfg, ops, tag
        self.pre = self.post = 0     # other attributes set before / after the fill value, before the layout call
        self.nofill = self.late = 0  # SD_NOFILL mode; layout selected in a later session than SDcreate

    def text(self, rid):
        c = self.cfg
        out = ["hist %s %d %d %s %d %d %d" % (rid, self.api, len(self.dims), " ".join(map(str, self.dims)), self.nt,
                                             (self.hasfill & 1) | (self.pre << 1) | (self.post << 3) | (self.nofill << 5) | (self.late << 6), self.fill),
               "cfg %d %d %d %d %d %d %d %s" % (c["kind"], c.get("cache", 0), c.get("coder", 0), c.get("p1", 0),
                                               c.get("p2", 0), c.get("p3", 0), c.get("p4", 0),
                                               " ".join(map(str, c.get("cl", [0] * len(self.dims)))))]
        for o in self.ops:
            k = o[0]
            if k == "w":
                out.append("w %s %s %s %d %s" % (" ".join(map(str, o[1])), " ".join(map(str, o[2])),
                                                 " ".join(map(str, o[3])), len(o[4]), " ".join(map(str, o[4]))))
            elif k == "r":
                out.append("r %s %s %s" % (" ".join(map(str, o[1])), " ".join(map(str, o[2])), " ".join(map(str, o[3]))))
            elif k == "wc":
                out.append("wc %s %d %s" % (" ".join(map(str, o[1])), len(o[2]), " ".join(map(str, o[2]))))
            elif k == "rc":
                out.append("rc %s" % " ".join(map(str, o[1])))
            elif k == "reopen":
                out.append("reopen")
            elif k == "cache":
                out.append("cache %d" % o[1])
            elif k == "hr":
                out.append("hr %d %s" % (len(o[1]), " ".join("%d %d %d" % q for q in o[1])))
        out.append("end")
        return "\n".join(out)

    def key(self):
        return (self.api, tuple(self.dims), self.nt, self.fill, self.pre, self.post, self.nofill, self.late, tuple(sorted((k, str(v)) for k, v in self.cfg.items())),
                tuple(str(o)[:80] for o in self.ops))


def parse_records(text):
    """inverse of Rec.text for replay files"""
    recs, cur = [], None
    for line in text.splitlines():
        t = line.split()
        if not t or t[0].startswith("#"):
            continue
        if t[0] == "hist":
            api, rank = int(t[2]), int(t[3])
            dims = list(map(int, t[4:4 + rank]))
            nt, hf, fill = map(int, t[4 + rank:7 + rank])
            cur = Rec(api, dims, nt, hf & 1, fill, {}, [])
            cur.pre, cur.post = (hf >> 1) & 3, (hf >> 3) & 3
            cur.nofill, cur.late = (hf >> 5) & 1, (hf >> 6) & 1
        elif t[0] == "cfg":
            n = list(map(int, t[1:]))
            cur.cfg = {"kind": n[0], "cache": n[1], "coder": n[2], "p1": n[3], "p2": n[4], "p3": n[5], "p4": n[6],
                       "cl": n[7:7 + len(cur.dims)]}
        elif t[0] in ("w", "r"):
            n = list(map(int, t[1:]))
            r = len(cur.dims)
            if t[0] == "w":
                cur.ops.append(("w", n[:r], n[r:2 * r], n[2 * r:3 * r], n[3 * r + 1:]))
            else:
                cur.ops.append(("r", n[:r], n[r:2 * r], n[2 * r:3 * r]))
        elif t[0] == "wc":
            n = list(map(int, t[1:]))
            r = len(cur.dims)
            cur.ops.append(("wc", n[:r], n[r + 1:]))
        elif t[0] == "rc":
            cur.ops.append(("rc", list(map(int, t[1:]))))
        elif t[0] == "reopen":
            cur.ops.append(("reopen",))
        elif t[0] == "cache":
            cur.ops.append(("cache", int(t[1])))
        elif t[0] == "hr":
            n = list(map(int, t[2:]))
            cur.ops.append(("hr", [tuple(n[i:i + 3]) for i in range(0, 3 * int(t[1]), 3)]))
        elif t[0] == "end":
            recs.append(cur)
            cur = None
    return recs


# --------------------------------------------------------------------------
# generators
# --------------------------------------------------------------------------

class Gen:
    def __init__(self, rng):
        self.r = rng
        self.ctr = 0

    def val(self, nt):
        lo, hi = vrange(nt)
        self.ctr += 1
        span = hi - lo + 1
        c = self.r.choice([0, 0, 0, 1, 2])
        if c == 1:
            return self.r.choice([lo, hi, 0 if lo <= 0 else lo, 1])
        if c == 2:
            return self.r.randrange(lo, hi + 1)
        return lo + (self.ctr * 7 + 3) % span

    def slab(self, dims, contiguous=False):
        s, t, e = [], [], []
        for d in dims:
            st = 1 if contiguous else self.r.choice([1, 1, 1, 2, 3])
            a = self.r.randrange(0, d)
            mx = (d - 1 - a) // st + 1
            ed = self.r.randrange(1, mx + 1) if self.r.random() < 0.7 else mx
            if self.r.random() < 0.35:
                a, st, ed = 0, 1, d
            s.append(a)
            t.append(st)
            e.append(ed)
        return s, t, e

    def full(self, dims):
        return [0] * len(dims), [1] * len(dims), list(dims)

    def base_ops(self, dims, nt, nops, contiguous=False):
        ops = []
        for _ in range(nops):
            c = self.r.random()
            if c < 0.5:
                s, t, e = self.slab(dims, contiguous)
                ops.append(("w", s, t, e, [self.val(nt) for _ in range(prod(e))]))
            elif c < 0.85:
                s, t, e = self.slab(dims, contiguous) if self.r.random() < 0.6 else self.full(dims)
                ops.append(("r", s, t, e))
            else:
                ops.append(("reopen",))
        ops.append(("reopen",))
        ops.append(("r",) + tuple(self.full(dims)))
        return ops

    def chunk_shape(self, dims):
        cl = []
        mode = self.r.choice(["rand", "rand", "rand", "ones", "nondiv", "big", "full"])
        for d in dims:
            if mode == "ones":
                cl.append(1)
            elif mode == "full":
                cl.append(d)
            elif mode == "big":
                cl.append(d + self.r.randrange(0, 3))
            elif mode == "nondiv":
                c = [x for x in range(1, d + 1) if d % x != 0]
                cl.append(self.r.choice(c) if c else self.r.randrange(1, d + 1))
            else:
                cl.append(self.r.randrange(1, d + 1))
        return cl

    def nchunks(self, dims, cl):
        return prod((d + c - 1) // c for d, c in zip(dims, cl))

    def chunk_variant(self, cdims, cl, nt, ops, tweak=True):
        """interleave cache-size changes and whole-chunk operations into a history (chunked configurations)"""
        out = []
        nch = [(d + c - 1) // c for d, c in zip(cdims, cl)]
        for o in ops:
            if tweak and self.r.random() < 0.25:
                out.append(("cache", self.r.choice([1, 1, 2, 3, prod(nch), prod(nch) + 1])))
            if tweak and self.r.random() < 0.3:
                og = [self.r.randrange(0, n) for n in nch]
                if self.r.random() < 0.5:
                    out.append(("wc", og, [self.val(nt) for _ in range(prod(cl))]))
                else:
                    out.append(("rc", og))
            out.append(o)
        if tweak:
            # every chunk read whole at the end, after the final full read
            for og in itertools.islice(itertools.product(*[range(n) for n in nch]), 12):
                out.append(("rc", list(og)))
        return out

    def nbit_params(self, nt):
        w, sg = NTS[nt]
        sb = self.r.choice([w - 1, w - 1, self.r.randrange(0, w)])
        bl = self.r.randrange(1, sb + 2)
        se = self.r.choice([0, 0, 1])
        fo = self.r.choice([0, 0, 1])
        return sb, bl, se, fo


def sd_records(g, tier, nbase):
    recs = []
    r = g.r
    for _ in range(nbase):
        rank = r.choice([1, 1, 2, 2, 2, 3, 3, 4])
        mx = {1: 12, 2: 7, 3: 5, 4: 3}[rank]
        dims = [r.randrange(1, mx + 1) for _ in range(rank)]
        nt = r.choice(list(NTS))
        lo, hi = vrange(nt)
        hasfill = 1 if (nt in (5, 6) or r.random() < 0.8) else 0
        fill = r.choice([lo, hi, 0, r.randrange(lo, hi + 1), 77 if hi >= 77 else hi]) if hasfill else DEFAULT_FILL[nt]
        ops = g.base_ops(dims, nt, r.randrange(2, 9))
        recs.append(Rec(0, dims, nt, hasfill, fill, {"kind": 0}, ops, "sd-base"))
        # chunked, several shapes
        for _ in range(3):
            cl = g.chunk_shape(dims)
            nch = g.nchunks(dims, cl)
            cache = r.choice([0, 1, 1, 2, nch, nch + 1])
            recs.append(Rec(0, dims, nt, hasfill, fill, {"kind": 1, "cl": cl, "cache": cache},
                            g.chunk_variant(dims, cl, nt, ops), "sd-chunk"))
        # chunked + compressed
        for coder, p in ((RLE, 0), (SKPHUFF, NTS[nt][0] // 8), (DEFLATE, r.randrange(1, 10))):
            cl = g.chunk_shape(dims)
            recs.append(Rec(0, dims, nt, hasfill, fill,
                            {"kind": 3, "cl": cl, "cache": r.choice([0, 1, 2]), "coder": coder, "p1": p},
                            g.chunk_variant(dims, cl, nt, ops), "sd-chunk-comp"))
        # compressed, not chunked (partial rewrites may be refused)
        coder, p = r.choice([(RLE, 0), (SKPHUFF, NTS[nt][0] // 8), (DEFLATE, r.randrange(1, 10))])
        recs.append(Rec(0, dims, nt, hasfill, fill, {"kind": 2, "coder": coder, "p1": p}, ops, "sd-comp"))
        # compressed with whole-array writes only (always accepted)
        wops = []
        for _ in range(r.randrange(1, 4)):
            wops.append(("w",) + tuple(g.full(dims)) + ([g.val(nt) for _ in range(prod(dims))],))
            s, t, e = g.slab(dims)
            wops.append(("r", s, t, e))
            if r.random() < 0.4:
                wops.append(("reopen",))
        wops += [("reopen",), ("r",) + tuple(g.full(dims))]
        for coder, p in ((RLE, 0), (SKPHUFF, NTS[nt][0] // 8), (DEFLATE, r.randrange(1, 10))):
            recs.append(Rec(0, dims, nt, hasfill, fill, {"kind": 2, "coder": coder, "p1": p}, wops, "sd-comp-whole"))
        recs.append(Rec(0, dims, nt, hasfill, fill, {"kind": 0}, wops, "sd-base"))
        # n-bit (integer types), plain and chunked; fill value representable in the bit field
        if NTS[nt][1] is not None:
            sb, bl, se, fo = g.nbit_params(nt)
            nfill = nbit_proj(nt, sb, bl, se, fo, fill)
            recs.append(Rec(0, dims, nt, 1, nfill, {"kind": 4, "p1": sb, "p2": bl, "p3": se, "p4": fo}, ops, "sd-nbit"))
            recs.append(Rec(0, dims, nt, 1, nfill, {"kind": 4, "p1": sb, "p2": bl, "p3": se, "p4": fo}, wops, "sd-nbit-whole"))
            cl = g.chunk_shape(dims)
            recs.append(Rec(0, dims, nt, 1, nfill, {"kind": 7, "cl": cl, "cache": r.choice([0, 1, 2]), "p1": sb, "p2": bl,
                                                     "p3": se, "p4": fo}, g.chunk_variant(dims, cl, nt, ops), "sd-chunk-nbit"))
        # external file
        recs.append(Rec(0, dims, nt, hasfill, fill, {"kind": 5, "p1": r.choice([0, 0, 1, 13, 512])}, ops, "sd-external"))
        recs.append(Rec(0, dims, nt, hasfill, fill, {"kind": 5, "p1": r.choice([0, 5])}, wops, "sd-external-whole"))
        # unlimited first dimension forced into linked blocks, block size knob
        recs.append(Rec(0, dims, nt, 1, fill if hasfill else 0, {"kind": 6, "p1": r.choice([1, 2, 7, 16, 64, 4096])}, ops,
                        "sd-linked"))
    return recs


def gr_records(g, tier, nbase):
    recs = []
    r = g.r
    for _ in range(nbase):
        ydim, xdim = r.randrange(1, 8), r.randrange(1, 8)
        if r.random() < 0.4:
            xdim = ydim
        ncomp = r.choice([1, 1, 2, 3])
        dims = [ydim, xdim, ncomp]
        nt = r.choice([21, 20, 23, 24, 5])
        lo, hi = vrange(nt)
        hasfill = r.choice([0, 1, 1])
        fill = r.choice([lo, hi, r.randrange(lo, hi + 1), 77]) if hasfill else 0
        ops = []
        for n_op in range(r.randrange(2, 8)):
            c = r.random() if n_op else 0.0    # an image gets data before it is first closed (see design.d/C04.md)
            s, t, e = g.slab([ydim, xdim], contiguous=True)
            s, t, e = s + [0], t + [1], e + [ncomp]
            if c < 0.5:
                ops.append(("w", s, t, e, [g.val(nt) for _ in range(prod(e))]))
            elif c < 0.85:
                if r.random() < 0.4:
                    s, t, e = g.full(dims)
                ops.append(("r", s, t, e))
            else:
                ops.append(("reopen",))
        ops += [("reopen",), ("r",) + tuple(g.full(dims))]
        recs.append(Rec(1, dims, nt, hasfill, fill, {"kind": 0}, ops, "gr-base"))
        cdims = [xdim, ydim]
        for _ in range(3):
            c2 = g.chunk_shape(cdims)
            nch = g.nchunks(cdims, c2)
            cl = c2 + [ncomp]
            recs.append(Rec(1, dims, nt, hasfill, fill, {"kind": 1, "cl": cl, "cache": r.choice([0, 1, 2, nch + 1])},
                            g.chunk_variant(cdims + [ncomp], cl, nt, ops), "gr-chunk"))
        coder, p = r.choice([(RLE, 0), (SKPHUFF, NTS[nt][0] // 8), (DEFLATE, r.randrange(1, 10))])
        c2 = g.chunk_shape(cdims)
        cl = c2 + [ncomp]
        recs.append(Rec(1, dims, nt, hasfill, fill, {"kind": 3, "cl": cl, "cache": r.choice([0, 1, 2]), "coder": coder, "p1": p},
                        g.chunk_variant(cdims + [ncomp], cl, nt, ops), "gr-chunk-comp"))
        wops = []
        for _ in range(r.randrange(1, 3)):
            wops.append(("w",) + tuple(g.full(dims)) + ([g.val(nt) for _ in range(prod(dims))],))
            s, t, e = g.slab([ydim, xdim], contiguous=True)
            wops.append(("r", s + [0], t + [1], e + [ncomp]))
        wops += [("reopen",), ("r",) + tuple(g.full(dims))]
        recs.append(Rec(1, dims, nt, hasfill, fill, {"kind": 2, "coder": coder, "p1": p}, wops, "gr-comp-whole"))
        recs.append(Rec(1, dims, nt, hasfill, fill, {"kind": 5, "p1": r.choice([0, 9])}, wops, "gr-external"))
    return recs


def whole_history(g, dims, nt, nwrites=2):
    ops = []
    for _ in range(nwrites):
        ops.append(("w",) + tuple(g.full(dims)) + ([g.val(nt) for _ in range(prod(dims))],))
        s, t, e = g.slab(dims)
        ops.append(("r", s, t, e))
        ops.append(("reopen",))          # a rewrite goes through a fresh access (see known findings)
    ops.append(("r",) + tuple(g.full(dims)))
    return ops


def coder_param_records(g, tier):
    """every coder parameter combination under every layout that accepts it: n-bit sign_ext x fill_one x
    (start_bit, bit_len) contiguous and chunked, lossless (representable values: compared exactly) -- the contiguous
    n-bit dataset with the same parameters is the baseline of the chunked one; deflate levels and skipping-Huffman
    skip sizes, compressed and chunked+compressed, SD and GR"""
    r = g.r
    recs = []
    for nt in (20, 21, 22, 23, 24, 25):
        w = NTS[nt][0]
        if w == 8:
            fields = [(sb, bl) for sb in range(8) for bl in range(1, sb + 2)]
        else:
            fields = [(w - 1, w), (w - 1, 1), (w - 1, w // 2), (w // 2, w // 2 + 1), (w // 2, 3), (0, 1), (w - 2, 5), (w - 3, w - 2)]
        for sb, bl in fields:
            for se in (0, 1):
                for fo in (0, 1):
                    dims = [r.randrange(1, 5), r.randrange(2, 6)] if r.random() < 0.7 else [r.randrange(2, 9)]
                    lo, hi = vrange(nt)
                    fill = r.choice([lo, hi, 0, r.randrange(lo, hi + 1)])
                    par = {"p1": sb, "p2": bl, "p3": se, "p4": fo}
                    wops = whole_history(g, dims, nt)
                    recs.append(make_exact(Rec(0, dims, nt, 1, fill, dict(par, kind=4), wops, "sd-nbit-sweep")))
                    cl = g.chunk_shape(dims)
                    cfg = dict(par, kind=7, cl=cl, cache=r.choice([0, 1, 2]))
                    recs.append(make_exact(Rec(0, dims, nt, 1, fill, cfg, g.chunk_variant(dims, cl, nt, wops), "sd-chunk-nbit-sweep")))
                    ops = g.base_ops(dims, nt, r.randrange(2, 6))
                    recs.append(make_exact(Rec(0, dims, nt, 1, fill, cfg, g.chunk_variant(dims, cl, nt, ops), "sd-chunk-nbit-sweep")))
    params = [(DEFLATE, lv) for lv in range(0, 10)] + [(SKPHUFF, k) for k in (1, 2, 3, 4, 5, 8)] + [(RLE, 0)]
    for coder, p in params:
        for api in (0, 1):
            if api == 0:
                nt = r.choice(list(NTS))
                dims = [r.randrange(1, 6), r.randrange(1, 7)]
                cdims = dims
            else:
                nt = r.choice([21, 20, 23, 24, 5])
                ncomp = r.choice([1, 2, 3])
                dims = [r.randrange(1, 6), r.randrange(1, 6), ncomp]
                cdims = [dims[1], dims[0], ncomp]
            lo, hi = vrange(nt)
            fill = r.randrange(lo, hi + 1)
            if api == 0:
                wops = whole_history(g, dims, nt)
                ops = g.base_ops(dims, nt, r.randrange(2, 7))
            else:
                wops = [o if o[0] != "r" else ("r",) + tuple(g.full(dims)) for o in whole_history(g, dims, nt)]
                ops = list(wops)
            recs.append(Rec(api, dims, nt, 1, fill, {"kind": 2, "coder": coder, "p1": p}, wops, "param-comp"))
            cl = g.chunk_shape(cdims[:2]) + cdims[2:] if api == 1 else g.chunk_shape(dims)
            recs.append(Rec(api, dims, nt, 1, fill, {"kind": 3, "coder": coder, "p1": p, "cl": cl, "cache": r.choice([0, 1, 2])},
                            g.chunk_variant(cdims, cl, nt, ops), "param-chunk-comp"))
            recs.append(Rec(api, dims, nt, 1, fill, {"kind": 0}, ops, "sd-base" if api == 0 else "gr-base"))
    return recs


def interlace_records(g, tier):
    """GR: every (creation interlace, requested read interlace) pair, contiguous / chunked / chunked+compressed,
    multi-component; whole-chunk writes and reads interleaved with GRwriteimage/GRreadimage of the same regions"""
    r = g.r
    recs = []
    for cil in (0, 1, 2):
        for ril in (-1, 0, 1, 2):
            for rep in range(2 if tier == "quick" else 6):
                ncomp = r.choice([2, 3, 3, 4])
                ydim, xdim = r.randrange(1, 7), r.randrange(1, 7)
                if rep == 0:
                    ydim = xdim = r.randrange(2, 6)
                dims = [ydim, xdim, ncomp]
                nt = r.choice([21, 20, 23, 24, 5])
                lo, hi = vrange(nt)
                hasfill = r.choice([0, 1])
                fill = r.randrange(lo, hi + 1) if hasfill else 0
                ops = []
                for n_op in range(r.randrange(2, 7)):
                    c = r.random() if n_op else 0.0
                    s, t, e = g.slab([ydim, xdim], contiguous=True)
                    s, t, e = s + [0], t + [1], e + [ncomp]
                    if c < 0.5:
                        ops.append(("w", s, t, e, [g.val(nt) for _ in range(prod(e))]))
                    elif c < 0.9:
                        ops.append(("r", s, t, e))
                    else:
                        ops.append(("reopen",))
                ops += [("reopen",), ("r",) + tuple(g.full(dims))]
                il = {"p2": cil, "p3": ril}
                recs.append(Rec(1, dims, nt, hasfill, fill, dict(il, kind=0), ops, "gr-interlace"))
                cdims = [xdim, ydim, ncomp]
                cl = g.chunk_shape(cdims[:2]) + [ncomp]
                if rep == 0:
                    c0 = r.randrange(1, xdim + 1)
                    cl = [c0, c0, ncomp]
                recs.append(Rec(1, dims, nt, hasfill, fill, dict(il, kind=1, cl=cl, cache=r.choice([0, 1, 2])),
                                g.chunk_variant(cdims, cl, nt, ops) + region_reads(cdims, cl), "gr-interlace-chunk"))
                coder, p = r.choice([(RLE, 0), (SKPHUFF, NTS[nt][0] // 8), (DEFLATE, r.randrange(1, 10))])
                recs.append(Rec(1, dims, nt, hasfill, fill, dict(il, kind=3, cl=cl, cache=r.choice([0, 1]), coder=coder, p1=p),
                                g.chunk_variant(cdims, cl, nt, ops), "gr-interlace-chunk-comp"))
    return recs


def region_reads(cdims, cl):
    """for square images/chunks the chunk (o0,o1) is the image region x in [o0*c, ..), y in [o1*c, ..): read each chunk
    whole and as that region with GRreadimage (both are compared with the specification, hence with each other)"""
    xdim, ydim, ncomp = cdims
    out = []
    if xdim != ydim or cl[0] != cl[1]:
        return out
    c = cl[0]
    n = (xdim + c - 1) // c
    for o0 in range(min(n, 3)):
        for o1 in range(min(n, 3)):
            out.append(("rc", [o0, o1, 0]))
    return out


def hr_op(g, total, unit=1):
    """interleaved reads through three access ids: seeks and reads without a seek (the id continues where IT stands);
    positions and counts are multiples of [unit] values (GR: whole pixels -- the chunk layer's element is the pixel and
    it only seeks to whole elements)"""
    r = g.r
    total //= unit
    pos = [0, 0, 0]
    reqs = []
    for _ in range(r.randrange(3, 9)):
        a = r.randrange(3)
        if r.random() < 0.45 and pos[a] < total:
            p, start = -1, pos[a]
        else:
            start = r.randrange(total)
            p = start
        n = r.randrange(1, min(7, total - start) + 1)
        reqs.append((a, p if p < 0 else p * unit, n * unit))
        pos[a] = start + n
    return ("hr", reqs)


def with_hr(g, ops, total, every=0.35, unit=1):
    out = []
    for o in ops:
        out.append(o)
        if o[0] in ("w", "wc", "reopen") and g.r.random() < every:
            out.append(hr_op(g, total, unit))
    out.append(hr_op(g, total, unit))
    return out


def hlevel_records(g, tier):
    """(a) the data element of every layout read at the H level through several access ids at the same time,
    interleaved with the API-level history; (b) external elements at non-zero offsets, completely written first and
    then partially rewritten/read (rows near the end included), sharing their file with foreign bytes in front"""
    r = g.r
    recs = []
    for rep in range(10 if tier == "quick" else 60):
        rank = r.choice([1, 2, 2, 3])
        dims = [r.randrange(2, 7) for _ in range(rank)]
        nt = r.choice(list(NTS))
        lo, hi = vrange(nt)
        fill = r.randrange(lo, hi + 1)
        n = prod(dims)
        first = ("w",) + tuple(g.full(dims)) + ([g.val(nt) for _ in range(n)],)
        ops = [first] + g.base_ops(dims, nt, r.randrange(2, 7))
        wops = whole_history(g, dims, nt)
        recs.append(Rec(0, dims, nt, 1, fill, {"kind": 0}, with_hr(g, ops, n), "sd-hlevel"))
        for _ in range(2):
            cl = g.chunk_shape(dims)
            recs.append(Rec(0, dims, nt, 1, fill, {"kind": 1, "cl": cl, "cache": r.choice([0, 1, 2, 3])},
                            with_hr(g, g.chunk_variant(dims, cl, nt, ops), n), "sd-hlevel-chunk"))
        coder, p = r.choice([(RLE, 0), (SKPHUFF, NTS[nt][0] // 8), (DEFLATE, r.randrange(1, 10))])
        cl = g.chunk_shape(dims)
        recs.append(Rec(0, dims, nt, 1, fill, {"kind": 3, "cl": cl, "cache": r.choice([0, 1, 2]), "coder": coder, "p1": p},
                        with_hr(g, g.chunk_variant(dims, cl, nt, ops), n), "sd-hlevel-chunk-comp"))
        recs.append(Rec(0, dims, nt, 1, fill, {"kind": 2, "coder": coder, "p1": p}, with_hr(g, wops, n), "sd-hlevel-comp"))
        for off in r.sample([1, 3, 17, 64, 300, 4096], 2) + [0]:
            recs.append(Rec(0, dims, nt, 1, fill, {"kind": 5, "p1": off}, with_hr(g, ops, n), "sd-external-rewrite"))
        # GR
        ncomp = r.choice([1, 2, 3])
        ydim, xdim = r.randrange(2, 7), r.randrange(2, 7)
        gd = [ydim, xdim, ncomp]
        gnt = r.choice([21, 20, 23, 24, 5])
        glo, ghi = vrange(gnt)
        gfill = r.randrange(glo, ghi + 1)
        gn = prod(gd)
        gops = [("w",) + tuple(g.full(gd)) + ([g.val(gnt) for _ in range(gn)],)]
        for _ in range(r.randrange(2, 7)):
            c = r.random()
            s_, t_, e_ = g.slab([ydim, xdim], contiguous=True)
            if r.random() < 0.4:           # the last rows
                s_[0], e_[0] = ydim - 1, 1
            s_, t_, e_ = s_ + [0], t_ + [1], e_ + [ncomp]
            if c < 0.5:
                gops.append(("w", s_, t_, e_, [g.val(gnt) for _ in range(prod(e_))]))
            elif c < 0.9:
                gops.append(("r", s_, t_, e_) if r.random() < 0.5 else ("r",) + tuple(g.full(gd)))
            else:
                gops.append(("reopen",))
        gops += [("reopen",), ("r",) + tuple(g.full(gd))]
        recs.append(Rec(1, gd, gnt, 1, gfill, {"kind": 0}, with_hr(g, gops, gn, unit=ncomp), "gr-hlevel"))
        cdims = [xdim, ydim, ncomp]
        cl = g.chunk_shape(cdims[:2]) + [ncomp]
        recs.append(Rec(1, gd, gnt, 1, gfill, {"kind": 1, "cl": cl, "cache": r.choice([0, 1, 2])},
                        with_hr(g, g.chunk_variant(cdims, cl, gnt, gops), gn, unit=ncomp), "gr-hlevel-chunk"))
        for off in r.sample([1, 5, 33, 200, 4096], 2) + [0]:
            recs.append(Rec(1, gd, gnt, 1, gfill, {"kind": 5, "p1": off}, with_hr(g, gops, gn, unit=ncomp), "gr-external-rewrite"))
    return recs


def run_block(g, dims, lead_lo=None):
    """a slab that is one contiguous run of the stream: a range of the first dimension, everything of the others"""
    r = g.r
    a = r.randrange(0, dims[0]) if lead_lo is None else lead_lo
    k = r.randrange(1, dims[0] - a + 1)
    return [a] + [0] * (len(dims) - 1), [1] * len(dims), [k] + list(dims[1:])


def round4_records(g, tier):
    """(a) SD_NOFILL sessions; (b) datasets of more than a megabyte whose first write starts far inside (the fill in front
    is written in pieces); (c) GR writes and reads with strides, first write into a new image included"""
    r = g.r
    recs = []
    reps = 6 if tier == "quick" else 30
    # (a) no-fill mode.  Chunked and compressed layouts still give fill values for what was never written (the chunk
    # layer fills pages, the coders need the whole element laid down); a contiguous dataset promises nothing there, so
    # its reads stay inside what was written.
    for _ in range(reps * 2):
        rank = r.choice([1, 2, 2, 3])
        dims = [r.randrange(3, 8)] + [r.randrange(1, 5) for _ in range(rank - 1)]
        nt = r.choice(list(NTS))
        lo, hi = vrange(nt)
        fill = r.randrange(lo, hi + 1)
        s_, t_, e_ = run_block(g, dims)
        if s_[0] + e_[0] == dims[0] and dims[0] > 1:      # leave something behind the slab
            e_[0] = max(1, e_[0] - 1) if e_[0] > 1 else 1
            if s_[0] + e_[0] == dims[0]:
                s_[0] -= 1
        first = ("w", s_, t_, e_, [g.val(nt) for _ in range(prod(e_))])
        tail = [dims[0] - 1] + [0] * (rank - 1), [1] * rank, [1] + list(dims[1:])
        full = ("r",) + tuple(g.full(dims))
        ops_fill = [first, full, ("r",) + tail, ("reopen",), full, ("r",) + tail]
        ops_written = [first, ("r", s_, t_, e_), ("reopen",), ("r", s_, t_, e_)]
        def mk(cfg, ops, tag):
            x = Rec(0, dims, nt, 1, fill, cfg, ops, tag)
            x.nofill = 1
            return x
        recs.append(mk({"kind": 0}, ops_written, "sd-nofill"))
        for coder, p in ((RLE, 0), (SKPHUFF, NTS[nt][0] // 8), (DEFLATE, r.randrange(1, 10))):
            recs.append(mk({"kind": 2, "coder": coder, "p1": p}, ops_fill, "sd-nofill-comp"))
        cl = g.chunk_shape(dims)
        gen_ops = [first] + g.base_ops(dims, nt, r.randrange(2, 6))
        recs.append(mk({"kind": 1, "cl": cl, "cache": r.choice([0, 1, 2])}, g.chunk_variant(dims, cl, nt, gen_ops), "sd-nofill-chunk"))
        coder, p = r.choice([(RLE, 0), (DEFLATE, 6)])
        recs.append(mk({"kind": 3, "cl": cl, "cache": 1, "coder": coder, "p1": p}, g.chunk_variant(dims, cl, nt, gen_ops), "sd-nofill-chunk"))
        if NTS[nt][1] is not None:
            sb, bl, se, fo = g.nbit_params(nt)
            recs.append(make_exact(mk({"kind": 4, "p1": sb, "p2": bl, "p3": se, "p4": fo}, ops_fill, "sd-nofill-nbit")))
            recs[-1].nofill = 1
    # (b) more than a megabyte in front of the first write
    for _ in range(1 if tier == "quick" else 4):
        nt = 6                      # 8-byte elements keep the element count (and the list-based specification) small
        sz = NTS[nt][0] // 8
        lo, hi = vrange(nt)
        fill = r.randrange(lo, hi + 1)
        cols = r.choice([1, 1, 3])
        pieces = 1 if tier == "quick" else r.choice([1, 2])
        lead_bytes = pieces * 1000000 + r.randrange(1, 999999)
        lead_rows = lead_bytes // (sz * cols) + 1
        rows = lead_rows + r.randrange(2, 12)
        dims = [rows] if cols == 1 else [rows, cols]
        k = r.randrange(1, min(6, rows - lead_rows) + 1)
        s_, t_, e_ = [lead_rows] + [0] * (len(dims) - 1), [1] * len(dims), [k] + list(dims[1:])
        ops = [("w", s_, t_, e_, [g.val(nt) for _ in range(prod(e_))]), ("r", s_, t_, e_)]
        near = [max(0, lead_rows - 2)] + [0] * (len(dims) - 1), [1] * len(dims), [min(rows - max(0, lead_rows - 2), k + 4)] + list(dims[1:])
        ops += [("r",) + near, ("reopen",), ("r",) + near,
                ("r", [rows - 1] + [0] * (len(dims) - 1), [1] * len(dims), [1] + list(dims[1:])),
                ("r", [0] * len(dims), [1] * len(dims), [1] + list(dims[1:]))]
        recs.append(Rec(0, dims, nt, 1, fill, {"kind": 0}, ops, "sd-large"))
        recs.append(Rec(0, dims, nt, 1, fill, {"kind": 2, "coder": DEFLATE, "p1": 1}, ops, "sd-large-comp"))
        recs.append(Rec(0, dims, nt, 1, fill, {"kind": 2, "coder": RLE, "p1": 0}, ops, "sd-large-comp"))
        cl = [r.choice([1000, 4096, 30000])] + ([cols] if cols > 1 else [])
        cl[0] = min(cl[0], rows)
        recs.append(Rec(0, dims, nt, 1, fill, {"kind": 1, "cl": cl, "cache": r.choice([0, 1, 3])}, ops, "sd-large-chunk"))
        recs.append(Rec(0, dims, nt, 1, fill, {"kind": 5, "p1": r.choice([0, 7])}, ops, "sd-large"))
    # (c) GR with strides (writes into new and existing images, reads), every layout that takes partial writes
    for _ in range(reps * 3):
        ncomp = r.choice([1, 2, 3])
        ydim, xdim = r.randrange(2, 9), r.randrange(2, 9)
        gd = [ydim, xdim, ncomp]
        nt = r.choice([21, 20, 23, 24, 5])
        lo, hi = vrange(nt)
        hasfill = r.choice([0, 1, 1])
        fill = r.randrange(lo, hi + 1) if hasfill else 0
        ops = []
        for n_op in range(r.randrange(2, 7)):
            c = r.random() if n_op else 0.0
            s_, t_, e_ = g.slab([ydim, xdim])
            if n_op == 0 and r.random() < 0.7:            # sub-sampled first write not ending at the last column
                t_[1] = r.choice([2, 3])
                e_[1] = max(1, min(e_[1], (xdim - 2 - s_[1]) // t_[1] + 1))
                if s_[1] + (e_[1] - 1) * t_[1] >= xdim:
                    s_[1], e_[1] = 0, 1
            s_, t_, e_ = s_ + [0], t_ + [1], e_ + [ncomp]
            if c < 0.5:
                ops.append(("w", s_, t_, e_, [g.val(nt) for _ in range(prod(e_))]))
            elif c < 0.9:
                ops.append(("r", s_, t_, e_) if r.random() < 0.5 else ("r",) + tuple(g.full(gd)))
            else:
                ops.append(("reopen",))
        ops += [("r",) + tuple(g.full(gd)), ("reopen",), ("r",) + tuple(g.full(gd))]
        recs.append(Rec(1, gd, nt, hasfill, fill, {"kind": 0}, ops, "gr-strided"))
        cdims = [xdim, ydim, ncomp]
        cl = g.chunk_shape(cdims[:2]) + [ncomp]
        recs.append(Rec(1, gd, nt, hasfill, fill, {"kind": 1, "cl": cl, "cache": r.choice([0, 1, 2])},
                        g.chunk_variant(cdims, cl, nt, ops), "gr-strided-chunk"))
        recs.append(Rec(1, gd, nt, hasfill, fill, {"kind": 5, "p1": r.choice([0, 11])}, ops, "gr-strided-external"))
    return recs


def exhaustive_records(g, maxd):
    """every chunk shape of every extent up to maxd, cache sizes 1..chunks+1, one fixed history shape per extent"""
    recs = []
    for dims in itertools.product(*[range(1, m + 1) for m in maxd]):
        dims = list(dims)
        nt = g.r.choice([21, 22, 24])
        fill = 99
        n = prod(dims)
        ops = [("w",) + tuple(g.slab(dims)) for _ in range(2)]
        ops = [("w", s, t, e, [g.val(nt) for _ in range(prod(e))]) for (_, s, t, e) in ops]
        ops.append(("r",) + tuple(g.full(dims)))
        s, t, e = g.slab(dims)
        ops.append(("w", s, t, e, [g.val(nt) for _ in range(prod(e))]))
        ops += [("r",) + tuple(g.slab(dims)), ("reopen",), ("r",) + tuple(g.full(dims))]
        recs.append(Rec(0, dims, nt, 1, fill, {"kind": 0}, ops, "sd-base"))
        for cl in itertools.product(*[range(1, d + 1) for d in dims]):
            cl = list(cl)
            nch = g.nchunks(dims, cl)
            for cache in range(1, nch + 2):
                recs.append(Rec(0, dims, nt, 1, fill, {"kind": 1, "cl": cl, "cache": cache},
                                g.chunk_variant(dims, cl, nt, ops, tweak=(cache == 1)), "sd-chunk-exh"))
    return recs


# --------------------------------------------------------------------------
# running and comparing
# --------------------------------------------------------------------------

def split_blocks(lines):
    """{id: [lines between 'H id' and 'E']}; an unterminated last block is kept and flagged"""
    blocks, cur, cid = {}, None, None
    for ln in lines:
        if ln.startswith("H "):
            cid, cur = ln[2:].strip(), []
            blocks[cid] = cur
        elif ln == "E":
            if cur is not None:
                cur.append("E")
            cur = None
        elif cur is not None:
            cur.append(ln)
    return blocks


def run_harness(ctx, recs, tag):
    exe = ctx.harness("drive_layout", ["drive_layout.c"])
    mod = ctx.model("layout_model", ["layout_main.ml"], ["layout_model"])
    wd = os.path.join(ctx.bdir, "harness", "c04-work-%d" % os.getpid())
    os.makedirs(wd, exist_ok=True)
    p = os.path.join(wd, "%s.in" % tag)
    with open(p, "w") as fh:
        fh.write("\n".join(rec.text(str(i)) for i, rec in enumerate(recs)) + "\n")
    e = dict(vc.HARNESS_ENV)
    keep_build_alive(ctx)
    rc, out = vc.sh([exe, p, wd], timeout=1500, env=e)
    R = out.splitlines()
    rcm, out_s = vc.sh("ulimit -s unlimited 2>/dev/null; exec '%s' hist '%s'" % (mod, p), timeout=3000, env=dict(vc.HARNESS_ENV))
    S = out_s.splitlines()
    os.unlink(p)
    for f in os.listdir(wd):
        try:
            os.unlink(os.path.join(wd, f))
        except OSError:
            pass
    if rcm != 0:
        raise vc.BuildError("specification driver failed (rc=%d): %s" % (rcm, "\n".join(S[-5:])))
    return rc, R, split_blocks(R), split_blocks(S)


def keep_build_alive(ctx):
    """the scratch area is shared and pruned by age rank: refresh our build directory's mtime before long runs"""
    try:
        os.utime(ctx.bdir, None)
    except OSError:
        pass


def whole_write(rec, o):
    return o[0] == "w" and list(o[1]) == [0] * len(rec.dims) and list(o[3]) == list(rec.dims) and \
        all(x == 1 for x in o[2])


def compare_record(rec, rl, sl):
    """-> (verdict, detail, stats) ; verdict in ok / mismatch / crash / setup-fail / refused"""
    st = {"ops": 0, "values": 0, "refused": 0}
    if rl is None:
        return "crash", "no output for this record", st
    info = [x for x in rl if x.startswith("I ")]
    body = [x for x in rl if not x.startswith("I ")]
    if body and body[0].startswith("X "):
        return "setup-fail", body[0], st
    terminated = bool(body) and body[-1] == "E"
    if terminated:
        body = body[:-1]
    sl = [x for x in sl if x != "E"]
    xl = [x for x in body if x.startswith("X ")]
    if xl:
        return "mismatch", "layout failure reported by the harness: " + xl[0][2:], st
    nb = rec.cfg["kind"] in (4, 7) and not nbit_exact(rec)
    st["nbit_exact"] = 1 if (rec.cfg["kind"] in (4, 7) and not nb) else 0
    for i, s in enumerate(sl):
        if nb and i < len(body):
            # n-bit: "on the projected values" -- the library's values are projected before comparing (a cached chunk
            # still holds the unprojected value); the specification's are already projected by the Coq nbit_proj, and
            # projecting them again with the Python copy must change nothing (ties the two projections together)
            body[i] = project_line(rec, body[i])
            if project_line(rec, s) != s:
                return "mismatch", "op %d: n-bit projection in checks/C04.py disagrees with Coq nbit_proj on '%s'" % (i, s[:100]), st
        if i >= len(body):
            return ("crash" if not terminated else "mismatch"), "library output ends at op %d (%s expected)" % (i, s[:60]), st
        r = body[i]
        st["ops"] += 1
        if r != s:
            o = rec.ops[i] if i < len(rec.ops) else None
            if rec.cfg["kind"] == 2 and o is not None and o[0] == "w" and r == "w fail" and s == "w ok" and \
                    not whole_write(rec, o):
                st["refused"] += 1
                return "refused", "op %d: partial rewrite refused by the coder" % i, st
            return "mismatch", "op %d: library '%s' / specification '%s'" % (i, r[:200], s[:200]), st
        if r.startswith("r ") or r.startswith("rc ") or r.startswith("hr "):
            st["values"] += len(r.split()) - 1
    st["special"] = info[0][2:] if info else ""
    return "ok", "", st


def nbit_exact(rec):
    """every value handed to the library (fill value, slab and whole-chunk writes) is representable in the bit field
    with the record's flags: then nothing is lossy and the library's values are compared as they are; otherwise only
    'on the projected values' (which cannot see a wrong fill/sign-extension flag)"""
    c = rec.cfg
    pr = lambda v: nbit_proj(rec.nt, c["p1"], c["p2"], c["p3"], c["p4"], v)
    if pr(rec.fill) != rec.fill:
        return False
    for o in rec.ops:
        vals = o[4] if o[0] == "w" else (o[2] if o[0] == "wc" else [])
        if any(pr(v) != v for v in vals):
            return False
    return True


def make_exact(rec):
    """project every written value, so that the n-bit record is lossless"""
    c = rec.cfg
    pr = lambda v: nbit_proj(rec.nt, c["p1"], c["p2"], c["p3"], c["p4"], v)
    ops = []
    for o in rec.ops:
        if o[0] == "w":
            ops.append(("w", o[1], o[2], o[3], [pr(v) for v in o[4]]))
        elif o[0] == "wc":
            ops.append(("wc", o[1], [pr(v) for v in o[2]]))
        else:
            ops.append(o)
    return Rec(rec.api, rec.dims, rec.nt, 1, pr(rec.fill), rec.cfg, ops, rec.tag)


def project_line(rec, line):
    t = line.split()
    if len(t) < 2 or t[0] not in ("r", "rc") or t[1] == "fail":
        return line
    c = rec.cfg
    return t[0] + " " + " ".join(str(nbit_proj(rec.nt, c["p1"], c["p2"], c["p3"], c["p4"], int(x))) for x in t[1:])


def signature(rec, detail, rl=None, sl=None):
    """call-pattern signature of a failing record, for known_findings matching (specific to the failing pattern)"""
    base = signature0(rec, detail)
    k = rec.cfg["kind"]
    try:
        idx = int(detail.split(":")[0][3:]) if detail.startswith("op ") else len(rec.ops)
    except ValueError:
        idx = len(rec.ops)
    before = rec.ops[:idx + 1]
    writes = [o for o in before if o[0] == "w"]
    if k == 4 and any(not whole_write(rec, o) for o in writes):
        # non-chunked n-bit element: a hyperslab (partial) write is a random rewrite inside the bit stream
        return "SD:nbit:partial-write"
    if (k == 2 and rec.cfg.get("coder") == SKPHUFF) or k == 4:
        kinds = [o[0] for o in before if o[0] in ("w", "r")]
        if "w" in kinds and "r" in kinds[kinds.index("w"):] and \
                "w" in kinds[kinds.index("w") + 1 + kinds[kinds.index("w") + 1:].index("r"):]:
            return "%s:%s:rewrite-after-read" % ("SD" if rec.api == 0 else "GR", "nbit" if k == 4 else "comp-skphuff")
    if k == 2 and rec.cfg.get("coder") == RLE:
        kinds = [o[0] for o in before if o[0] in ("w", "r")]
        if "r" in kinds[:-1]:
            return "%s:comp-rle:access-after-read" % ("SD" if rec.api == 0 else "GR")
    if k == 5 and rec.api == 0 and rl is not None and sl is not None and idx < len(rec.ops) and rec.ops[idx][0] == "r":
        r = [x for x in rl if not x.startswith("I ")]
        if idx < len(r) and idx < len(sl):
            rv, sv = r[idx].split()[1:], sl[idx].split()[1:]
            if rv == ["fail"] and not any(whole_write(rec, o) for o in writes):
                return "SD:external:unwritten-region"
            if len(rv) == len(sv) and all(a == b or (b == str(rec.fill) and a == "0") for a, b in zip(rv, sv)):
                return "SD:external:unwritten-region"
    return base


def crash_signature(rec, rc):
    sg = signature(rec, "crash")
    if sg != signature0(rec, "crash"):
        return sg          # a specific known call pattern (the crash is one of its symptoms)
    return sg + ":" + ("hang" if rc in (-14, 142) else "crash")


def signature0(rec, detail):
    """call-pattern signature of a failing record, for known_findings matching"""
    k = rec.cfg["kind"]
    api = "SD" if rec.api == 0 else "GR"
    first = detail.split(":")[0] if detail else ""
    opk = ""
    if first.startswith("op "):
        try:
            opk = rec.ops[int(first[3:])][0]
        except (ValueError, IndexError):
            opk = ""
    return "%s:%s:%s" % (api, KINDNAME.get(k, str(k)), opk)


def replay_text(rec, rl, sl, verdict, detail):
    out = ["# C04 replay: one record; run `bin/check C04 --replay <this file>`",
           "# configuration: %s %s   verdict: %s   %s" % ("SD" if rec.api == 0 else "GR", KINDNAME.get(rec.cfg["kind"]),
                                                           verdict, detail),
           rec.text("0")]
    out += ["# library:       " + x for x in (rl or ["(none)"])]
    out += ["# specification: " + x for x in (sl or [])]
    return "\n".join(out)


def still_fails(ctx, rec):
    rc, R, rb, sb = run_harness(ctx, [rec], "shrink")
    v, d, _ = compare_record(rec, rb.get("0"), sb.get("0", []))
    return v in ("mismatch", "crash", "setup-fail"), v, d, rb.get("0"), sb.get("0", [])


def shrink(ctx, rec, budget=40):
    """greedy delta debugging on the operation list"""
    cur = rec
    i = 0
    while i < len(cur.ops) and budget > 0:
        cand = Rec(cur.api, cur.dims, cur.nt, cur.hasfill, cur.fill, cur.cfg, cur.ops[:i] + cur.ops[i + 1:], cur.tag)
        cand.pre, cand.post, cand.nofill, cand.late = cur.pre, cur.post, cur.nofill, cur.late
        if rec.ops and rec.ops[0][0] == "w" and (not cand.ops or cand.ops[0] != rec.ops[0]):
            i += 1       # stay inside the domain: a history that starts by giving the dataset its data keeps doing so
            continue     # (GR images and external datasets are only compared after they got data)
        budget -= 1
        bad, _, _, _, _ = still_fails(ctx, cand)
        if bad:
            cur = cand
        else:
            i += 1
    return cur


def check_records(ctx, recs, tag, stats):
    """run all records (restarting the harness after a crash/hang), compare each with the specification"""
    nviol = 0
    todo = list(enumerate(recs))
    restarts = 0
    while todo and restarts <= 6:
        batch = [rec for _, rec in todo]
        rc, R, rb, sb = run_harness(ctx, batch, tag)
        ndone = 0
        for j, rec in enumerate(batch):
            rl, sl = rb.get(str(j)), sb.get(str(j), [])
            if rc != 0 and (rl is None or rl[-1:] != ["E"]):
                break      # this record was being processed when the harness died
            ndone += 1
            v, d, st = compare_record(rec, rl, sl)
            t = stats.setdefault(rec.tag, {"records": 0, "ok": 0, "ops": 0, "values_compared": 0, "refused": 0, "special": {}})
            t["records"] += 1
            t["ops"] += st["ops"]
            t["values_compared"] += st["values"]
            t["refused"] += st["refused"]
            t["nbit_exact"] = t.get("nbit_exact", 0) + st.get("nbit_exact", 0)
            if v == "ok":
                t["ok"] += 1
                sp = st.get("special", "")
                t["special"][sp] = t["special"].get(sp, 0) + 1
            nontrivial = rec.cfg["kind"] != 0 and st["values"] > 0
            ctx.case(rec.key(), nontrivial,
                     sample={"api": "SD" if rec.api == 0 else "GR", "dims": rec.dims, "nt": rec.nt, "cfg": rec.cfg,
                             "ops": [o[0] for o in rec.ops][:12], "verdict": v} if todo[j][0] % 211 == 5 else None)
            if v in ("mismatch", "crash", "setup-fail"):
                nviol += 1
                sig = signature(rec, d, rl, sl)
                if ctx.match_known(sig) is not None:
                    t["known_finding_hits"] = t.get("known_finding_hits", 0) + 1
                    ctx.violation("known finding", replay_text(rec, rl, sl, v, d), found=True, signature=sig)
                    continue
                if len(ctx.violations) >= 4:
                    continue
                small = shrink(ctx, rec)
                bad, v2, d2, rl2, sl2 = still_fails(ctx, small)
                if not bad:
                    small, v2, d2, rl2, sl2 = rec, v, d, rl, sl
                ctx.violation("%s %s layout differs from the array specification (%s)" % (
                    "SD" if rec.api == 0 else "GR", KINDNAME.get(rec.cfg["kind"]), d2),
                    replay_text(small, rl2, sl2, v2, d2), found=True, signature=signature(small, d2, rl2, sl2))
        if rc == 0 or ndone >= len(batch):
            break
        # harness died (sanitizer report, signal, alarm) inside record ndone
        rec = batch[ndone]
        h = stats.setdefault("_harness", {})
        h["died"] = h.get("died", 0) + 1
        nviol += 1
        how = "hang (30 s alarm)" if rc in (-14, 142) else "rc=%d" % rc
        if len(ctx.violations) < 4:
            ctx.violation("harness died (%s) in a %s %s record" % (how, "SD" if rec.api == 0 else "GR", KINDNAME.get(rec.cfg["kind"])),
                          replay_text(rec, rb.get(str(ndone)), sb.get(str(ndone), []), "crash", how + " " + " | ".join(R[-6:])[:600]),
                          found=True, signature=crash_signature(rec, rc))
        todo = todo[ndone + 1:]
        restarts += 1
    return nviol


def fn_cases(ctx):
    r = ctx.rng
    cases = []
    quick = ctx.tier == "quick"
    # exhaustive: every chunk shape of every extent up to the bound, every element position, element sizes 1 and 4
    bound = (3, 3, 2) if quick else (4, 4, 3)
    for dims in itertools.product(*[range(1, m + 1) for m in bound]):
        for cl in itertools.product(*[range(1, d + 2) for d in dims]):
            n = prod(dims)
            for nt in (2,):
                for e in range(n):
                    rem = r.choice([1, 2, n - e, n])
                    cases.append("P %d %d %s %s %d %d %d" % (nt, len(dims), " ".join(map(str, dims)), " ".join(map(str, cl)),
                                                          e * nt, rem * nt + 8, 8))
                for og in itertools.product(*[range((d + c - 1) // c) for d, c in zip(dims, cl)]):
                    cases.append("C %d %d %s %s %s" % (nt, len(dims), " ".join(map(str, dims)), " ".join(map(str, cl)),
                                                     " ".join(map(str, og))))
    for _ in range(3000 if quick else 30000):
        nd = r.choice([1, 2, 2, 3, 3, 4, 5])
        dims = [r.randrange(1, 14) for _ in range(nd)]
        cl = [r.choice([1, d, r.randrange(1, d + 1), d + r.randrange(0, 3)]) for d in dims]
        nt = r.choice([1, 2, 4, 8, 3])
        n = prod(dims)
        e = r.choice([0, n - 1, r.randrange(n)])
        ln = r.randrange(1, n - e + 1) * nt
        dn = r.randrange(0, ln)
        cases.append("P %d %d %s %s %d %d %d" % (nt, nd, " ".join(map(str, dims)), " ".join(map(str, cl)), e * nt, ln, dn))
        og = [r.randrange((d + c - 1) // c) for d, c in zip(dims, cl)]
        cases.append("C %d %d %s %s %s" % (nt, nd, " ".join(map(str, dims)), " ".join(map(str, cl)), " ".join(map(str, og))))
    return cases


def fn_oracle(line):
    """specification-level expectation for a P case: chunk coordinates / in-chunk coordinates of the element, from the
    definition of chunking (independent of the code's loops)"""
    t = line.split()
    nt, nd = int(t[1]), int(t[2])
    d = list(map(int, t[3:3 + nd]))
    c = list(map(int, t[3 + nd:3 + 2 * nd]))
    pos, ln, dn = map(int, t[3 + 2 * nd:])
    e = pos // nt
    x = []
    for k in reversed(range(nd)):
        x.append(e % d[k])
        e //= d[k]
    x.reverse()
    nch = [(a + b - 1) // b for a, b in zip(d, c)]
    cn = seek = 0
    for k in range(nd):
        cn = cn * nch[k] + x[k] // c[k]
        seek = seek * c[k] + x[k] % c[k]
    rowleft = min(c[-1] - x[-1] % c[-1], d[-1] - x[-1])
    piece = min(ln - dn, rowleft * nt)
    return "%d %d %d" % (cn, seek * nt, piece)


def mc_cases(ctx):
    r = ctx.rng
    cases = []
    for _ in range(600 if ctx.tier == "quick" else 10000):
        np_ = r.randrange(1, 9)
        maxc = r.choice([1, 1, 2, 3, np_, np_ + 1])
        ps = r.randrange(1, 4)
        ops = []
        for _ in range(r.randrange(1, 30)):
            k = r.choice([0, 0, 1, 1, 1, 2, 3]) if r.random() < 0.9 else 2
            pg = r.randrange(1, np_ + 1) if k != 3 else r.randrange(1, np_ + 3)
            if k in (0, 1) and r.random() < 0.03:
                pg = np_ + 1          # non-existent page: must be refused
            ops.append((k, pg, r.randrange(-99, 100)))
        ops.append((2, 0, 0))
        cases.append((maxc, np_, ps, r.randrange(-9, 10), ops))
    return cases


def mc_oracle(case):
    """finite-map specification: what every get must see and what the backing store must hold after the final sync"""
    maxc, np_, ps, fill, ops = case
    pages = {k: [fill] * ps for k in range(1, np_ + 1)}
    seen = []
    for k, pg, v in ops:
        if k in (0, 1):
            if pg > np_:
                seen.append([-1])
                continue
            seen.append(list(pages[pg]))
            if k == 1:
                pages[pg] = [v] + pages[pg][:-1]
        else:
            seen.append(None)
    return seen, [pages[k] for k in range(1, np_ + 1)]


def parse_brackets(line):
    head, _, tail = line.partition("S ")
    grp = lambda s: [list(map(int, g.split())) for g in s.replace("]", "").split("[")[1:]]
    return grp(head), grp(tail)


def run_function_level(ctx):
    exe = ctx.harness("drive_chunkfn", ["drive_chunkfn.c"])
    exm = ctx.harness("drive_mcache", ["drive_mcache.c"])
    mod = ctx.model("layout_model", ["layout_main.ml"], ["layout_model"])
    wd = os.path.join(ctx.bdir, "harness", "c04-work-%d" % os.getpid())
    os.makedirs(wd, exist_ok=True)
    # ---- chunk arithmetic: R (static functions of hchunks.c) vs M (ChunkModel.v) vs the definition of chunking
    cases = fn_cases(ctx)
    p = os.path.join(wd, "fn.in")
    open(p, "w").write("\n".join(cases) + "\n")
    keep_build_alive(ctx)
    rc, out = vc.sh([exe, p, wd], timeout=1500, env=dict(vc.HARNESS_ENV))
    keep_build_alive(ctx)
    R = out.splitlines()
    rcm, M = vc.run_lines(mod, p, timeout=1500, args=("fn",))
    st = {"cases": len(cases), "P": 0, "C": 0, "last_chunk_partial": 0, "piece_cut_by_row": 0, "harness_rc": rc}
    if rcm != 0 or len(M) != len(cases):
        raise vc.BuildError("model driver (fn) failed rc=%d lines=%d/%d: %s" % (rcm, len(M), len(cases), " | ".join(M[-3:])[:500]))
    for i, c in enumerate(cases):
        r = R[i] if i < len(R) else "crash"
        st[c[0]] += 1
        if c[0] == "P":
            exp = fn_oracle(c)
            if " ".join(r.split()[:3]) != exp:
                ctx.violation("hchunks.c arithmetic differs from the definition of chunking: case '%s' library '%s' expected '%s ...'" % (c, r, exp),
                              "# C04 function-level case (harness/drive_chunkfn.c); expected = definition of chunking\n# fn: " + c +
                              "\n# library:  " + r + "\n# expected: " + exp + "\n# model:    " + M[i], found=True, suffix="fn")
                break
            t = c.split()
            nd = int(t[2])
            if int(t[2 + nd]) % int(t[2 + 2 * nd]):
                st["last_chunk_partial"] += 1
            if int(r.split()[2]) < int(t[-2]) - int(t[-1]):
                st["piece_cut_by_row"] += 1
        if r != M[i]:
            ctx.violation("correspondence hchunks.c ~ ChunkModel.v broken on '%s': library '%s' model '%s'" % (c, r, M[i]),
                          "# C04 function-level case: R differs from M (no R-vs-S failure on this case)\n# fn: " + c + "\n# library: " + r +
                          "\n# model:   " + M[i], found=False, suffix="fn")
            break
        ctx.case(("fn", c), True)
    ctx.corr("hchunks-arithmetic~ChunkModel", **st)
    # ---- LRU cache: R (mcache.c) vs M (MCacheModel.v) vs finite-map specification
    mcs = mc_cases(ctx)
    p = os.path.join(wd, "mc.in")
    open(p, "w").write("\n".join("%d %d %d %d %d %s" % (c[0], c[1], c[2], c[3], len(c[4]), " ".join("%d %d %d" % o for o in c[4]))
                                 for c in mcs) + "\n")
    rc, out = vc.sh([exm, p], timeout=1500, env=dict(vc.HARNESS_ENV))
    R = out.splitlines()
    rcm, M = vc.run_lines(mod, p, timeout=1500, args=("mc",))
    st = {"cases": len(mcs), "ops": 0, "gets": 0, "dirty_puts": 0, "syncs": 0, "cache1": 0, "refused_gets": 0, "harness_rc": rc}
    if rcm != 0 or len(M) != len(mcs):
        raise vc.BuildError("model driver (mc) failed rc=%d lines=%d/%d: %s" % (rcm, len(M), len(mcs), " | ".join(M[-3:])[:500]))
    for i, c in enumerate(mcs):
        r = R[i] if i < len(R) else "crash"
        line = "%d %d %d %d %d %s" % (c[0], c[1], c[2], c[3], len(c[4]), " ".join("%d %d %d" % o for o in c[4]))
        st["ops"] += len(c[4])
        st["gets"] += sum(1 for o in c[4] if o[0] in (0, 1))
        st["dirty_puts"] += sum(1 for o in c[4] if o[0] == 1)
        st["syncs"] += sum(1 for o in c[4] if o[0] == 2)
        st["cache1"] += c[0] == 1
        seen, final = mc_oracle(c)
        st["refused_gets"] += sum(1 for x in seen if x == [-1])
        try:
            ro, rf = parse_brackets(r)
        except ValueError:
            ro, rf = [], []
        bad = len(ro) != len(seen) or rf != final or any(s_ is not None and a != s_ for a, s_ in zip(ro, seen))
        if bad:
            ctx.violation("mcache.c differs from the finite-map specification on case '%s'" % line[:200],
                          "# C04 function-level case (harness/drive_mcache.c); spec = pages seen by each get, backing store after the final sync\n# mc: " +
                          line + "\n# library: " + r + "\n# spec seen: " + str(seen) + "\n# spec final: " + str(final) + "\n# model:   " + M[i],
                          found=True, suffix="mc")
            break
        if r.strip() != M[i].strip():
            ctx.violation("correspondence mcache.c ~ MCacheModel.v broken on '%s'" % line[:200],
                          "# C04 function-level case: R differs from M (R agrees with the map specification)\n# mc: " + line + "\n# library: " + r +
                          "\n# model:   " + M[i], found=False, suffix="mc")
            break
        ctx.case(("mc", line), True)
    ctx.corr("mcache~MCacheModel~map", **st)
    for f in os.listdir(wd):
        try:
            os.unlink(os.path.join(wd, f))
        except OSError:
            pass


def load_corpus():
    d = os.path.join(vc.VERIF, "corpus", "C04")
    recs = []
    for f in sorted(os.listdir(d)) if os.path.isdir(d) else []:
        if f.endswith(".hist"):
            for rec in parse_records(open(os.path.join(d, f)).read()):
                rec.tag = "corpus"
                recs.append(rec)
    return recs


def run(ctx):
    g = Gen(ctx.rng)
    stats = {}
    quick = ctx.tier == "quick"
    recs = load_corpus()
    recs += sd_records(g, ctx.tier, 300 if quick else 2000)
    recs += gr_records(g, ctx.tier, 150 if quick else 800)
    recs += coder_param_records(g, ctx.tier)
    recs += interlace_records(g, ctx.tier)
    recs += hlevel_records(g, ctx.tier)
    recs += round4_records(g, ctx.tier)
    recs += exhaustive_records(g, (3, 3, 2) if quick else (4, 4, 3))
    # the dataset's other metadata must not matter: in about half of all records other attributes (text, int32[2],
    # float64) are set before and/or after the fill value, ahead of the layout-selection call
    for rec in recs:
        if rec.tag != "corpus" and ctx.rng.random() < 0.5:
            rec.pre, rec.post = ctx.rng.choice([(1, 0), (2, 0), (3, 1), (0, 2), (1, 1), (2, 3)])
    # the layout may be selected in a later session than the one that created the dataset (SD, every layout call)
    for rec in recs:
        if rec.tag != "corpus" and rec.api == 0 and rec.cfg["kind"] in (1, 2, 3, 4, 5, 7) and ctx.rng.random() < 0.3:
            rec.late = 1
    stats["_late"] = {"layout_selected_in_a_later_session": sum(1 for x in recs if x.late)}
    stats["_attrs"] = {"records_with_other_attributes": sum(1 for x in recs if x.pre or x.post),
                       "fill_not_first_attribute": sum(1 for x in recs if x.pre and x.hasfill)}
    check_records(ctx, recs, "main", stats)
    ctx.corr("layouts~array-spec", **{k: v for k, v in stats.items()})
    run_function_level(ctx)


def replay(ctx, path):
    txt = open(path).read()
    for kind, hname, mode in (("# fn: ", "drive_chunkfn", "fn"), ("# mc: ", "drive_mcache", "mc")):
        lines = [l[len(kind):] for l in txt.splitlines() if l.startswith(kind)]
        if lines:
            exe = ctx.harness(hname, [hname + ".c"])
            mod = ctx.model("layout_model", ["layout_main.ml"], ["layout_model"])
            wd = os.path.join(ctx.bdir, "harness", "c04-work-%d" % os.getpid())
            os.makedirs(wd, exist_ok=True)
            p = os.path.join(wd, "replay.in")
            open(p, "w").write("\n".join(lines) + "\n")
            rc, out = vc.sh([exe, p, wd] if mode == "fn" else [exe, p], timeout=300, env=dict(vc.HARNESS_ENV))
            rcm, M = vc.run_lines(mod, p, args=(mode,))
            bad = 0
            for i, l in enumerate(lines):
                r = out.splitlines()[i] if i < len(out.splitlines()) else "crash"
                print("case: %s\n  R: %s\n  M: %s" % (l, r, M[i] if i < len(M) else "-"))
                if mode == "fn" and l.startswith("P"):
                    print("  S: %s ..." % fn_oracle(l))
                    bad |= " ".join(r.split()[:3]) != fn_oracle(l)
                bad |= r.strip() != (M[i].strip() if i < len(M) else "")
            os.unlink(p)
            return 1 if bad else 0
    recs = parse_records(txt)
    rc, R, rb, sb = run_harness(ctx, recs, "replay")
    bad = 0
    for i, rec in enumerate(recs):
        rl, sl = rb.get(str(i)), sb.get(str(i), [])
        v, d, _ = compare_record(rec, rl, sl)
        print("record %d: %s %s  verdict=%s %s" % (i, "SD" if rec.api == 0 else "GR", KINDNAME.get(rec.cfg["kind"]), v, d))
        rl = [x for x in (rl or []) if not x.startswith("I ")]
        for j in range(max(len(rl), len(sl))):
            a = rl[j] if j < len(rl) else "-"
            b = sl[j] if j < len(sl) else "-"
            print("  R: %-60s | S: %s%s" % (a[:200], b[:200], "" if a == b or a.startswith("I ") else "   <<<"))
        if v in ("mismatch", "crash", "setup-fail"):
            bad = 1
    return bad
