"""C20 -- format limits are enforced cleanly.  R (library, harness/drive_limits.c) vs S (coq/LimitsSpec.v, extracted)
on generated limit-probing histories; R vs M (coq/LimitsModel.v) on function-level calls of the anchored sites."""
import os
import re
import shutil
import vcommon as vc

RULE = ("histories of 6-40 limit-probing operations, each aimed at one limit from both sides: sparse reserved elements "
        "(Hstartwrite, never written) whose sum lands at 2^31-1 +/- {0,1,2,..}; appendable writes and linked-block writes "
        "ending at 2^31-1 +/- d; 65534/65535/65536 refs per tag and Hnewref/Htagnewref at exhaustion; 65533..65537 Vgroup "
        "members; Vdata field orders/sizes at 65535/65536, record sizes summing to 65535/65536 (incl. predefined fields), "
        "255..258 fields, VSseek/VSwrite products around 2^31; name lengths 63..65, 127..129, 255..257, 5000, 65535..70000; "
        "32/33 dimensions; open SD files at RLIMIT_NOFILE-3 +/- 1 and SDreset_maxopenfiles with files open; every rejected "
        "request is followed by valid calls (put/get/dds/reopen/re-attach) whose results are compared too; all choices "
        "from one PRNG (VERIF_SEED).  Function-level stream: HPgetdiskblock(eof, size), vinsertpair(nvelt), HTPstart "
        "end-of-file sums on random and boundary arguments, compared exactly with the model.  A history is non-trivial "
        "when the library refuses at least one request and accepts at least one; distinct by op text")
TRUSTED = ["Coq 8.16.1 kernel", "extraction (ExtrOcamlBasic only; Z/positive/nat inductive)",
           "OCaml driver extract/limits_main.ml; C harness harness/drive_limits.c; generator and comparison in "
           "checks/C20.py", "translator gen_consts.py + plugin gen/plugins/limits_conds.py (constants, DFKNTsize table and "
           "the guard expressions of the anchored sites in gen/Gen_Limits.v)",
           "modelled, not verified: everything between the guarded sites (descriptor-block bookkeeping, stdio, XDR/cdf.c "
           "metadata persistence); memory safety is observed by ASan on the explored histories, not proved"]
ASSUMPTIONS = ["the file system supports sparse files (2 GiB reserved elements are never written and deleted at once)",
               "in histories that mix Vgroup/Vdata/linked-block operations with element reservations S does not track the "
               "end of file exactly; there it only predicts reservations of at most 2^30 bytes, assuming the end of file "
               "is below 2^30",
               "open-file limit: the harness sets RLIMIT_NOFILE itself; file descriptors 0-2 are the only others in use"]

IMAX = 2147483647


# ------------------------------------------------------------------------------------------------- generators
def fresh_eof(ndds):
    n = 16 if ndds == 0 else max(ndds, 4)
    return 4 + 6 + 12 * n + 92, n


def g_eof(r, name):
    """reservations whose sum lands on 2^31-1 +/- d; optionally with the descriptor block filling up near the limit"""
    ndds = r.choice([4, 4, 5, 16, 16, 64, 0])
    eof, n = fresh_eof(ndds)
    free = n - 1
    L = ["history " + name, "hopen %d" % ndds]
    ref = 1
    k = r.choice([1, 2, 2, 3, 3, 5])
    for _ in range(k):
        room = IMAX - eof
        ln = r.choice([1 << 30, 1 << 29, (1 << 30) + r.randrange(1000), r.randrange(1, 1 << 30), room // 2, room // 3 + 1])
        ln = max(0, min(ln, room - 200))
        if free == 0:
            eof += 6 + 12 * n
            free = n
        free -= 1
        L.append("reserve 100 %d %d" % (ref, ln))
        eof += ln
        ref += 1
    # the probe: aim at the limit
    for _ in range(r.choice([1, 2, 3])):
        room = IMAX - eof
        if free == 0:
            room -= 6 + 12 * n
        d = r.choice([-2, -1, 0, 0, 1, 1, 2, 7, 1000, 1 << 20, 1 << 30, IMAX - room])
        ln = max(0, min(IMAX, room + d))
        kind = r.choice(["reserve", "reserve", "put"]) if ln < 3000000 else "reserve"
        L.append("%s 100 %d %d" % (kind, ref, ln))
        if ln <= room:
            if free == 0:
                eof += 6 + 12 * n
                free = n
            free -= 1
            eof += ln
        else:
            free = free if free > 0 else free  # a new block may or may not have been added: the spec decides
        ref += 1
        L.append(r.choice(["dds", "put 101 %d 10" % ref, "get 100 %d" % (ref - 1), "reserve 102 %d 0" % ref,
                           "reserve 102 %d 1" % ref, "appendat 106 %d 0 %d" % (ref, r.choice([1, 2, 10, 1000]))]))
        ref += 1
    L += ["put 103 1 12", "get 103 1", "dds", "reopen", "dds", "get 103 1", "put 104 1 3", "get 104 1", "reserve 105 1 1",
          "newref", "dds"]
    return L


def g_append(r, name):
    ndds = r.choice([4, 16])
    eof, n = fresh_eof(ndds)
    L = ["history " + name, "hopen %d" % ndds]
    if r.random() < 0.4:
        ln = r.choice([1 << 30, 1 << 29, r.randrange(1, 1 << 30)])
        L.append("reserve 100 1 %d" % ln)
        eof += ln
    l0 = r.choice([1, 10, 100])
    L.append("put 110 1 %d" % l0)
    off = eof
    eof += l0
    for _ in range(r.choice([1, 2, 3])):
        n_ = r.choice([1, 2, 50, 100, 1000])
        mode = r.choice(["file", "file", "elem", "in"])
        d = r.choice([-2, -1, 0, 0, 1, 1, 2, 50, 99, 100, 1000])
        if mode == "file":
            pos = IMAX - off - n_ + d
        elif mode == "elem":
            pos = IMAX - n_ + d
        else:
            pos = r.randrange(0, 50)
        pos = max(0, min(pos, IMAX))
        L.append("appendat 110 1 %d %d" % (pos, n_))
        L += ["get 110 1", "dds"]     # a refused write leaves the content readable (anything allocated here would end the file)
    L += ["dds", "reopen", "dds", "put 113 1 6", "get 113 1"]
    return L


def g_seek(r, name):
    """Hseek origin arithmetic: base + offset around 0, the element length and 2^31-1, from all three origins"""
    L = ["history " + name, "hopen 16"]
    ln = r.choice([10, 100, 1000])
    L.append("put 110 1 %d" % ln)
    for _ in range(r.choice([4, 6, 8])):
        app = r.choice([0, 0, 1])
        origin = r.choice([0, 1, 1, 2, 2])
        pos0 = r.choice([0, 1, 3, ln // 2, ln])
        base = {0: 0, 1: pos0, 2: ln}[origin]
        off = r.choice([IMAX, IMAX - base, IMAX - base + 1, IMAX - base - 1, -base, -base - 1, -base + 1, ln - base,
                        ln - base + 1, 0, 1, -1, -(1 << 31), -(1 << 31) + base, r.randrange(-ln - 2, ln + 3)])
        off = max(-(1 << 31), min(IMAX, off))
        L.append("seekat 110 1 %d %d %d %d" % (app, origin, off, pos0))
    L += ["get 110 1", "dds", "reopen", "get 110 1"]
    return L


def g_chunk(r, name):
    """refs of DFTAG_CHUNK run out while a chunked element is written (HMCPchunkwrite DFE_NOREF)"""
    k = r.choice([65532, 65533, 65534, 65534, 65535, 65535])
    return ["history " + name, "hopen %d" % r.choice([4000, 16000]), "chunkfill 300 1 %d" % k, "tagnewref 61", "put 301 1 5",
            "get 301 1", "reopen", "dds", "get 301 1", "tagnewref 61"]


def g_hl(r, name):
    L = ["history " + name, "hopen 16"]
    blen = r.choice([1 << 29, 1 << 28, (1 << 29) + 12345])
    nblk = r.choice([2, 8, 16])
    n_ = r.choice([1, 2, 100, 1000])
    d = r.choice([-2, -1, 0, 0, 1, 1, 2, 50, 99, 100, 1000])
    pos = max(0, min(IMAX, IMAX - n_ + d))
    L.append("hlwrite 120 1 %d %d %d %d" % (blen, nblk, pos, n_))
    L += ["put 121 1 9", "get 121 1", "reopen", "dds", "get 121 1"]
    return L


def g_refs(r, name):
    L = ["history " + name, "hopen %d" % r.choice([2000, 8000, 16000])]
    top = r.choice([65533, 65534, 65534, 65535, 65535])
    lo = r.choice([1, 1, 2])
    L.append("fillrefs 200 %d %d" % (lo, top))
    L += ["tagnewref 200", "tagnewref 201", "newref"]
    if r.random() < 0.6:
        L.append("put 201 65535 3")
        L += ["newref", "tagnewref 201", "tagnewref 200"]
    if r.random() < 0.5 and top < 65535:
        L.append("put 200 %d 2" % (top + 1))
        L += ["tagnewref 200", "newref"]
    L += ["put 202 7 5", "get 202 7", "dds", "reopen", "dds", "newref", "tagnewref 200", "get 202 7"]
    return L


NAMELENS = [1, 63, 64, 65, 127, 128, 129, 255, 256, 257, 5000, 65534, 65535, 65536, 65537, 70000, 131072]


def g_vg(r, name):
    L = ["history " + name, "hopen 16", "vgnew 0"]
    first = r.choice([65533, 65534, 65534, 65535, 65535, 65536, 65537, 70000, 3])
    L.append("vgadd 0 1000 %d %d" % (r.randrange(0, 60000), first))
    L.append("vgn 0")
    for _ in range(r.choice([1, 2, 3])):
        L.append("vgadd 0 1001 %d %d" % (r.randrange(0, 60000), r.choice([1, 1, 2, 3])))
        L.append("vgn 0")
    nl = r.choice(NAMELENS)
    cl = r.choice(NAMELENS)
    L += ["vgsetname 0 %d" % r.choice([1, 10, 64]), "vgsetname 0 %d" % nl, "vgname 0"]
    if r.random() < 0.6:
        L += ["vgsetclass 0 %d" % r.choice([1, 10, 64]), "vgsetclass 0 %d" % cl, "vgclass 0"]
    L += ["vgnew 1", "vgadd 1 1002 5 3", "vgsetname 1 12", "put 130 1 8", "vgdetach 0", "vgdetach 1", "reopen",
          "vgattach 0 0 r", "vgn 0", "vgname 0", "vgattach 1 1 w", "vgn 1", "vgname 1", "vgadd 1 1003 1 2", "vgn 1",
          "get 130 1", "dds"]
    return L


SIZES = {4: 1, 20: 1, 21: 1, 22: 2, 23: 2, 24: 4, 25: 4, 5: 4, 6: 8}


def g_vs(r, name):
    L = ["history " + name, "hopen 16", "vsnew 0"]
    kind = r.choice(["order", "sum", "sum", "multi", "multi", "count", "seek", "names", "recover"])
    if kind == "order":
        idx = 1
        for _ in range(r.choice([2, 3, 4])):
            ty = r.choice(list(SIZES))
            lim = 65535 // SIZES[ty]
            order = r.choice([lim - 1, lim, lim + 1, 65535, 65536, 65537, 0, -1, 1])
            L.append("vsfdefine 0 %d 0 %d %d" % (idx, ty, order))
            idx += 1
        L += ["vsfdefine 0 90 0 4 10", "vssetfields 0 90", "vswrite 0 2", "vselts 0"]
    elif kind in ("sum", "recover"):
        # fields whose sizes sum to 65535 +/- d, sometimes with the predefined 4-byte field
        a = r.choice([65535, 65534, 65531, 40000, 32768, 60000])
        d = r.choice([-1, 0, 0, 1, 1, 2, 4])
        usep = r.random() < 0.5
        rest = 65535 - a - (4 if usep else 0) + d
        L.append("vsfdefine 0 1 0 4 %d" % a)
        items = ["1"]
        if rest >= 1:
            L.append("vsfdefine 0 2 0 4 %d" % rest)
            items.append("2")
        if usep:
            items.insert(r.randrange(0, len(items) + 1), "P")
        L.append("vssetfields 0 %s" % ",".join(items))
        # after a refusal the Vdata must still accept a valid field list
        L += ["vssetfields 0 1", "vswrite 0 2", "vselts 0", "vsseek 0 1", "vsread 0 1"]
    elif kind == "multi":
        # several fields, every one legal on its own, whose sizes sum to 65535 + d in ONE VSsetfields call
        k = r.choice([3, 4, 5, 6])
        d = r.choice([-1, 0, 0, 1, 1, 2, 100, 14464, 65535, 65536, 65537])
        usep = r.random() < 0.3
        total = 65535 + d - (4 if usep else 0)
        sizes = []
        for i in range(k - 1):
            left = total - sum(sizes) - (k - 1 - i)
            sizes.append(max(1, min(65535, r.randrange(1, max(2, min(60000, left))))))
        last = total - sum(sizes)
        while last > 65535:
            sizes.append(65535 if r.random() < 0.5 else r.randrange(30000, 65536))
            last = total - sum(sizes)
        if last >= 1:
            sizes.append(last)
        items = []
        for i, sz in enumerate(sizes, 1):
            if sz % 2 == 0 and r.random() < 0.3:
                L.append("vsfdefine 0 %d 0 22 %d" % (i, sz // 2))
            else:
                L.append("vsfdefine 0 %d 0 4 %d" % (i, sz))
            items.append(str(i))
        r.shuffle(items)
        if usep:
            items.insert(r.randrange(0, len(items) + 1), "P")
        L.append("vssetfields 0 %s" % ",".join(items))
        L += ["vssetfields 0 1", "vswrite 0 2", "vselts 0", "vsseek 0 1", "vsread 0 1"]
    elif kind == "count":
        nf = r.choice([255, 256, 256, 257, 257, 258, 300])
        for i in range(1, nf + 1):
            L.append("vsfdefine 0 %d 0 20 1" % i)
        L.append("vssetfields 0 %s" % ",".join(str(i) for i in range(1, nf + 1)))
        L += ["vssetfields 0 %s" % ",".join(str(i) for i in range(1, r.choice([3, 256, 200]) + 1)), "vswrite 0 3", "vselts 0"]
    elif kind == "seek":
        iv = r.choice([65535, 65535, 32768, 40000, 1000, 4])
        L += ["vsfdefine 0 1 0 4 %d" % iv, "vssetfields 0 1", "vswrite 0 2"]
        q = IMAX // iv
        for _ in range(3):
            p = r.choice([q - 1, q, q + 1, q + 2, (1 << 32) // iv + 1, (1 << 32) // iv + 2, IMAX, 1, 2])
            L.append("vsseek 0 %d" % p)
        L += ["vsseek 0 1", "vsread 0 1"]
        nb = r.choice([q + 1, q + 2, (1 << 32) // iv + 1, IMAX])
        L += ["vswritebig 0 %d" % nb, "vsseek 0 0", "vsread 0 2", "vselts 0"]
    else:
        fl = r.choice([127, 128, 129, 200, 5000])
        L += ["vsfdefine 0 1 %d 4 7" % fl, "vsfdefine 0 2 0 22 3", "vssetfields 0 1:%d,2" % fl, "vsfieldname 0 0 1 %d" % fl,
              "vsfieldname 0 1 2 0", "vswrite 0 2"]
    L += ["vssetname 0 %d" % r.choice(NAMELENS[:11]), "vsname 0", "vssetclass 0 %d" % r.choice(NAMELENS[:11]), "vsclass 0",
          "put 140 1 8", "vsdetach 0", "fn_vshdrlen 0", "reopen", "fn_vshdrlen 0", "vsattach 0 0 r", "vsname 0", "vsclass 0", "vselts 0", "get 140 1", "dds"]
    return L


def g_sd(r, name):
    L = ["history " + name]
    kind = r.choice(["open", "create", "create", "max", "max", "max"])
    if kind == "create":
        L.append("sdstart 0")
        for _ in range(r.choice([2, 3, 5])):
            L.append("sdcreate 0 %d %d" % (r.choice([1, 8, 63, 64, 65, 127, 128, 129, 255, 256, 257, 300, 5000]),
                                           r.choice([1, 2, 3, 31, 32, 32, 33, 33, 34, 40])))
        L += ["sdcreate 0 9 2", "sdinfo 0", "sdend 0", "sdopen 0", "sdinfo 0"]
        for i in range(3):
            L.append("sdname 0 %d" % i)
        L.append("sdend 0")
    elif kind == "open":
        lim = r.choice([20, 24, 40])
        sys_ = lim - 3
        L.append("sdlimit %d" % lim)
        over = r.choice([0, 1, 2])
        for k in range(sys_ + over):
            L.append("sdstart %d" % k)
        L += ["sdnopen", "sdgetmax"]
        victim = r.randrange(0, sys_)
        L += ["sdend %d" % victim, "sdstart %d" % (sys_ + 5), "sdstart %d" % (sys_ + 6), "sdcreate %d 5 2" % (sys_ + 5),
              "sdinfo %d" % (sys_ + 5), "sdnopen"]
        for k in range(sys_ + over + 8):
            if k != victim and (k < sys_ or k == sys_ + 5):
                L.append("sdend %d" % k)
        L += ["sdnopen", "sdstart 150", "sdend 150"]
    else:
        # SDreset_maxopenfiles with holes in the table: the request is aimed at the highest position in use
        L.append("sdlimit 40")
        if r.random() < 0.4:
            L.append("sdmax %d" % r.choice([0, 5, 36, 37, 38, 100, 100000]))
        nopen = r.choice([3, 4, 6])
        for k in range(nopen):
            L.append("sdstart %d" % k)
        open_ = set(range(nopen))
        for k in range(nopen - 1):          # close most of the lower positions: the highest one stays in use
            if r.random() < 0.85:
                L.append("sdend %d" % k)
                open_.discard(k)
        hi = nopen - 1
        for rnd in range(r.choice([1, 2])):
            req = hi if (rnd == 0 and r.random() < 0.6) else r.choice([hi, hi + 1, hi - 1, len(open_), len(open_) + 1, 0, 1, 2,
                                                                        10, 36, 37, 38, 1000])
            L += ["sdmax %d" % req, "sdgetmax", "sdnopen"]
            for k in sorted(open_):
                L += ["sdcreate %d 6 2" % k, "sdinfo %d" % k]
            if r.random() < 0.6:                # a new file takes the first hole (or the next position)
                nk = 20 + len(L)
                L += ["sdstart %d" % nk, "sdcreate %d 4 1" % nk, "sdinfo %d" % nk]
                if r.random() < 0.5:
                    L.append("sdend %d" % nk)
                else:
                    open_.add(nk)
        for k in sorted(open_):
            L.append("sdend %d" % k)
        L.append("sdnopen")
    return L


def attr_count(r, nt, legal=None):
    """a count around the limits of an attribute of number type nt (one Vdata field: <= 65535 values and bytes)"""
    lim = 65535 // SIZES[nt]
    good = [1, 2, 100, lim - 1, lim, lim]
    bad = [lim + 1, lim + 1, 65535 if SIZES[nt] > 1 else 65536, 65536, 65537, 70000, min(IMAX, (1 << 32) // SIZES[nt]),
           min(IMAX, (1 << 32) // SIZES[nt] + 3), (1 << 30), IMAX, 0, -1]
    if legal is True:
        return r.choice(good)
    if legal is False:
        return r.choice(bad)
    return r.choice(good + bad)


def g_attr(r, name):
    """SD attributes of the file, of data sets and of dimensions: new names at the limits, and -- the class the first
    version of this check left out -- an EXISTING name set again with a value beyond / at / within the limits"""
    L = ["history " + name, "sdstart 0", "sdcreate 0 8 2", "sdcreate 0 9 1"]
    objs = [-1, 0, 1, 1000, 1001]
    used = []
    for _ in range(r.choice([6, 8, 10])):
        obj = r.choice(objs)
        nt = r.choice(list(SIZES))
        if used and r.random() < 0.6:
            obj, a, nt0 = r.choice(used)            # replace an existing attribute (any number type, any count)
            nt = nt0 if r.random() < 0.6 else nt
            L.append("sdattr 0 %d %d %d %d" % (obj, a, nt, attr_count(r, nt, legal=r.choice([False, False, True]))))
            L.append("sdattrinfo 0 %d %d" % (obj, a))
        else:
            a = len(L)
            c = attr_count(r, nt)
            L.append("sdattr 0 %d %d %d %d" % (obj, a, nt, c))
            L.append("sdattrinfo 0 %d %d" % (obj, a))
            if 1 <= c <= 65535 // SIZES[nt]:
                used.append((obj, a, nt))
    L += ["sdinfo 0", "sdend 0", "sdopen 0", "sdinfo 0", "sdname 0 0", "sdname 0 1"]
    for obj, a, nt in used:
        L.append("sdattrinfo 0 %d %d" % (obj, a))
    if used:
        obj, a, nt = r.choice(used)                  # and once more after the reopen
        L += ["sdattr 0 %d %d %d %d" % (obj, a, nt, attr_count(r, nt, legal=False)), "sdattrinfo 0 %d %d" % (obj, a),
              "sdattr 0 %d %d %d %d" % (obj, a, nt, attr_count(r, nt, legal=True)), "sdattrinfo 0 %d %d" % (obj, a)]
    L += ["sdcreate 0 5 1", "sdinfo 0", "sdend 0"]
    return L


def g_attr2(r, name):
    """GR / Vgroup / Vdata attributes: a new name, then the same name again, on both sides of the limits"""
    L = ["history " + name, "hopen 16", "vgnew 0", "vsnew 0"]
    for _ in range(r.choice([4, 6, 8])):
        nt = r.choice(list(SIZES))
        kind = r.choice(["grattr2", "grattr2", "vgattr2 0", "vsattr2 0"])
        c1 = attr_count(r, nt)
        c2 = r.choice([c1, attr_count(r, nt), attr_count(r, nt, legal=False)])
        L.append("%s %d %d %d" % (kind, nt, c1, c2))
    L += ["vgadd 0 1000 1 2", "vgdetach 0", "put 150 1 5", "reopen", "get 150 1", "dds", "vgattach 0 0 r", "vgn 0"]
    return L


def g_sdcount(r, name):
    """the documented maxima of the SD interface reached through EVERY path: H4_MAX_NC_VARS through SDcreate and through
    the coordinate variable a dimension gets on demand, H4_MAX_NC_ATTRS through new and replaced attributes (on a data
    set of maximal rank, whose Vgroup then has the largest number of members)"""
    L = ["history " + name, "sdstart 0"]
    if r.random() < 0.5:
        L += ["sdcreate 0 8 %d" % r.choice([1, 2, 32]), "sdcreate 0 9 1", "sdcreate 0 7 2"]
        L.append("sdfill 0 %d" % r.choice([4995, 4996, 4996, 4997]))
        for _ in range(r.choice([4, 6])):
            L.append(r.choice(["sdattr 0 %d 1 20 3" % (1000 + r.randrange(0, 3)), "sdattr 0 %d 2 20 3" % (1000 + r.randrange(0, 3)),
                               "sdcreate 0 6 1", "sdattrinfo 0 %d 1" % (1000 + r.randrange(0, 3)), "sdfill 0 1", "sdinfo 0"]))
        L += ["sdinfo 0", "sdcreate 0 6 1", "sdattr 0 1000 3 20 2", "sdattr 0 1001 3 20 2", "sdattr 0 1002 3 20 2", "sdinfo 0",
              "sdattr 0 0 4 20 2", "sdattrinfo 0 0 4"]
    else:
        L += ["sdcreate 0 8 %d" % r.choice([32, 32, 1])]
        L.append("sdattrfill 0 0 %d" % r.choice([2997, 2998, 2999, 3000]))
        for _ in range(r.choice([3, 5])):
            a = r.choice([5, 6, 7])
            L += ["sdattr 0 0 %d 20 %d" % (a, r.choice([1, 3, 65535, 65536])), "sdattrinfo 0 0 %d" % a]
        L += ["sdattrfill 0 0 2", "sdattr 0 0 5 20 4", "sdattrinfo 0 0 5"]
    L += ["sdend 0", "sdopen 0", "sdinfo 0", "sdname 0 0", "sdend 0"]
    return L


def g_lone(r, name):
    """objects whose ref is the highest the format has (or near it) must be found by every enumeration"""
    ref = r.choice([65535, 65535, 65535, 65534, 65533, 300])
    return ["history " + name, "hopen %d" % r.choice([16, 64]), "%s %d" % (r.choice(["lonevs", "lonevg"]), ref), "put 150 1 5",
            "reopen", "get 150 1", "dds"]


def g_hole(r, name):
    """a refused write into a special element must leave what the SAME session reads afterwards unchanged"""
    return ["history " + name, "hopen 16", "hlhole 120 1 %d" % r.choice([64, 1000, 4096, 65536, 1 << 20]), "put 150 1 5", "get 150 1",
            "reopen", "dds", "get 150 1"]


def g_fn(r, name):
    L = ["history " + name]
    for _ in range(40):
        e = r.choice([r.randrange(0, IMAX), IMAX - r.randrange(0, 5000), 294, 0, IMAX])
        b = r.choice([r.randrange(0, IMAX), IMAX - e + r.choice([-2, -1, 0, 1, 2, 100]), 0, 1, -1, -5, IMAX])
        b = max(-(1 << 31), min(IMAX, b))
        L.append("fn_getdiskblock %d %d" % (e, b))
    for _ in range(12):
        L.append("fn_vinsertpair %d" % r.choice([0, 1, 63, 64, 65, 127, 128, 65533, 65534, 65535, r.randrange(0, 65536)]))
    for _ in range(12):
        nd = r.choice([1, 2, 3, 5])
        dds = []
        for _ in range(nd):
            o = r.choice([r.randrange(0, IMAX), 300, IMAX - r.randrange(0, 1000)])
            ln = r.choice([r.randrange(0, 1 << 20), IMAX - o + r.choice([-1, 0]), 0, 10])
            if r.random() < 0.15:
                ln = IMAX - o + r.choice([1, 2, 1000])      # a descriptor no library call can produce (damaged file)
            dds += [o, max(0, min(IMAX, ln))]
        L.append("fn_endoff %d %s" % (nd, " ".join(map(str, dds))))
    return L


GENS = [("eof", g_eof, 10), ("append", g_append, 6), ("seek", g_seek, 4), ("chunk", g_chunk, 1), ("hl", g_hl, 4), ("refs", g_refs, 2), ("vg", g_vg, 4),
        ("vs", g_vs, 9), ("sd", g_sd, 6), ("attr", g_attr, 4), ("attr2", g_attr2, 3), ("sdcount", g_sdcount, 2), ("lone", g_lone, 3), ("hole", g_hole, 2), ("fn", g_fn, 2)]


# ------------------------------------------------------------------------------------------------- running
def split_histories(lines):
    out, cur = [], []
    for l in lines:
        if l.startswith("history ") and cur:
            out.append(cur)
            cur = []
        cur.append(l)
    if cur:
        out.append(cur)
    return out


def run_histories(ctx, hists, tag, tmo=None):
    """tmo: watchdog per history in seconds (a call that does not return is a violation: 'hang').  The whole batch is
    bounded as well: the harness stops after two hangs ('notrun'), and the subprocess has its own timeout."""
    if tmo is None:
        tmo = 60 if ctx.tier == "quick" else 240
    batch = 600 if ctx.tier == "quick" else 3600
    exe = ctx.harness("drive_limits", ["drive_limits.c"])
    mod = ctx.model("limits_model", ["limits_main.ml"], ["limits_model"])
    wd = os.path.join(ctx.bdir, "harness", "c20-%s-%d" % (tag, os.getpid()))
    shutil.rmtree(wd, ignore_errors=True)
    os.makedirs(wd)
    p = os.path.join(wd, "in.hist")
    flat = [l for h in hists for l in h]
    open(p, "w").write("\n".join(flat) + "\n")
    try:
        rc, out = vc.run_lines(exe, p, timeout=batch, args=[wd], env={"DRIVE_LIMITS_TIMEOUT": str(tmo)})
        rcs, SM = vc.run_lines(mod, p, timeout=600)
    finally:
        shutil.rmtree(wd, ignore_errors=True)
    if rcs != 0 or len(SM) != len(flat):
        raise vc.BuildError("spec/model driver failed rc=%d (%d lines for %d): %s" % (rcs, len(SM), len(flat), "\n".join(SM[-5:])))
    R = {}
    diag = []
    for l in out:
        m = re.match(r"^(\d+) (ok|fail|crash|hang|notrun|history|badop)\b(.*)$", l)
        if m:
            R[int(m.group(1))] = (m.group(2) + m.group(3)).strip()
        elif "ERROR: AddressSanitizer" in l or "SUMMARY:" in l or "runtime error" in l:
            diag.append(l.strip()[:200])
    S, M = [], []
    for l in SM:
        m = re.match(r"^\d+ S (.*) ; M (.*)$", l)
        S.append(m.group(1).strip())
        M.append(m.group(2).strip())
    Rl = [R.get(i + 1, "missing") for i in range(len(flat))]
    return rc, Rl, S, M, flat, diag


def match(r, s):
    if s in ("unspec", "history"):
        return True
    rt, st = r.split(), s.split()
    if not rt or rt[0] != st[0]:
        return False
    if rt[0] == "fail":
        rt = rt[:len(st)]      # diagnostics the harness appends after a failure are not part of the comparison
    if len(rt) != len(st):
        return False
    return all(b == "?" or a == b for a, b in zip(rt, st))


def first_bad(R, S, lo, hi):
    if R[lo] == "notrun":
        return None, None          # the harness gave up after two hangs: this history was not run
    for i in range(lo, hi):
        if R[i].startswith("hang"):
            return i, "hang"       # the watchdog fired inside this call: the library did not return
        if R[i].startswith("crash") or R[i] == "missing":
            return i, "crash"
        if not match(R[i], S[i]):
            return i, "mismatch"
    return None, None


def first_bad_m(R, M, S, flat, lo, hi):
    """R vs M: function-level calls are compared exactly; history-level operations for which the driver applied a
    site model are compared wherever the specification is defined"""
    for i in range(lo, hi):
        if M[i] in ("nomodel", "history"):
            continue
        if flat[i].startswith("fn_"):
            if R[i] != M[i]:
                return i
        elif S[i] != "unspec" and not match(R[i], M[i]):
            return i
    return None


def shrink(ctx, hist, limit=30, kind=None):
    """delta debugging on the operation list; a candidate counts only if it fails the same way (a crash stays a
    crash, a mismatch stays a mismatch on the same kind of operation)"""
    tmo = 20 if kind and kind[0] == "hang" else None   # candidates of a hanging history are cut off early
    if tmo:
        limit = min(limit, 6)

    def fails(h):
        rc, R, S, M, flat, _ = run_histories(ctx, [h], "shrink", tmo)
        i, k = first_bad(R, S, 0, len(flat))
        return i is not None and (kind is None or (k, flat[i].split()[0]) == kind)
    cur = list(hist)
    n = 0
    chunk = max(1, (len(cur) - 1) // 2)
    while chunk >= 1 and n < limit:
        i, progressed = 1, False
        while i < len(cur) and n < limit:
            cand = cur[:i] + cur[i + chunk:]
            n += 1
            if len(cand) > 1 and fails(cand):
                cur, progressed = cand, True
            else:
                i += chunk
        if not progressed:
            chunk //= 2
    return cur


def signature(hist, i):
    """known-finding signature of a failing history (None = nothing recorded for it): computed from the failing
    operation and what led to it"""
    return None


def report(ctx, h, tag):
    """shrink a failing history, write the replay, print VIOLATION"""
    t0 = 20 if tag == "hang" else None
    rc0, R0, S0, M0, flat0, _ = run_histories(ctx, [h], "rep0", t0)
    i0, k0 = first_bad(R0, S0, 0, len(flat0))
    kind0 = (k0, flat0[i0].split()[0]) if i0 is not None else None
    small = shrink(ctx, h, kind=kind0) if len(h) <= 400 else h
    rc2, R2, S2, M2, flat2, diag = run_histories(ctx, [small], "rep", t0)
    j, kind = first_bad(R2, S2, 0, len(flat2))
    if j is None:
        small = h
        rc2, R2, S2, M2, flat2, diag = run_histories(ctx, [small], "rep", t0)
        j, kind = first_bad(R2, S2, 0, len(flat2))
        j = j if j is not None else 0
    txt = ["# C20 replay: limit-probing history; library (R) vs specification (S) differ at the marked operation",
           "# run: bin/check C20 --replay <this file>"] + small + [
           "# first difference at op %d: %s" % (j, flat2[j][:200]),
           "#   library      : %s" % (R2[j] if kind != "hang" else "did not return within the watchdog time (hang)"),
           "#   specification: %s" % S2[j]] + ["#   sanitizer    : " + d for d in diag[:3]]
    ctx.violation("library differs from the limits specification (%s) at: %s -- R: %s / S: %s" % (
        kind, flat2[j][:120], R2[j][:80], S2[j][:80]), "\n".join(txt), found=True, signature=signature(small, j))


def run(ctx):
    r = ctx.rng
    corpus = []
    cdir = os.path.join(vc.VERIF, "corpus", "C20")
    for fn in sorted(os.listdir(cdir)) if os.path.isdir(cdir) else []:
        corpus += split_histories([l for l in open(os.path.join(cdir, fn)).read().splitlines()
                                   if l.strip() and not l.startswith("#")])
    mult = 1 if ctx.tier == "quick" else 12
    hists = list(corpus)
    kinds = ["corpus"] * len(corpus)
    for gname, g, w in GENS:
        for i in range(w * mult):
            hists.append(g(r, "%s%d" % (gname, i)))
            kinds.append(gname)
    rc, R, S, M, flat, diag = run_histories(ctx, hists, "main")
    pos, nviol, nbadm, nhang, notrun = 0, 0, 0, 0, 0
    opmix, refused, accepted, unspec = {}, 0, 0, 0
    per_kind = {}
    boundary = {"eof_at_limit_ok": 0, "eof_over_limit_fail": 0, "members_65535": 0, "member_refused": 0,
                "record_65535": 0, "record_refused": 0, "fields_256": 0, "fields_refused": 0, "rank_32": 0, "rank_refused": 0,
                "open_refused": 0, "name_refused": 0, "ref_exhausted": 0}
    for h, kd in zip(hists, kinds):
        lo, hi = pos, pos + len(h)
        pos = hi
        seg = R[lo:hi]
        nf = sum(1 for x in seg if x.startswith("fail"))
        no = sum(1 for x in seg if x.startswith("ok"))
        refused += nf
        accepted += no
        unspec += sum(1 for x in S[lo:hi] if x == "unspec")
        per_kind[kd] = per_kind.get(kd, 0) + 1
        for l, x in zip(h[1:], seg[1:]):
            o = l.split()[0]
            opmix[o] = opmix.get(o, 0) + 1
            t = l.split()
            if o == "reserve" and x.startswith("ok") and x.split()[-1] == str(IMAX):
                boundary["eof_at_limit_ok"] += 1
            if o in ("reserve", "put") and x.startswith("fail"):
                boundary["eof_over_limit_fail"] += 1
            if o == "vgn" and x == "ok 65535":
                boundary["members_65535"] += 1
            if o == "vgadd" and x.startswith("fail"):
                boundary["member_refused"] += 1
            if o == "vssetfields" and x.startswith("ok") and x.split()[-1] == "65535":
                boundary["record_65535"] += 1
            if o == "vssetfields" and x.startswith("fail"):
                boundary["record_refused"] += 1
            if o == "vssetfields" and x.startswith("ok 256 "):
                boundary["fields_256"] += 1
            if o == "vssetfields" and x.startswith("fail") and len(t) > 2 and t[2].count(",") >= 256:
                boundary["fields_refused"] += 1
            if o == "sdcreate" and t[3] == "32" and x == "ok":
                boundary["rank_32"] += 1
            if o == "sdcreate" and x == "fail":
                boundary["rank_refused"] += 1
            if o == "sdstart" and x == "fail":
                boundary["open_refused"] += 1
            if o in ("vgsetname", "vgsetclass") and x == "fail":
                boundary["name_refused"] += 1
            if o in ("newref", "tagnewref") and x == "fail":
                boundary["ref_exhausted"] += 1
        ctx.case(tuple(h[1:]), nf > 0 and no > 0,
                 sample={"history": h[1:8], "library": seg[1:8]} if len(ctx.coverage["samples"]) < 4 and kd != "corpus" else None)
        i, kind = first_bad(R, S, lo, hi)
        if R[lo] == "notrun":
            notrun += 1
        if i is not None and kind == "hang":
            nhang += 1
        if i is not None and nviol < 8 and (kind != "hang" or nhang <= 1):
            nviol += 1
            report(ctx, h, "hang" if kind == "hang" else kd)
        jm = first_bad_m(R, M, S, flat, lo, hi) if R[lo] != "notrun" else None
        if jm is not None and i is None and nbadm < 2:
            nbadm += 1
            txt = ["# C20: function-level call; library (R) vs Coq model LimitsModel (M) differ -- the model no longer",
                   "# describes the code (correspondence relation R~M broken); no history with R != S was found for it",
                   h[0], flat[jm], "#   library: %s" % R[jm], "#   model  : %s" % M[jm]]
            ctx.violation("site model differs from the library at: %s (R: %s, M: %s)" % (flat[jm][:100], R[jm], M[jm]),
                          "\n".join(txt), found=False)
    if rc == 124 and not ctx.violations:
        ctx.violation("the harness did not finish within its time budget (library hangs?)",
                      "# C20: harness batch timeout; last operations:\n" + "\n".join(flat[-30:]), found=True)
    ctx.corr("drive_limits~LimitsSpec", histories=len(hists), hangs=nhang, histories_not_run_after_hangs=notrun, by_kind=per_kind, operations=len(flat), op_mix=opmix,
             library_refusals=refused, library_acceptances=accepted, spec_unspecified_lines=unspec, boundary_hits=boundary,
             corpus_histories=len(corpus), sanitizer_reports=len(diag))
    ctx.corr("sites~LimitsModel", function_level_calls=sum(1 for l, m in zip(flat, M) if l.startswith("fn_") and m != "nomodel"),
             history_operations_with_site_model=sum(1 for l, m, s_ in zip(flat, M, S) if not l.startswith("fn_") and
                                                    m not in ("nomodel", "history") and s_ != "unspec"),
             mismatching_histories=nbadm)


def replay(ctx, path):
    lines = [l for l in open(path).read().splitlines() if l.strip() and not l.startswith("#")]
    rc, R, S, M, flat, diag = run_histories(ctx, [lines], "replay")
    bad = 0
    for i, l in enumerate(flat):
        okm = M[i] in ("nomodel", "history") or (R[i] == M[i] if l.startswith("fn_") else S[i] == "unspec" or match(R[i], M[i]))
        good = match(R[i], S[i]) and not R[i].startswith(("crash", "hang")) and R[i] != "missing" and okm
        bad += 0 if good else 1
        print("%s %-44s R: %-34s S: %-34s M: %s" % ("  " if good else "!!", l[:44], R[i][:34], S[i][:34], M[i][:40]))
    for d in diag[:4]:
        print("sanitizer:", d)
    print("differences:", bad)
    return 1 if bad else 0
