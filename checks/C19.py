"""C19 -- inspection tools report what is actually in the file.

Correspondence (R = the freshly built tools hdiff / hdp / hdfimport and hdiff's array_diff called directly,
M = extracted Coq model of the anchored mechanisms, S = extracted Coq specification):
  ad    array_diff (hdiff_array.c #included by the harness) vs M (count and printed positions, with -t / -p / -e
        options) and vs S (no options: the positions whose values differ)
  hd    hdiff F F, hdiff F F' and hdiff F' F for every single-point mutation F' of a generated file F (one
        element of one SDS / GR image / Vdata incl. the extreme pairs, one SDS attribute value, one global
        attribute value, one added or removed object of each class): exit status and "something was reported"
        vs S (same content <-> exit 0) and M (hdiff_m); the match table printed by `hdiff -b` vs M's cmatch; the
        position printed for a changed SDS element vs S's row-major index
  dump  hdp dumpsds -d / dumpvd -d / dumpgr -d output tokenised vs the values the API returns (read by the
        harness) and, for integer objects, vs M's tokens (row walk + integer formatting)
  imp   hdfimport on text (INT8/16/32, FP32, FP64) and binary (IN08/IN16/IN32/FP32/FP64) inputs of rank 2-3 vs
        SDreaddata on its output, and vs M's tokeniser for the integer text inputs
"""
import os
import re
import struct
import subprocess
import vcommon as vc

RULE = ("one PRNG (VERIF_SEED) drives everything.  ad: every integer number type (plus little-endian / native "
        "flavoured ones) x {no option, -t limit, -p relative, -e count} x arrays of 1..9 elements drawn from the type's "
        "boundary values (min, max, 0, -1, half-range apart) and random ones; float32 / float64 (plain): pairs 1 and 3 "
        "ulps apart among ordinary, denormal, tiny (1e-60) and huge (1e300) magnitudes; hd: generated files (1-3 SDS "
        "of every type and flavour, rank 1-3, with attributes; GR images with 1-3 components; Vdatas with 1-3 fields of "
        "every type and flavour; empty Vgroups; global attributes) and, per file, every kind of single-point mutation "
        "incl. the extreme pairs (-128/127, 0/255, INT_MIN/INT_MAX, half the range apart, floats one ulp apart at every "
        "magnitude), a global attribute appended / prepended / removed, each compared in both orders; dump: every "
        "object of every generated file (all flavours); imp: every input kind alone (rank 2 and 3) and every ordered "
        "pair of different input kinds (plus some triples) in ONE hdfimport command; many: a file of 45 objects "
        "(hdiff's object table grows at 21 and 41) with element changes around each growth point, both orders, and "
        "the hdiff -b object table; large: a Vdata read by hdp in several pieces with a shorter last one, an image and "
        "an SDS just above the tools' 1 MiB buffers; mixed: SD/V objects followed by DF24 / DFR8 rasters (same ref "
        "under different tags), every object changed in turn; fields: hdp dumpvd -f over several Vdatas with partly "
        "shared field names, every 2-subset of the name pool; hdfimport tokens in every spelling (zero-padded, "
        "signed, exponent form); SDS attribute added / removed, Vdata record appended / field renamed; Vdata, "
        "Vdata-field and Vgroup attributes (VSsetattr / Vsetattr) with value changes; Vdatas stored with "
        "NO_INTERLACE; SDS / global attributes that got longer or shorter with an unchanged prefix. "
        "A case is non-trivial when it lies in the property's domain (comparable objects, in-range values, "
        "NaN-free floats) and the tool ran; distinct by content")
TRUSTED = ["Coq 8.16.1 kernel (vm_compute only for closed witnesses and finite tables)",
           "translator gen/gen_consts.py + plugin gen/plugins/tools_exprs.py (typed C integer expressions with "
           "explicit widths, case labels, printf/scanf conversions, call arguments) run on hdiff_array.c, hdiff.c, "
           "hdiff_gr.c, hdp_dump.c, hdfimport.c through gcc -E",
           "extraction: Require Extraction + ExtrOcamlBasic; no Extract Constant; Z/positive/nat extracted as inductives",
           "OCaml driver extract/tools_main.ml, C harness harness/drive_c19.c (creates files and reads them back "
           "through the public SD/GR/VS/V API), comparison in checks/C19.py",
           "the C library's printf %f is the reference for floating-point text (Python's % operator, same "
           "correctly rounded conversion); strtod/scanf of floating input is not modelled",
           "modelled, not verified: control skeleton of array_diff/match/diff_sds/diff_gr/vdata_cmp/gattr_diff/"
           "sdsdumpfull/gdata (which loop runs when), IEEE arithmetic of the floating-point branches of array_diff "
           "(only the width skeleton of the difference expression is regenerated and proved on; the executable model "
           "flags differing bit patterns), hdiff_list's traversal order, diff_match_dim, SDreaddata as the n-d array of C03"]
ASSUMPTIONS = ["little-endian host, two's-complement int8/16/32/64 (gcc)",
               "property domain: NaN-free floating data without negative zero; objects matched by name are of the "
               "same class, type and shape ('not comparable' objects are outside the equality claim); datasets "
               "below the 1 MiB strip-mining threshold of diff_sds except the one known finding; Vdata fields numeric"]
EXPLANATION = ("A violation lists the tool command, the two content descriptions and R / M / S side by side; "
               "`bin/check C19 --replay <file>` rebuilds the files with the harness and reruns the tools.")

INT_RANGE = {20: (-128, 127), 21: (0, 255), 22: (-32768, 32767), 23: (0, 65535),
             24: (-2 ** 31, 2 ** 31 - 1), 25: (0, 2 ** 32 - 1), 3: (0, 255), 4: (0, 255)}
INT_TYPES = [20, 21, 22, 23, 24, 25]
FLOAT_TYPES = [5, 6]
NUM_TYPES = INT_TYPES + FLOAT_TYPES
FIELD_POOL = ["fa", "fb", "fc", "fd", "fe"]
SIG_IL = "df24-storage-interlace:GRreadimage-returns-storage-order"
DFK_SIZE = {3: 1, 4: 1, 20: 1, 21: 1, 22: 2, 23: 2, 24: 4, 25: 4, 5: 4, 6: 8}
SIG_STRIP = "sds-above-1MiB:nfound-of-last-strip-only"
SIG_SINGLE = "object-in-one-file-only:listed-by-match-but-not-counted"


# ------------------------------------------------------------------------------------------------
# values
# ------------------------------------------------------------------------------------------------

def bt(nt):
    """base number type of a possibly flavoured (native 0x1000, little-endian 0x4000) type"""
    return nt & 0xff


def flavoured(base, r, native=True):
    return base | r.choice([0, 0, 0x1000, 0x4000, 0x4000] if native else [0, 0x4000, 0x4000])


def isfloat(nt):
    return bt(nt) in FLOAT_TYPES


def fbits(nt, r, cls=None):
    """a finite, non-zero floating value, as its bit pattern: ordinary magnitude, denormal, tiny (1e-60 / 1e-36),
    huge (1e300 / 1e38)"""
    cls = cls or r.choice(["ord", "ord", "ord", "den", "tiny", "tiny", "huge"])
    if bt(nt) == 5:
        e = {"ord": r.randrange(100, 150), "den": 0, "tiny": r.randrange(1, 12), "huge": r.randrange(251, 255)}[cls]
        m = r.getrandbits(23) or 1
        return (r.getrandbits(1) << 31) | (e << 23) | m
    e = {"ord": r.randrange(1000, 1046), "den": 0, "tiny": r.randrange(800, 830), "huge": r.randrange(2000, 2047)}[cls]
    m = r.getrandbits(52) or 1
    return (r.getrandbits(1) << 63) | (e << 52) | m


def fval(nt, bits):
    return struct.unpack("<f", struct.pack("<I", bits))[0] if bt(nt) == 5 else struct.unpack("<d", struct.pack("<Q", bits))[0]


def rand_val(nt, r):
    if isfloat(nt):
        return fbits(nt, r)
    lo, hi = INT_RANGE[bt(nt)]
    span = hi - lo + 1
    c = r.randrange(10)
    if c == 0:
        return lo
    if c == 1:
        return hi
    if c == 2:
        return 0
    if c == 3:
        return max(lo, -1) if lo < 0 else hi - 1
    if c == 4:
        return lo + span // 2
    if c < 8:
        return r.randrange(max(lo, -100), min(hi, 100) + 1)
    return r.randrange(lo, hi + 1)


def fneighbour(nt, v, k):
    """the floating value k units in the last place away from v (same sign, stays finite and non-zero)"""
    mag_bits = 31 if bt(nt) == 5 else 63
    sign, mag = v >> mag_bits, v & ((1 << mag_bits) - 1)
    top = (0xff << 23) if bt(nt) == 5 else (0x7ff << 52)
    m2 = mag + k if 0 < mag + k < top else mag - k
    return (sign << mag_bits) | m2


def other_vals(nt, v, r):
    """candidate replacement values for v, extreme partners first"""
    if isfloat(nt):
        out = [fneighbour(nt, v, 1), fneighbour(nt, v, -1), fneighbour(nt, v, 3), v ^ (1 << (31 if bt(nt) == 5 else 63)),
               fbits(nt, r)]
        return [x for x in out if x != v]
    lo, hi = INT_RANGE[bt(nt)]
    span = hi - lo + 1
    cand = [lo + (v - lo + span // 2) % span, lo if v != lo else hi, hi if v != hi else lo,
            lo + (v - lo + 1) % span, lo + (v - lo - 1) % span, lo + (v - lo + span // 2 + 1) % span]
    cand += [r.randrange(lo, hi + 1) for _ in range(2)]
    seen, out = set(), []
    for x in cand:
        if x != v and x not in seen:
            seen.add(x)
            out.append(x)
    return out


# ------------------------------------------------------------------------------------------------
# content descriptions
# ------------------------------------------------------------------------------------------------

def gen_attr(r, name):
    nt = r.choice([4, 20, 22, 24, 5, 23, 25, 6])
    n = r.randrange(1, 5)
    if nt == 4:
        vals = [r.randrange(97, 123) for _ in range(n)]
    else:
        vals = [rand_val(nt, r) for _ in range(n)]
    return {"name": name, "nt": nt, "vals": vals}


def gen_file(r, idx):
    """a content description: dict(gattrs=[attr], objs=[obj])"""
    objs = []
    nsds = r.randrange(1, 4)
    types = list(NUM_TYPES)
    r.shuffle(types)
    for k in range(nsds):
        nt = flavoured(types[(idx + k) % len(types)], r)
        rank = r.choice([1, 2, 2, 3])
        dims = [r.randrange(1, 5) for _ in range(rank)]
        if rank > 1 and r.randrange(3) == 0:
            dims[r.randrange(rank)] = 1
        n = 1
        for d in dims:
            n *= d
        vals = [rand_val(nt, r) for _ in range(n)]
        attrs = [gen_attr(r, "at%d" % j) for j in range(r.randrange(1, 3))]
        objs.append({"k": "S", "name": "sds%d_%d" % (idx, k), "nt": nt, "dims": dims, "vals": vals, "attrs": attrs})
    for k in range(r.randrange(0, 3)):
        # no native flavour for images: GRcreate drops the flag and multi-byte values come back byte-swapped through
        # the API itself (a GR round-trip matter, property C09), which has nothing to do with the tools
        nt = flavoured(r.choice([21, 21, 20, 22, 23, 24, 25, 5, 6]), r, native=False)
        nc = r.choice([1, 1, 2, 3])
        xd, yd = r.randrange(1, 5), r.randrange(1, 5)
        objs.append({"k": "R", "name": "img%d_%d" % (idx, k), "nt": nt, "nc": nc, "xd": xd, "yd": yd,
                     "vals": [rand_val(nt, r) for _ in range(xd * yd * nc)]})
    for k in range(r.randrange(1, 4)):
        nf = r.randrange(1, 5)
        # field names from a small shared pool, so that a -f selection matches different numbers of fields in
        # different Vdatas of one file
        fields = [(nm, flavoured(r.choice(NUM_TYPES), r), r.randrange(1, 3)) for nm in r.sample(FIELD_POOL, nf)]
        nrec = r.randrange(1, 5)
        vals = []
        for _ in range(nrec):
            for (_, nt, o) in fields:
                vals += [rand_val(nt, r) for _ in range(o)]
        tattrs = []
        for j in range(r.randrange(0, 3)):
            a = gen_attr(r, "va%d_%d_%d" % (idx, k, j))
            a["findex"] = r.randrange(-1, nf)      # -1: the Vdata itself, >= 0: one of its fields
            tattrs.append(a)
        objs.append({"k": "V", "name": "vd%d_%d" % (idx, k), "nrec": nrec, "fields": fields, "vals": vals,
                     "tattrs": tattrs, "noil": r.randrange(3) == 0})
    for k in range(r.randrange(0, 2)):
        tattrs = []
        for j in range(r.randrange(0, 2)):
            a = gen_attr(r, "ga%d_%d_%d" % (idx, k, j))
            a["findex"] = -2
            tattrs.append(a)
        objs.append({"k": "E", "name": "grp%d_%d" % (idx, k), "tattrs": tattrs})
    r.shuffle(objs)
    gattrs = [gen_attr(r, "glob%d" % j) for j in range(r.randrange(0, 3))]
    return {"gattrs": gattrs, "objs": objs}


def desc_text(f):
    out = []
    for a in f["gattrs"]:
        out.append("G %s %d %d %s" % (a["name"], a["nt"], len(a["vals"]), " ".join(map(str, a["vals"]))))
    for o in f["objs"]:
        if o["k"] == "S":
            out.append("S %s %d %d %s %d %s" % (o["name"], o["nt"], len(o["dims"]), " ".join(map(str, o["dims"])),
                                                  len(o["vals"]), " ".join(map(str, o["vals"]))))
            for a in o["attrs"]:
                out.append("A %s %d %d %s" % (a["name"], a["nt"], len(a["vals"]), " ".join(map(str, a["vals"]))))
        elif o["k"] == "R":
            out.append("R %s %d %d %d %d %d %s" % (o["name"], o["nt"], o["nc"], o["xd"], o["yd"], len(o["vals"]),
                                                    " ".join(map(str, o["vals"]))))
        elif o["k"] == "V":
            out.append("%s %s %d %d %s %d %s" % ("N" if o.get("noil") else "V", o["name"], o["nrec"], len(o["fields"]),
                                                 " ".join("%s %d %d" % fl for fl in o["fields"]), len(o["vals"]),
                                                 " ".join(map(str, o["vals"]))))
        elif o["k"] == "D":
            out.append("D %d %d %d %d %s" % (o["il"], o["xd"], o["yd"], len(o["vals"]), " ".join(map(str, o["vals"]))))
        elif o["k"] == "B":
            out.append("B %d %d %d %s" % (o["xd"], o["yd"], len(o["vals"]), " ".join(map(str, o["vals"]))))
        else:
            out.append("E %s" % o["name"])
        for a in o.get("tattrs", []):
            out.append("T %s %d %s %d %d %s" % (o["name"], a["findex"], a["name"], a["nt"], len(a["vals"]), " ".join(map(str, a["vals"]))))
    return "\n".join(" ".join(l.split()) for l in out) + "\n"


def clone(f):
    import copy
    return copy.deepcopy(f)


def mutations(f, r, idx):
    """single-point mutations of f: list of (kind, description-of-change, f')"""
    out = []
    for oi, o in enumerate(f["objs"]):
        if o["k"] in ("S", "R", "V") and o["vals"]:
            if o["k"] == "V":
                tl = []
                for (_, nt, od) in o["fields"]:
                    tl += [nt] * od
                tl = tl * o["nrec"]
            else:
                tl = [o["nt"]] * len(o["vals"])
            # two element mutations: a random position with the half-range partner, the last position with another
            poss = [r.randrange(len(o["vals"])), len(o["vals"]) - 1]
            for j, p in enumerate(poss):
                cands = other_vals(tl[p], o["vals"][p], r)
                nv = cands[0] if j == 0 else r.choice(cands)
                g = clone(f)
                g["objs"][oi]["vals"][p] = nv
                out.append(("elem-" + o["k"], "%s[%d] %d -> %d (type %d)" % (o["name"], p, o["vals"][p], nv, tl[p]), g,
                            (o["name"], p) if o["k"] == "S" else None))
        if o["k"] == "S":
            for ai, a in enumerate(o["attrs"]):
                p = r.randrange(len(a["vals"]))
                nv = r.choice(other_vals(a["nt"], a["vals"][p], r)) if a["nt"] != 4 else 97 + (a["vals"][p] - 96) % 26
                g = clone(f)
                g["objs"][oi]["attrs"][ai]["vals"][p] = nv
                out.append(("attr-S", "%s:%s[%d] %d -> %d" % (o["name"], a["name"], p, a["vals"][p], nv), g, None))
    for ai, a in enumerate(f["gattrs"]):
        p = r.randrange(len(a["vals"]))
        nv = r.choice(other_vals(a["nt"], a["vals"][p], r)) if a["nt"] != 4 else 97 + (a["vals"][p] - 96) % 26
        g = clone(f)
        g["gattrs"][ai]["vals"][p] = nv
        out.append(("attr-G", "global %s[%d] %d -> %d" % (a["name"], p, a["vals"][p], nv), g, None))
    # value of a Vdata / Vdata-field / Vgroup attribute (stored as lone Vdatas of class Attr0.0)
    for oi, o in enumerate(f["objs"]):
        for ai, a in enumerate(o.get("tattrs", [])):
            p = r.randrange(len(a["vals"]))
            nv = r.choice(other_vals(a["nt"], a["vals"][p], r)) if a["nt"] != 4 else 97 + (a["vals"][p] - 96) % 26
            g = clone(f)
            g["objs"][oi]["tattrs"][ai]["vals"][p] = nv
            out.append(("attr-" + ("Vgroup" if a["findex"] == -2 else "Vdata" if a["findex"] == -1 else "Vfield"),
                        "%s:%s[%d] %d -> %d" % (o["name"], a["name"], p, a["vals"][p], nv), g, None))
    # an attribute that got longer / shorter while its leading elements stayed (string extended, array gained an element)
    for oi, o in enumerate(f["objs"]):
        if o["k"] == "S":
            for ai, a in enumerate(o["attrs"]):
                g = clone(f)
                g["objs"][oi]["attrs"][ai]["vals"].append(rand_val(a["nt"], r) if a["nt"] != 4 else 122)
                out.append(("attr-S-extended", "%s:%s gained an element" % (o["name"], a["name"]), g, None))
                if len(a["vals"]) > 1:
                    g = clone(f)
                    g["objs"][oi]["attrs"][ai]["vals"].pop()
                    out.append(("attr-S-truncated", "%s:%s lost its last element" % (o["name"], a["name"]), g, None))
    for ai, a in enumerate(f["gattrs"]):
        g = clone(f)
        g["gattrs"][ai]["vals"].append(rand_val(a["nt"], r) if a["nt"] != 4 else 122)
        out.append(("attr-G-extended", "global %s gained an element" % a["name"], g, None))
    # SDS attribute appended / removed, Vdata record appended, Vdata field renamed (header differences)
    for oi, o in enumerate(f["objs"]):
        if o["k"] == "S":
            g = clone(f)
            g["objs"][oi]["attrs"].append(gen_attr(r, "newat%d" % idx))
            out.append(("attr-added-S", "%s: attribute appended" % o["name"], g, None))
            if o["attrs"]:
                g = clone(f)
                del g["objs"][oi]["attrs"][r.randrange(len(o["attrs"]))]
                out.append(("attr-removed-S", "%s: attribute removed" % o["name"], g, None))
        if o["k"] == "V":
            g = clone(f)
            g["objs"][oi]["nrec"] += 1
            for (_, nt, od) in o["fields"]:
                g["objs"][oi]["vals"] += [rand_val(nt, r) for _ in range(od)]
            out.append(("header-V-record", "%s: record appended" % o["name"], g, None))
            g = clone(f)
            fl = list(g["objs"][oi]["fields"])
            fl[0] = ("zz", fl[0][1], fl[0][2])
            g["objs"][oi]["fields"] = fl
            out.append(("header-V-field", "%s: first field renamed" % o["name"], g, None))
    # global attribute appended / prepended / removed (first, last)
    for where in ("append", "prepend"):
        g = clone(f)
        new = gen_attr(r, "newglob_%s%d" % (where, idx))
        if where == "append":
            g["gattrs"].append(new)
        else:
            g["gattrs"].insert(0, new)
        out.append(("gattr-added-" + where, "global attribute %s %s" % (new["name"], where + "ed"), g, None))
    for ai in sorted(set([0, len(f["gattrs"]) - 1])):
        if 0 <= ai < len(f["gattrs"]):
            g = clone(f)
            del g["gattrs"][ai]
            out.append(("gattr-removed", "global attribute %s removed" % f["gattrs"][ai]["name"], g, None))
    # removed object (each one present) and added object (one of each class, names sorting before / after)
    for oi, o in enumerate(f["objs"]):
        g = clone(f)
        del g["objs"][oi]
        out.append(("removed-" + o["k"], "removed %s" % o["name"], g, None))
    for k, nm in (("S", "aaa_new%d" % idx), ("R", "zzz_new%d" % idx), ("V", "mmm_new%d" % idx), ("E", "new_grp%d" % idx)):
        g = clone(f)
        if k == "S":
            new = {"k": "S", "name": nm, "nt": 24, "dims": [2], "vals": [1, 2], "attrs": []}
        elif k == "R":
            new = {"k": "R", "name": nm, "nt": 21, "nc": 1, "xd": 2, "yd": 1, "vals": [3, 4]}
        elif k == "V":
            new = {"k": "V", "name": nm, "nrec": 1, "fields": [("x", 22, 1)], "vals": [5]}
        else:
            new = {"k": "E", "name": nm}
        g["objs"].insert(r.randrange(len(g["objs"]) + 1), new)
        out.append(("added-" + k, "added %s" % nm, g, None))
    return out


# ------------------------------------------------------------------------------------------------
# running things
# ------------------------------------------------------------------------------------------------

class Env:
    def __init__(self, ctx):
        self.ctx = ctx
        self.exe = ctx.harness("drive_c19", ["drive_c19.c"])
        self.mod = ctx.model("tools_model", ["tools_main.ml"], ["tools_model"])
        self.hdiff = ctx.tool("hdiff")
        self.hdp = ctx.tool("hdp")
        self.hdfimport = ctx.tool("hdfimport")
        self.dir = os.path.join(ctx.bdir, "harness", "c19-%d" % os.getpid())
        os.makedirs(self.dir, exist_ok=True)
        self.n = 0

    def path(self, suffix):
        self.n += 1
        return os.path.join(self.dir, "f%d%s" % (self.n, suffix))

    def run(self, args, timeout=120):
        e = dict(os.environ)
        e.update(vc.HARNESS_ENV)
        try:
            p = subprocess.run(args, stdout=subprocess.PIPE, stderr=subprocess.PIPE, timeout=timeout, env=e, cwd=self.dir)
            return p.returncode, p.stdout.decode("utf-8", "replace"), p.stderr.decode("utf-8", "replace")
        except subprocess.TimeoutExpired:
            return 124, "", "[timeout]"

    def mk(self, text):
        d = self.path(".desc")
        open(d, "w").write(text)
        h = d[:-5] + ".hdf"
        rc, out, err = self.run([self.exe, "mk", d, h])
        if rc != 0:
            raise vc.BuildError("harness could not create a file (rc=%d): %s\n%s" % (rc, err[-500:], text[:400]))
        return d, h

    def cleanup(self):
        import shutil
        shutil.rmtree(self.dir, ignore_errors=True)


def model_lines(env, mode, text):
    p = env.path(".in")
    open(p, "w").write(text)
    rc, out, err = env.run([env.mod, mode, p], timeout=600)
    if rc != 0:
        raise vc.BuildError("model driver failed in mode %s (rc=%d): %s" % (mode, rc, err[-500:]))
    return out.splitlines()


SOFT = []


def soft(ctx, what, text):
    """R agrees with S but not with M (or M with S): the property is not refuted on this input, only no longer shown.
    Remembered, reported at the end (found=False) unless a real failing input turns up; never stops the search."""
    SOFT.append((what, text))


def crashed(rc):
    return rc in (97, 98, 124) or rc < 0 or rc >= 128


# ---- ad ----------------------------------------------------------------------------------------

def gen_ad_cases(ctx):
    r = ctx.rng
    cases = []
    per = 14 if ctx.tier == "quick" else 150
    # floating types (incl. a flavoured one): plain calls only; pairs one or a few ulps apart at every magnitude
    for nt in (5, 6, 0x4000 | 6, 0x1000 | 5):
        for cls in ("ord", "den", "tiny", "huge"):
            for k in (1, -1, 3):
                v = fbits(nt, r, cls)
                cases.append((nt, 1 << 30, 0, 0, 0, [v], [fneighbour(nt, v, k)]))
            v = fbits(nt, r, cls)
            cases.append((nt, 1 << 30, 0, 0, 0, [v, v], [v, v]))
        for _ in range(per // 3):
            n = r.randrange(1, 8)
            a = [rand_val(nt, r) for _ in range(n)]
            b = [(x if r.randrange(3) else r.choice(other_vals(nt, x, r))) for x in a]
            cases.append((nt, 1 << 30, 0, 0, 0, a, b))
    for nt in INT_TYPES + [3, 4, 0x4000 | 22, 0x1000 | 25, 0x4000 | 20]:
        lo, hi = INT_RANGE[bt(nt)]
        span = hi - lo + 1
        specials = [(lo, hi), (hi, lo), (0, lo + span // 2 if lo < 0 else span // 2), (lo + span // 2, lo),
                    (lo, lo), (hi, hi), (max(lo, -1), hi), (lo + span // 4, lo + span // 4 + span // 2)]
        for (x, y) in specials:
            cases.append((nt, 1 << 30, 0, 0, 0, [x], [y]))
        for _ in range(per):
            n = r.randrange(1, 10)
            a = [rand_val(nt, r) for _ in range(n)]
            b = [(x if r.randrange(3) else r.choice(other_vals(nt, x, r))) for x in a]
            kind = r.choice(["none", "none", "lim", "rel", "cnt"])
            if kind == "none":
                cases.append((nt, 1 << 30, 0, 0, 0, a, b))
            elif kind == "cnt":
                cases.append((nt, r.randrange(0, 4), 0, 0, 0, a, b))
            elif kind == "lim":
                cases.append((nt, 1 << 30, r.choice([1, 2, 5, 100, 127, 128, 255, 1000, 32767, 65535]), 0, 0, a, b))
            else:
                # relative: keep magnitudes small so that the rational model of (float)per > err_rel is exact
                w = min(hi, 500)
                a = [r.choice([0, 0, 1, 2, 4, 10, r.randrange(max(lo, -w), w + 1)]) for _ in range(n)]
                b = [(x if r.randrange(3) == 0 else r.randrange(max(lo, -w), w + 1)) for x in a]
                cases.append((nt, r.choice([1 << 30, 1, 2]), 0, r.choice([1, 1, 3, 5]), r.choice([2, 4, 8]), a, b))
    return cases


def fmt_ad(c):
    nt, mx, lim, rn, rd, a, b = c
    return "%d %d %d %d %d %d %s %s" % (nt, len(a), mx, lim, rn, rd, " ".join(map(str, a)), " ".join(map(str, b)))


def parse_ad_out(text):
    res, cur = [], None
    for l in text.splitlines():
        if l == "BEGIN":
            cur = []
        elif l.startswith("END") and cur is not None:
            res.append("%s %s" % (l.split()[1] if len(l.split()) > 1 else "?", " ".join(cur)))
            cur = None
        elif cur is not None:
            m = re.match(r"\[ (\d+) \]", l)
            if m:
                cur.append(m.group(1))
    return [" ".join(x.split()) for x in res]


def run_ad(env, cases):
    text = "\n".join(fmt_ad(c) for c in cases) + "\n"
    p = env.path(".ad")
    open(p, "w").write(text)
    rc, out, err = env.run([env.exe, "ad", p], timeout=600)
    R = parse_ad_out(out)
    MS = model_lines(env, "ad", text)
    return rc, R, MS, err


def check_ad(env, ctx):
    cases = gen_ad_cases(ctx)
    rc, R, MS, err = run_ad(env, cases)
    st = {"cases": len(cases), "plain": 0, "with_limit": 0, "with_relative": 0, "with_count": 0, "differing_cases": 0,
          "half_range_pairs": 0, "harness_rc": rc}
    for i, c in enumerate(cases):
        nt, mx, lim, rn, rd, a, b = c
        m, s = [" ".join(x.split()[1:]) for x in MS[i].split(";")]
        rr = R[i] if i < len(R) else "crash"
        plain = lim == 0 and rd == 0 and mx >= len(a)
        st["plain" if plain else ("with_limit" if lim else "with_relative" if rd else "with_count")] += 1
        if isfloat(nt):
            st["float_cases"] = st.get("float_cases", 0) + 1
        else:
            lo, hi = INT_RANGE[bt(nt)]
            if any(abs(x - y) * 2 == hi - lo + 1 for x, y in zip(a, b)):
                st["half_range_pairs"] += 1
        if nt >> 12:
            st["flavoured_cases"] = st.get("flavoured_cases", 0) + 1
        if a != b:
            st["differing_cases"] += 1
        ctx.case(("ad",) + tuple(c[:5]) + (tuple(a), tuple(b)), True,
                 sample={"array_diff": fmt_ad(c), "lib": rr} if i % 53 == 0 else None)
        txt = "AD\n%s\n# spec (positions that differ): %s\n# model: %s\n# library array_diff: %s\n" % (fmt_ad(c), s, m, rr)
        if plain and rr != s:
            ctx.violation("array_diff does not report exactly the differing positions: " + fmt_ad(c)[:160], txt, found=True)
        elif rr != m:
            if plain:
                soft(ctx, "array_diff model differs from the library", txt)
            else:
                soft(ctx, "array_diff with options differs from its model (no specification-level failure "
                              "found): relation array_diff ~ array_diff_m", txt)
        elif plain and m != s:
            soft(ctx, "model differs from specification (theorem array_diff_zero_iff_equal broken?)", txt)
        if len(ctx.violations) >= 4:
            break
    if (crashed(rc) or len(R) < len(cases)) and not ctx.violations:
        ctx.violation("array_diff harness crashed (rc=%d)" % rc,
                      "AD\n%s\n# crash:\n# %s" % (fmt_ad(cases[min(len(R), len(cases) - 1)]), err[-1500:].replace("\n", "\n# ")), found=True)
    ctx.corr("array_diff~array_diff_m~spec_diff_positions", **st)


# ---- hd ----------------------------------------------------------------------------------------

def parse_match_table(out):
    tbl, on = [], False
    for l in out.splitlines():
        if l.startswith("file1     file2"):
            on = True
            continue
        if on:
            if l.startswith("-----"):
                continue
            if not l.strip():
                break
            name = l[15:].strip() if len(l) > 15 else l.split()[-1]
            tbl.append(("x" if l[4:5] == "x" else "-") + ("x" if l[11:12] == "x" else "-") + ":" + name)
    return "|".join(tbl)


def parse_object_table(out):
    """the 'file 1  Tag Ref Name' table of hdiff -b -> 'tag:name tag:name ...'"""
    res, on = [], False
    for l in out.splitlines():
        if l.startswith("file 1 "):
            on = True
            continue
        if on:
            if l.startswith("-----"):
                if res:
                    break
                continue
            tk = l.split()
            if len(tk) >= 3 and tk[0].lstrip("-").isdigit():
                res.append("%s:%s" % (tk[0], " ".join(tk[2:])))
            else:
                break
    return "|".join(res)


def hd_record(kind, what, d1, d2, extra=""):
    return "HD %s | %s\n%s--\n%s%s" % (kind, what, d1, d2, extra)


def run_pair(env, h1, h2, verbose=False):
    rc, out, err = env.run([env.hdiff] + (["-b"] if verbose else []) + [h1, h2])
    return rc, out, err


def spec_pos(dims, k):
    idx = []
    for i in range(len(dims)):
        p = 1
        for d in dims[i + 1:]:
            p *= d
        idx.append((k // p) % dims[i])
    return idx


def check_pair(env, ctx, kind, what, t1, t2, st, sdspos=None, files=None):
    """run hdiff on the pair (both files already built when files is given) and compare with S and M."""
    if files is None:
        d1, h1 = env.mk(t1)
        d2, h2 = env.mk(t2)
    else:
        (d1, h1), (d2, h2) = files
    ms = model_lines(env, "hd", "%s %s\n" % (d1, d2))[0]
    parts = [x.strip() for x in ms.split(";")]
    s_exit, m_exit, m_tbl = parts[0].split()[1], parts[1].split()[1], parts[2][2:].strip()
    verbose = kind.startswith(("added", "removed", "same", "many", "mixed"))
    m_tags = parts[4][2:].strip() if len(parts) > 4 else None
    rc, out, err = run_pair(env, h1, h2, verbose)
    st["runs"] += 1
    st["kinds"][kind] = st["kinds"].get(kind, 0) + 1
    ctx.case(("hd", kind, t1, t2), True, sample={"hdiff": what, "exit": rc, "spec": s_exit} if st["runs"] % 41 == 1 else None)
    body = hd_record(kind, what, t1, t2)
    side = "\n# spec exit: %s   model exit: %s   hdiff exit: %d\n# hdiff output:\n# %s\n# stderr: %s\n" % (
        s_exit, m_exit, rc, out[-1200:].replace("\n", "\n# "), err[-600:].replace("\n", "\n# "))
    if crashed(rc):
        ctx.violation("hdiff crashed (rc=%d) on %s: %s" % (rc, kind, what), body + side, found=True)
        return
    r_tbl = parse_match_table(out) if verbose else None
    if str(rc) != s_exit:
        # known finding: the only difference is an object present in one file only; match() lists it (the table
        # printed by -b agrees with cmatch and has a one-sided entry) but does not count it
        sig = None
        if verbose and rc == 0 and m_exit == "0" and r_tbl == m_tbl and ("x-:" in m_tbl or "-x:" in m_tbl) \
                and parts[3].split()[1] != "0":
            sig = SIG_SINGLE
            st["one_sided_known"] = st.get("one_sided_known", 0) + 1
        ctx.violation("hdiff exit status %d, specification says %s (%s: %s)" % (rc, s_exit, kind, what), body + side,
                      found=True, signature=sig)
        return
    if verbose and m_tags is not None:
        r_tags = parse_object_table(out)
        st["tables_checked"] = st.get("tables_checked", 0) + 1
        st["max_table_entries"] = max(st.get("max_table_entries", 0), len(r_tags.split("|")))
        if r_tags != m_tags:
            # the object table itself is wrong (tags are what diff() dispatches on)
            soft(ctx, "object table of hdiff -b (tag:name per entry) differs from dtable_build",
                 body + "\n# model table: %s\n# hdiff table: %s\n" % (m_tags[:1500], r_tags[:1500]))
    if verbose:
        if r_tbl != m_tbl:
            soft(ctx, "match table of hdiff -b differs from cmatch", body + "\n# model table: %s\n# hdiff table: %s\n" % (m_tbl, r_tbl))
            return
        reported = len([l for l in out.splitlines() if "is only in file" in l or "does not exist" in l or l.startswith("[ ")]) > 0
        if s_exit == "1" and kind.startswith(("added", "removed")) and not reported:
            ctx.violation("hdiff exit 1 but nothing reported for %s" % what, body + side, found=True)
            return
    else:
        if s_exit == "0" and out.strip():
            ctx.violation("hdiff printed a report for files of equal content", body + side, found=True)
            return
        if s_exit == "1" and not out.strip():
            ctx.violation("hdiff exit 1 but empty report", body + side, found=True)
            return
    if str(rc) != m_exit:
        soft(ctx, "hdiff agrees with the specification but not with its model hdiff_m", body + side)
        return
    if sdspos is not None and s_exit == "1":
        dims, k = sdspos
        want = "[ %s ]" % " ".join(map(str, spec_pos(dims, k)))
        got = [l for l in out.splitlines() if l.startswith("[ ")]
        st["positions_checked"] += 1
        if len(got) != 1 or not got[0].startswith(want):
            ctx.violation("hdiff reported position %s, the changed element is at %s" % (got[:2], want), body + side, found=True)


def check_hd(env, ctx):
    r = ctx.rng
    nfiles = 9 if ctx.tier == "quick" else 120
    st = {"files": 0, "runs": 0, "kinds": {}, "positions_checked": 0, "objects": {"S": 0, "R": 0, "V": 0, "E": 0}}
    dumps = []
    for idx in range(nfiles):
        f = gen_file(r, idx)
        t = desc_text(f)
        st["files"] += 1
        for o in f["objs"]:
            st["objects"][o["k"]] += 1
        base = env.mk(t)
        dumps.append((f, t, base))
        check_pair(env, ctx, "same", "F vs F", t, t, st, files=(base, base))
        muts = mutations(f, r, idx)
        if ctx.tier == "quick" and len(muts) > 16:
            # keep every kind, thin out repeats
            keep, seen = [], {}
            r.shuffle(muts)
            for mt in muts:
                seen[mt[0]] = seen.get(mt[0], 0) + 1
                if seen[mt[0]] <= 2:
                    keep.append(mt)
            muts = keep[:46]
        for kind, what, g, pos in muts:
            tg = desc_text(g)
            other = env.mk(tg)
            sp = None
            if pos is not None:
                o = [x for x in f["objs"] if x["name"] == pos[0]][0]
                sp = (o["dims"], pos[1])
            check_pair(env, ctx, kind, what, t, tg, st, sdspos=sp, files=(base, other))
            check_pair(env, ctx, kind + "/swapped", what, tg, t, st, sdspos=sp, files=(other, base))
            if len(ctx.violations) >= 4:
                break
        if len(ctx.violations) >= 4:
            break
    ctx.corr("hdiff~hdiff_m~same_content", **st)
    return dumps


# ---- many objects (object-table growth) ------------------------------------------------------------

def list_order(objs):
    rank = {"E": 0, "R": 1, "D": 1, "B": 1, "S": 2, "V": 3}
    return sorted(range(len(objs)), key=lambda i: (rank[objs[i]["k"]], i))


def check_many(env, ctx):
    """files with more objects than hdiff's object table holds at first (20 entries, doubled when full): a change
    in an object listed before / at / after each growth point must be flagged like any other."""
    r = ctx.rng
    st = {"files": 0, "runs": 0, "kinds": {}, "positions_checked": 0, "objects_per_file": []}
    for n in ([45] if ctx.tier == "quick" else [21, 41, 45, 90]):
        objs = []
        for k in range(n):
            c = r.choice("SSRVVE") if k > 3 else "SRVE"[k]
            nm = "o%02d%s" % (k, c.lower())
            if c == "S":
                nt = flavoured(r.choice(NUM_TYPES), r)
                dims = [r.randrange(1, 4), r.randrange(1, 4)]
                objs.append({"k": "S", "name": nm, "nt": nt, "dims": dims, "attrs": [],
                             "vals": [rand_val(nt, r) for _ in range(dims[0] * dims[1])]})
            elif c == "R":
                nt = flavoured(r.choice([21, 22, 24, 5]), r, native=False)
                objs.append({"k": "R", "name": nm, "nt": nt, "nc": 1, "xd": 2, "yd": 2, "vals": [rand_val(nt, r) for _ in range(4)]})
            elif c == "V":
                nt = r.choice(NUM_TYPES)
                objs.append({"k": "V", "name": nm, "nrec": 2, "fields": [("x", nt, 1)], "vals": [rand_val(nt, r) for _ in range(2)]})
            else:
                objs.append({"k": "E", "name": nm})
        f = {"gattrs": [], "objs": objs}
        t = desc_text(f)
        base = env.mk(t)
        st["files"] += 1
        st["objects_per_file"].append(n)
        check_pair(env, ctx, "many-same", "F vs F (%d objects)" % n, t, t, st, files=(base, base))
        order = list_order(objs)
        want = set([0, 1, 18, 19, 20, 21, 39, 40, 41, n - 2, n - 1] + [r.randrange(n) for _ in range(3)])
        for pos in sorted(p for p in want if 0 <= p < n):
            oi = order[pos]
            o = objs[oi]
            if o["k"] == "E":
                continue
            g = clone(f)
            tl = [o["nt"]] * len(o["vals"]) if o["k"] != "V" else [o["fields"][0][1]] * len(o["vals"])
            p = r.randrange(len(o["vals"]))
            nv = other_vals(tl[p], o["vals"][p], r)[0]
            g["objs"][oi]["vals"][p] = nv
            tg = desc_text(g)
            other = env.mk(tg)
            what = "%s (table entry %d of %d) [%d] %d -> %d" % (o["name"], pos, n, p, o["vals"][p], nv)
            check_pair(env, ctx, "many-elem-" + o["k"], what, t, tg, st, files=(base, other))
            check_pair(env, ctx, "many-elem-" + o["k"] + "/swapped", what, tg, t, st, files=(other, base))
            if len(ctx.violations) >= 4:
                break
    ctx.corr("hdiff-many-objects~dtable_build", **st)


# ---- files mixing interfaces: equal reference numbers under different tags ---------------------------------

def check_mixed(env, ctx):
    """SDSs / Vdatas created first, then 24-bit and 8-bit rasters added with DF24addimage / DFR8addimage: their refs
    come from Htagnewref (per tag), so an image and an SDS carry the same ref.  Every object must still be listed,
    compared and dumped."""
    r = ctx.rng
    st = {"files": 0, "runs": 0, "kinds": {}, "positions_checked": 0, "raster_dumps": 0}
    for idx in range(2 if ctx.tier == "quick" else 12):
        objs = []
        for k in range(r.randrange(1, 4)):
            nt = flavoured(r.choice(NUM_TYPES), r)
            dims = [r.randrange(1, 4), r.randrange(1, 4)]
            objs.append({"k": "S", "name": "mx%d_%d" % (idx, k), "nt": nt, "dims": dims,
                         "vals": [rand_val(nt, r) for _ in range(dims[0] * dims[1])],
                         "attrs": [gen_attr(r, "at%d" % j) for j in range(r.randrange(0, 2))]})
        if r.randrange(2):
            objs.append({"k": "V", "name": "mxv%d" % idx, "nrec": 2, "fields": [("fa", 24, 1)], "vals": [1, 2]})
        nras = 0
        for k in range(r.randrange(2, 4)):
            xd, yd = r.randrange(1, 4), r.randrange(2, 4)
            objs.append({"k": "D", "name": "Raster Image #%d" % nras, "il": 0, "xd": xd, "yd": yd, "nt": 3,
                         "vals": [r.randrange(256) for _ in range(xd * yd * 3)]})
            nras += 1
        if r.randrange(2):
            xd, yd = r.randrange(1, 4), r.randrange(1, 4)
            objs.append({"k": "B", "name": "Raster Image #%d" % nras, "xd": xd, "yd": yd, "nt": 3,
                         "vals": [r.randrange(256) for _ in range(xd * yd)]})
            nras += 1
        f = {"gattrs": [], "objs": objs}
        t = desc_text(f)
        base = env.mk(t)
        st["files"] += 1
        check_pair(env, ctx, "mixed-same", "F vs F", t, t, st, files=(base, base))
        for oi, o in enumerate(objs):
            if not o.get("vals"):
                continue
            tl = [o["nt"]] * len(o["vals"]) if o["k"] != "V" else [24] * len(o["vals"])
            p = r.randrange(len(o["vals"]))
            nv = other_vals(tl[p] if o["k"] in "SV" else 21, o["vals"][p], r)[0]
            g = clone(f)
            g["objs"][oi]["vals"][p] = nv
            tg = desc_text(g)
            other = env.mk(tg)
            what = "%s[%d] %d -> %d" % (o["name"], p, o["vals"][p], nv)
            check_pair(env, ctx, "mixed-elem-" + o["k"], what, t, tg, st, files=(base, other))
            check_pair(env, ctx, "mixed-elem-" + o["k"] + "/swapped", what, tg, t, st, files=(other, base))
            if o["k"] == "S" and o["attrs"]:
                g = clone(f)
                a = g["objs"][oi]["attrs"][0]
                a["vals"][0] = (r.choice(other_vals(a["nt"], a["vals"][0], r)) if a["nt"] != 4 else 97 + (a["vals"][0] - 96) % 26)
                tg = desc_text(g)
                other = env.mk(tg)
                check_pair(env, ctx, "mixed-attr-S", "%s:%s" % (o["name"], a["name"]), t, tg, st, files=(base, other))
            if len(ctx.violations) >= 4:
                break
        # the rasters, dumped by index, show the values the GR interface returns
        rc, api, err = env.run([env.exe, "rd", base[0], base[1]])
        ras = [l.split() for l in api.splitlines() if l.startswith("R ")]
        for k, tk in enumerate(ras):
            rc, out, err = env.run([env.hdp, "dumpgr", "-d", "-i", str(k), base[1]])
            want = [str(v) for v in map(int, tk[7:])]
            st["raster_dumps"] += 1
            ctx.case(("mixed-dump", t, k), True)
            if crashed(rc) or out.split() != want:
                ctx.violation("hdp dumpgr -i %d of a DF24/DFR8 raster differs from the values the GR interface returns" % k,
                              "DUMP\n%s# hdp: %s\n# API: %s\n" % (t, " ".join(out.split())[:600], " ".join(want)[:600]), found=True)
        if len(ctx.violations) >= 4:
            break
    ctx.corr("mixed-interfaces(ref-collisions)", **st)


def check_interlace(env, ctx):
    """the same 24-bit image stored with pixel and with scan-line interlace: equal content.  GRreadimage does not
    convert from a non-pixel storage interlace (mfgr.c), hdiff relies on it: known finding."""
    vals = list(range(1, 2 * 3 * 3 + 1))
    t0 = "D 0 2 3 18 %s\n" % " ".join(map(str, vals))
    t1 = "D 1 2 3 18 %s\n" % " ".join(map(str, vals))
    (d0, h0), (d1, h1) = env.mk(t0), env.mk(t1)
    rc, out, err = run_pair(env, h0, h1)
    api = env.run([env.exe, "rd", d1, h1])[1].split()
    ctx.case(("interlace",), True)
    ctx.corr("df24-storage-interlace", exit=rc, api_returns_storage_order=(list(map(int, api[7:])) != vals))
    if rc != 0:
        sig = SIG_IL if (rc == 1 and list(map(int, api[7:])) != vals) else None
        ctx.violation("hdiff exit %d for one 24-bit image stored with two interlaces" % rc,
                      "HD interlace | same image, DF24setil 0 vs 1\n%s--\n%s" % (t0, t1), found=True, signature=sig)


# ---- hdp dumpvd -f : field selection over several Vdatas ------------------------------------------------

def check_fields(env, ctx, dumps):
    r = ctx.rng
    st = {"commands": 0, "vdatas": 0, "selections_matching_different_counts": 0}
    # a directed family: three Vdatas with partly shared field names, every 2-subset (and some 3-subsets) of the
    # names as selection -> later Vdatas matching fewer, more, the same number of fields than earlier ones
    layouts = [["fa", "fb", "fc"], ["fa", "fd", "fe"], ["fe", "fb"]]
    r.shuffle(layouts)
    dobjs = []
    for k, names in enumerate(layouts):
        names = list(names)
        if r.randrange(2):
            names.reverse()
        fields = [(nm, flavoured(r.choice(NUM_TYPES), r), r.randrange(1, 3)) for nm in names]
        vals = []
        for _ in range(2):
            for (_, nt, od) in fields:
                vals += [rand_val(nt, r) for _ in range(od)]
        dobjs.append({"k": "V", "name": "fsel%d" % k, "nrec": 2, "fields": fields, "vals": vals})
    df = {"gattrs": [], "objs": dobjs}
    dt = desc_text(df)
    sels = [[a, b] for i, a in enumerate(FIELD_POOL) for b in FIELD_POOL[i + 1:]] + [r.sample(FIELD_POOL, 3) for _ in range(3)]
    for x in sels:
        r.shuffle(x)
    work = [(df, dt, env.mk(dt), sels)] + [(f, t, fl, None) for f, t, fl in dumps]
    for f, t, (d, h), fixed in work:
        vds = [o for o in f["objs"] if o["k"] == "V"]
        if not vds:
            continue
        rc, api, err = env.run([env.exe, "rd", d, h])
        rows = {}
        for l in api.splitlines():
            tk = l.split()
            if tk and tk[0] == "V":
                nf = int(tk[3])
                rows[tk[1]] = list(map(int, tk[5 + 3 * nf:]))
        for sel in (fixed if fixed is not None else [r.sample(FIELD_POOL, r.randrange(1, 4)) for _ in range(3)]):
            want, counts = [], set()
            for o in vds:
                cols, types, pos = [], [], 0
                for (nm, nt, od) in o["fields"]:
                    if nm in sel:
                        cols += list(range(pos, pos + od))
                        types += [nt] * od
                    pos += od
                counts.add(len([1 for (nm, _, _) in o["fields"] if nm in sel]))
                vals = rows.get(o["name"], [])
                for rec in range(o["nrec"]):
                    want += [fmt_api(nt, vals[rec * pos + c]) for c, nt in zip(cols, types)]
            ml = model_lines(env, "vdsel", "%s|%s\n" % (",".join(sel), "|".join(" ".join(nm for (nm, _, _) in o["fields"]) for o in vds)))[0]
            mwant = []
            for o, ix in zip(vds, ml[2:].split("|")):
                ix = [int(x) for x in ix.split()]
                offs, pos = [], 0
                for (nm, nt, od) in o["fields"]:
                    offs.append((pos, od, nt))
                    pos += od
                vals = rows.get(o["name"], [])
                for rec in range(o["nrec"]):
                    for i in ix:
                        if 0 <= i < len(offs):
                            mwant += [fmt_api(offs[i][2], vals[rec * pos + offs[i][0] + c]) for c in range(offs[i][1])]
            cmd = [env.hdp, "dumpvd", "-d", "-f", ",".join(sel), "-n", ",".join(o["name"] for o in vds), h]
            rc, out, err = env.run(cmd)
            st["commands"] += 1
            st["vdatas"] += len(vds)
            if len(counts) > 1:
                st["selections_matching_different_counts"] += 1
            ctx.case(("fields", t, tuple(sel)), True, sample={"hdp": "dumpvd -d -f " + ",".join(sel), "tokens": out.split()[:6]} if st["commands"] % 9 == 1 else None)
            rec = "FIELDS %s\n%s# selected fields of the API read: %s\n# hdp tokens:                      %s\n# model (indices %s): %s\n" % (
                ",".join(sel), t, " ".join(want)[:1200], " ".join(out.split())[:1200], ml[2:], " ".join(mwant)[:600])
            if crashed(rc):
                ctx.violation("hdp dumpvd -f crashed (rc=%d)" % rc, rec, found=True)
            elif out.split() != want:
                ctx.violation("hdp dumpvd -f %s prints other values than the selected fields hold" % ",".join(sel), rec, found=True)
            elif mwant != want:
                soft(ctx, "hdp dumpvd -f agrees with the API but not with fields_walk", rec)
            if len(ctx.violations) >= 4:
                return
    ctx.corr("hdp-dumpvd-f~selected-columns~fields_walk", **st)


# ---- objects above the tools' transfer buffers ---------------------------------------------------------

def check_large(env, ctx):
    """objects larger than the 1 MiB buffers hdp and hdiff read through (hdp dumpvd BUFFER, hdiff's strip size):
    Vdata read in several pieces with a shorter last piece, an image and an SDS just above 1 MiB."""
    r = ctx.rng
    st = {}
    # Vdata: record size 496 bytes -> 2114 records per piece
    fields = [("d", 6, 60), ("i", flavoured(24, r), 4)]
    vsize = 60 * 8 + 4 * 4
    chunk = 1048576 // vsize
    pieces = 1 if ctx.tier == "quick" else r.randrange(1, 4)
    nrec = pieces * chunk + r.randrange(1, 300)
    a, b = r.randrange(1, 50), r.randrange(0, 100)
    ft = " ".join("%s %d %d" % fl for fl in fields)
    t1 = "W vdbig %d %d %s %d %d\n" % (nrec, len(fields), ft, a, b)
    t2 = "W vdbig %d %d %s %d %d\n" % (nrec, len(fields), ft, a, b + 1)
    (d1, h1), (d2, h2) = env.mk(t1), env.mk(t2)
    rc, api, err = env.run([env.exe, "rd", d1, h1], timeout=300)
    tk = api.split()
    per = []
    for (_, nt, od) in fields:
        per += [nt] * od
    vals = list(map(int, tk[5 + 3 * len(fields):])) if tk and tk[0] == "V" else []
    want = [fmt_api(nt, v) for nt, v in zip(per * nrec, vals)]
    rc, out, err = env.run([env.hdp, "dumpvd", "-d", "-n", "vdbig", h1], timeout=300)
    got = out.split()
    ml = model_lines(env, "vdwalk", "%d %d\n" % (nrec, vsize))[0].split()
    ctx.case(("large-vd", nrec, a, b), True, sample={"hdp dumpvd": "%d records of %d bytes" % (nrec, vsize), "tokens": len(got)})
    st.update(vdata_records=nrec, vdata_record_bytes=vsize, vdata_pieces=pieces + 1, vdata_tokens=len(got))
    rec = "LARGEVD\n%s# records printed by hdp: %s (%d tokens), API returns %d records (%d values), model prints %s records\n" % (
        t1, len(got) / float(len(per)), len(got), nrec, len(vals), ml[1] if len(ml) > 1 else "?")
    if crashed(rc) or len(vals) != nrec * len(per):
        ctx.violation("hdp / harness failed on a Vdata above 1 MiB (rc=%d)" % rc, rec + "# " + err[-300:].replace("\n", "\n# "), found=True)
    elif got != want:
        k = next((i for i, (x, y) in enumerate(zip(got, want)) if x != y), min(len(got), len(want)))
        ctx.violation("hdp dumpvd of a %d-record Vdata (read in %d pieces) differs from the API values at token %d (%d tokens printed, %d expected)" % (
            nrec, pieces + 1, k, len(got), len(want)), rec, found=True)
    elif ml[1:3] != [str(nrec), "1"]:
        soft(ctx, "hdp dumpvd agrees with the API but not with dumpvd_m", rec + "# model: %s\n" % " ".join(ml))
    st2 = {"runs": 0, "kinds": {}, "positions_checked": 0}
    rc, out, err = run_pair(env, h1, h2)
    ctx.case(("large-vd-diff", nrec), True)
    if rc != 1:
        ctx.violation("hdiff exit %d for two Vdatas above 1 MiB whose records all differ" % rc, "LARGEVD\n%s--\n%s" % (t1, t2), found=True)
    rc, out, err = run_pair(env, h1, h1)
    if rc != 0 or out.strip():
        ctx.violation("hdiff exit %d for a Vdata above 1 MiB compared with itself" % rc, "LARGEVD\n%s--\n%s" % (t1, t1), found=True)
    # image just above 1 MiB (3 components): hdp dumpgr and hdiff (element in the last component of the last pixel)
    xd, yd, nc = 600, 583, 3
    n = xd * yd * nc
    q1 = "Q imgbig 21 %d %d %d 7 %d 200\n" % (nc, xd, yd, n // 2)
    q2 = "Q imgbig 21 %d %d %d 7 %d 9\n" % (nc, xd, yd, n - 1)
    (e1, g1), (e2, g2) = env.mk(q1), env.mk(q2)
    rc, out, err = env.run([env.hdp, "dumpgr", "-d", "-n", "imgbig", g1], timeout=300)
    got = out.split()
    want = ["7"] * n
    want[n // 2] = "200"
    ctx.case(("large-gr", xd, yd, nc), True)
    st.update(image_values=n)
    if crashed(rc) or got != want:
        k = next((i for i, (x, y) in enumerate(zip(got, want)) if x != y), min(len(got), len(want)))
        ctx.violation("hdp dumpgr of a %dx%dx%d uint8 image differs from its content at token %d (%d printed)" % (xd, yd, nc, k, len(got)),
                      "LARGEGR\n%s" % q1, found=True)
    rc, out, err = run_pair(env, g1, g2)
    if rc != 1:
        ctx.violation("hdiff exit %d for two images above 1 MiB differing in two elements" % rc, "LARGEGR\n%s--\n%s" % (q1, q2), found=True)
    # SDS just above 1 MiB: hdp dumpsds (row walk over 1025 rows)
    rows, cols = 1025, 1024
    z1 = "Z big 20 2 %d %d 7 %d -9\n" % (rows, cols, rows * cols - 3)
    (z, hz) = env.mk(z1)
    rc, out, err = env.run([env.hdp, "dumpsds", "-d", "-n", "big", hz], timeout=300)
    got = out.split()
    want = ["7"] * (rows * cols)
    want[rows * cols - 3] = "-9"
    ctx.case(("large-sds", rows, cols), True)
    st.update(sds_values=rows * cols)
    if crashed(rc) or got != want:
        k = next((i for i, (x, y) in enumerate(zip(got, want)) if x != y), min(len(got), len(want)))
        ctx.violation("hdp dumpsds of a %dx%d int8 dataset differs from its content at token %d (%d printed)" % (rows, cols, k, len(got)),
                      "LARGESDS\n%s" % z1, found=True)
    ctx.corr("objects-above-1MiB", **st)


# ---- dump --------------------------------------------------------------------------------------

def fmt_api(nt, v):
    if isfloat(nt):
        return "%f" % fval(nt, v)
    return str(v)


def check_dump(env, ctx, dumps):
    st = {"objects": 0, "tokens": 0, "sds": 0, "gr": 0, "vd": 0, "integer_objects_vs_model": 0, "flavours": {}}
    for f, t, (d, h) in dumps:
        rc, api, err = env.run([env.exe, "rd", d, h])
        if rc != 0:
            ctx.violation("harness could not read back a generated file", "DUMP\n" + t + "# " + err[-500:], found=True)
            return
        api_lines = {}
        for l in api.splitlines():
            tk = l.split()
            if tk and tk[0] in "SRV":
                api_lines[tk[1]] = tk
        mtoks = {}
        for l in model_lines(env, "dump", t):
            tk = l.split()
            if tk and tk[0] == "D":
                mtoks[tk[1]] = tk[2:]
        for o in f["objs"]:
            if o["k"] == "E":
                continue
            tk = api_lines.get(o["name"])
            if tk is None:
                ctx.violation("object %s not readable through the API" % o["name"], "DUMP\n" + t, found=True)
                return
            if o["k"] == "S":
                rank = int(tk[3])
                vals = list(map(int, tk[5 + rank:]))
                types = [int(tk[2])] * len(vals)
                cmd = [env.hdp, "dumpsds", "-d", "-n", o["name"], h]
                st["sds"] += 1
            elif o["k"] == "R":
                vals = list(map(int, tk[7:]))
                types = [int(tk[2])] * len(vals)
                cmd = [env.hdp, "dumpgr", "-d", "-n", o["name"], h]
                st["gr"] += 1
            else:
                nf = int(tk[3])
                vals = list(map(int, tk[5 + 3 * nf:]))
                per = []
                for (_, nt, od) in o["fields"]:
                    per += [nt] * od
                types = per * o["nrec"]
                cmd = [env.hdp, "dumpvd", "-d", "-n", o["name"], h]
                st["vd"] += 1
            rc, out, err = env.run(cmd)
            rtoks = out.split()
            stoks = [fmt_api(nt, v) for nt, v in zip(types, vals)]
            st["objects"] += 1
            st["tokens"] += len(rtoks)
            ctx.case(("dump", o["name"], tuple(vals)), True,
                     sample={"hdp": " ".join(cmd[1:4]), "tokens": rtoks[:8]} if st["objects"] % 23 == 1 else None)
            rec = "DUMP %s\n%s# API values:  %s\n# hdp tokens:  %s\n# model:       %s\n# hdp stderr: %s\n" % (
                o["name"], t, " ".join(stoks)[:1500], " ".join(rtoks)[:1500], " ".join(mtoks.get(o["name"], []))[:1500],
                err[-300:].replace("\n", "\n# "))
            if crashed(rc):
                ctx.violation("hdp crashed (rc=%d) dumping %s" % (rc, o["name"]), rec, found=True)
            elif rtoks != stoks:
                ctx.violation("hdp dump of %s differs from the values the API returns" % o["name"], rec, found=True)
            else:
                for nt in types:
                    st["flavours"][nt >> 12] = st["flavours"].get(nt >> 12, 0) + 1
                allint = all(bt(nt) in INT_TYPES for nt in types)
                if allint:
                    st["integer_objects_vs_model"] += 1
                    if mtoks.get(o["name"]) != rtoks:
                        soft(ctx, "hdp dump agrees with the API but not with the model (row walk / integer formatting)",
                                      rec)
            if len(ctx.violations) >= 4:
                return
    ctx.corr("hdp-dump~API-values~dump_sds_m/hdp_print", **st)


# ---- imp ---------------------------------------------------------------------------------------

IMP_TEXT = {"INT8": (20, 8), "INT16": (22, 16), "INT32": (24, 32), "FP32": (5, 0), "FP64": (6, 0)}
IMP_BIN = {"IN08": (20, "b"), "IN16": (22, "h"), "IN32": (24, "i"), "FP32": (5, "f"), "FP64": (6, "d")}


def dyadic(r):
    return r.randrange(-4000, 4001) / 8.0


IMP_KINDS = [("text", "INT8"), ("text", "INT16"), ("text", "INT32"), ("text", "FP32"), ("text", "FP64"),
             ("bin", "IN08"), ("bin", "IN16"), ("bin", "IN32"), ("bin", "FP32"), ("bin", "FP64"), ("bin", "FP64as32")]


def spell_int(x, r):
    """a spelling of the integer x that fscanf %d reads as x: plain, zero-padded (0012, -088, 008), explicit sign"""
    c = r.randrange(6)
    body = str(abs(x))
    if c <= 1:
        body = "0" * r.randrange(1, 4) + body
    if x < 0:
        return "-" + body
    return ("+" if c == 2 else "") + body


def spell_float(x, r):
    c = r.randrange(6)
    if c == 0:
        return ("-" if x < 0 else "") + "00" + repr(abs(x))
    if c == 1:
        return "%.10e" % x
    if c == 2 and x >= 0:
        return "+" + repr(x)
    return repr(x)


def make_input(r, mode, ty, rank):
    """one hdfimport input file: (bytes, per-file options, expected 'nt rank dims n values')"""
    planes = r.randrange(2, 4) if rank == 3 else 1
    rows, cols = r.randrange(2, 5), r.randrange(2, 5)
    n = planes * rows * cols
    nsc = (planes if rank == 3 else 0) + rows + cols
    opts = []
    if mode == "text":
        nt, bits = IMP_TEXT[ty]
        if bits:
            lo, hi = INT_RANGE[nt]
            vals = [rand_val(nt, r) for _ in range(n)]
            vals[0], vals[-1] = lo, hi
            scales = [r.randrange(max(lo, -50), min(hi, 50)) for _ in range(nsc)]
            tok = lambda x: spell_int(x, r)
        else:
            vals = [dyadic(r) for _ in range(n)]
            scales = [float(i) for i in range(nsc)]
            tok = lambda x: spell_float(x, r)
        seps = [r.choice([" ", "\n", "  ", "\t", " \n"]) for _ in range(5 + nsc + n)]
        nums = [str(planes), str(rows), str(cols)] + [tok(x) for x in (max(vals), min(vals))] + [tok(x) for x in scales] + [tok(x) for x in vals]
        data = ("TEXT" + "".join(sp + x for sp, x in zip(["\n"] + seps, nums)) + "\n").encode()
        if ty != "FP32":
            opts = ["-t", ty]
    else:
        tag = "FP64" if ty == "FP64as32" else ty
        nt, code = IMP_BIN[tag]
        if nt in INT_TYPES:
            lo, hi = INT_RANGE[nt]
            vals = [rand_val(nt, r) for _ in range(n)]
            vals[0], vals[-1] = lo, hi
            scales = [r.randrange(0, 50) for _ in range(nsc)]
        else:
            vals = [dyadic(r) for _ in range(n)]
            scales = [float(i) for i in range(nsc)]
        data = tag.encode() + struct.pack("<3i", planes, rows, cols) + struct.pack("<2" + code, max(vals), min(vals))
        data += struct.pack("<%d%s" % (nsc, code), *scales) + struct.pack("<%d%s" % (n, code), *vals)
        if ty == "FP64":
            opts = ["-n"]
        if ty == "FP64as32":
            nt = 5          # without -n a 64-bit binary input is stored as a 32-bit floating-point dataset
    dims = [planes, rows, cols] if planes > 1 else [rows, cols]
    if nt in FLOAT_TYPES:
        wv = [struct.unpack("<I", struct.pack("<f", v))[0] if nt == 5 else struct.unpack("<Q", struct.pack("<d", v))[0] for v in vals]
    else:
        wv = list(vals)
    want = "%d %d %s %d %s" % (nt, len(dims), " ".join(map(str, dims)), len(wv), " ".join(map(str, wv)))
    return {"mode": mode, "ty": ty, "data": data, "opts": opts, "want": want, "nt": nt, "shape": (planes, rows, cols)}


def gen_imp_cases(ctx):
    """each case = the list of input files of ONE hdfimport command"""
    r = ctx.rng
    cases = []
    reps = 1 if ctx.tier == "quick" else 8
    for _ in range(reps):
        for (mode, ty) in IMP_KINDS:
            for rank in (2, 3):
                cases.append([make_input(r, mode, ty, rank)])
        # several inputs of different kinds in one command, in every order
        for a in IMP_KINDS:
            for b in IMP_KINDS:
                if a != b:
                    cases.append([make_input(r, a[0], a[1], r.choice([2, 3])), make_input(r, b[0], b[1], r.choice([2, 3]))])
        for _ in range(6 if ctx.tier == "quick" else 40):
            ks = r.sample(IMP_KINDS, 3)
            cases.append([make_input(r, m, t, r.choice([2, 3])) for (m, t) in ks])
    return cases


def run_import(env, files):
    """write the inputs, run one hdfimport command on all of them, read every dataset back"""
    args = [env.hdfimport]
    inps = []
    for f in files:
        inp = env.path(".imp")
        open(inp, "wb").write(f["data"])
        inps.append(inp)
        args += [inp] + f["opts"]
    out = inps[0] + ".hdf"
    rc, o1, e1 = env.run(args + ["-o", os.path.basename(out)])
    got = []
    if rc == 0:
        rc2, o2, e2 = env.run([env.exe, "rd0", out])
        got = [" ".join(l.split()[2:]) for l in o2.splitlines() if l.startswith("S ")]
    return rc, got, (o1 + e1), inps


def imp_record(files):
    return "IMP %d\n%s\n" % (len(files), "\n".join("%s %s %s\n# spec (type rank dims n values): %s" % (
        f["mode"], f["ty"], f["data"].hex(), f["want"]) for f in files))


def check_imp(env, ctx):
    cases = gen_imp_cases(ctx)
    st = {"commands": len(cases), "inputs": 0, "text": 0, "binary": 0, "rank2": 0, "rank3": 0, "integer_text_vs_model": 0,
          "files_per_command": {}, "ordered_kind_pairs": 0}
    pairs = set()
    for i, files in enumerate(cases):
        rc, got, msg, inps = run_import(env, files)
        st["files_per_command"][len(files)] = st["files_per_command"].get(len(files), 0) + 1
        for f in files:
            st["inputs"] += 1
            st["text" if f["mode"] == "text" else "binary"] += 1
            st["rank3" if f["shape"][0] > 1 else "rank2"] += 1
        for a, b in zip(files, files[1:]):
            pairs.add((a["mode"], a["ty"], b["mode"], b["ty"]))
        want = [f["want"] for f in files]
        ctx.case(("imp", tuple((f["mode"], f["ty"], f["data"]) for f in files)), True,
                 sample={"hdfimport": " + ".join("%s %s" % (f["mode"], f["ty"]) for f in files), "datasets": [g[:40] for g in got]} if i % 29 == 0 else None)
        rec = imp_record(files) + "# SDreaddata on hdfimport's output (rc=%d):\n%s\n# %s\n" % (
            rc, "\n".join("#   " + g for g in got), msg[-400:].replace("\n", "\n# "))
        if crashed(rc):
            ctx.violation("hdfimport crashed (rc=%d)" % rc, rec, found=True)
        elif got != want:
            k = next((n for n, (g, w) in enumerate(zip(got + [None] * len(want), want)) if g != w), 0)
            ctx.violation("hdfimport output differs from its input (input %d of %d: %s %s)" % (
                k + 1, len(files), files[k]["mode"], files[k]["ty"]), rec, found=True)
        else:
            for f, inp in zip(files, inps):
                if f["mode"] == "text" and f["nt"] in INT_TYPES:
                    st["integer_text_vs_model"] += 1
                    ml = model_lines(env, "imp", "%d %s\n" % (IMP_TEXT[f["ty"]][1], inp))[0]
                    tk = f["want"].split()
                    rank = int(tk[1])
                    mwant = "M %d %s ; %s" % (rank, " ".join(tk[2:2 + rank]), " ".join(tk[3 + rank:]))
                    if " ".join(ml.split()) != " ".join(mwant.split()):
                        soft(ctx, "hdfimport agrees with its input but the tokeniser model does not",
                                      rec + "# model: %s\n" % ml[:600])
        if len(ctx.violations) >= 4:
            break
    st["ordered_kind_pairs"] = len(pairs)
    ctx.corr("hdfimport~spec_import~import_m", **st)


# ---- positions (print_pos) ---------------------------------------------------------------------

def check_pos(env, ctx):
    r = ctx.rng
    lines = []
    for _ in range(60 if ctx.tier == "quick" else 600):
        rank = r.randrange(1, 5)
        dims = [r.randrange(1, 7) for _ in range(rank)]
        n = 1
        for d in dims:
            n *= d
        lines.append("%d %s %d" % (rank, " ".join(map(str, dims)), r.randrange(n)))
    bad = 0
    for l, o in zip(lines, model_lines(env, "pos", "\n".join(lines) + "\n")):
        m, s = [x.split()[1:] for x in o.split(";")]
        ctx.case(("pos", l), True)
        if m != s:
            bad += 1
            soft(ctx, "print_pos model differs from the row-major index (theorem print_pos_rowmajor broken?)",
                          "POS\n%s\n# %s\n" % (l, o))
            break
    ctx.corr("print_pos_m~spec_index", cases=len(lines), disagreements=bad)


# ---- known finding: strip-mined comparison of datasets above 1 MiB ------------------------------------

def check_strip(env, ctx):
    """diff_sds compares datasets of 1 MiB or more strip by strip and *assigns* each strip's count to nfound:
    only the last strip decides the exit status (the pinned test HDIFF-hdiff_13 expects exactly that, so it is
    recorded as a known finding, not repaired)."""
    rows, cols = 1025, 1024
    t1 = "Z big 20 2 %d %d 7 -1 0\n" % (rows, cols)
    t2 = "Z big 20 2 %d %d 7 5 9\n" % (rows, cols)
    try:
        f1, f2 = env.mk(t1), env.mk(t2)
    except vc.BuildError:
        return
    rc, out, err = run_pair(env, f1[1], f2[1])
    ctx.case(("strip", rows, cols), True)
    ctx.corr("strip-mined-sds", rows=rows, cols=cols, exit=rc, reported=len([l for l in out.splitlines() if l.startswith("[ ")]))
    if rc != 1:
        ctx.violation("hdiff exit %d for two 1025x1024 int8 datasets differing in element 5 (difference printed: %s)" % (
            rc, bool(out.strip())), "STRIP\n%s--\n%s# hdiff exit %d\n# %s\n" % (t1, t2, rc, out[-400:].replace("\n", "\n# ")),
            found=True, signature=SIG_STRIP)


# ------------------------------------------------------------------------------------------------

def run_corpus(env, ctx):
    cdir = os.path.join(vc.VERIF, "corpus", "C19")
    n = 0
    for p in sorted(os.listdir(cdir)) if os.path.isdir(cdir) else []:
        n += 1
        replay_text(env, ctx, open(os.path.join(cdir, p)).read(), report=False)
    ctx.corr("corpus", entries=n)


def replay_text(env, ctx, text, report=True):
    """re-run one recorded case; with report=True print R / M / S, otherwise feed the normal comparison."""
    lines = text.splitlines()
    body = [l for l in lines if not l.startswith("#")]
    if not body:
        return 0
    head = body[0].split()
    if head[0] == "AD":
        toks = body[1].split()
        n = int(toks[1])
        c = (int(toks[0]), int(toks[2]), int(toks[3]), int(toks[4]), int(toks[5]), list(map(int, toks[6:6 + n])), list(map(int, toks[6 + n:6 + 2 * n])))
        rc, R, MS, err = run_ad(env, [c])
        if report:
            print("case      :", fmt_ad(c))
            print("library R : rc=%d  %s" % (rc, R[0] if R else "crash " + err[-300:]))
            print("model/spec:", MS[0])
            m, s = [" ".join(x.split()[1:]) for x in MS[0].split(";")]
            plain = c[2] == 0 and c[4] == 0 and c[1] >= n
            return 0 if R and ((R[0] == s) if plain else (R[0] == m)) else 1
        nt, mx, lim, rn, rd, a, b = c
        m, s = [" ".join(x.split()[1:]) for x in MS[0].split(";")]
        ctx.case(("corpus-ad", fmt_ad(c)), True)
        if not R or (R[0] != s if (lim == 0 and rd == 0 and mx >= n) else R[0] != m):
            ctx.violation("corpus case fails: " + fmt_ad(c)[:160], "AD\n%s\n# spec %s\n# model %s\n# library %s\n" % (fmt_ad(c), s, m, R[:1]), found=True)
        return 0
    if head[0] in ("HD", "STRIP"):
        k = body.index("--")
        t1 = "\n".join(body[1:k]) + "\n"
        t2 = "\n".join(body[k + 1:]) + "\n"
        if report:
            (d1, h1), (d2, h2) = env.mk(t1), env.mk(t2)
            rc, out, err = run_pair(env, h1, h2, True)
            print("hdiff -b file1 file2: exit", rc)
            print(out)
            rcq, outq, errq = run_pair(env, h1, h2, False)
            if head[0] == "HD":
                ml = model_lines(env, "hd", "%s %s\n" % (d1, d2))[0]
                print("model/spec:", ml)
                s_exit = ml.split(";")[0].split()[1]
            else:
                s_exit = "1"
                print("spec: the files differ in one element -> exit 1")
            print("library R : exit", rcq)
            return 0 if str(rcq) == s_exit else 1
        st = {"runs": 0, "kinds": {}, "positions_checked": 0}
        if head[0] == "HD":
            check_pair(env, ctx, head[1] if len(head) > 1 else "corpus", " ".join(head[1:]), t1, t2, st)
        return 0
    if head[0] in ("LARGEVD", "LARGEGR", "LARGESDS"):
        descs, cur = [], []
        for l in body[1:]:
            if l == "--":
                descs.append(cur)
                cur = []
            else:
                cur.append(l)
        descs.append(cur)
        files = [env.mk("\n".join(d) + "\n") for d in descs]
        tk = descs[0][0].split()
        bad = 0
        if tk[0] == "W":
            nf = int(tk[3])
            per = []
            for j in range(nf):
                per += [int(tk[5 + 3 * j])] * int(tk[6 + 3 * j])
            api = env.run([env.exe, "rd", files[0][0], files[0][1]], timeout=300)[1].split()
            vals = list(map(int, api[5 + 3 * nf:]))
            want = [fmt_api(nt, v) for nt, v in zip(per * int(tk[2]), vals)]
            rc, out, err = env.run([env.hdp, "dumpvd", "-d", "-n", tk[1], files[0][1]], timeout=300)
            vsize = sum(DFK_SIZE[bt(nt)] for nt in per)
            print("model (records printed, in order 0..n-1?, first bad):", model_lines(env, "vdwalk", "%s %d\n" % (tk[2], vsize))[0])
        elif tk[0] == "Q":
            n = int(tk[3]) * int(tk[4]) * int(tk[5])
            want = [tk[6]] * n
            if 0 <= int(tk[7]) < n:
                want[int(tk[7])] = tk[8]
            rc, out, err = env.run([env.hdp, "dumpgr", "-d", "-n", tk[1], files[0][1]], timeout=300)
        else:
            rank = int(tk[3])
            n = 1
            for d in tk[4:4 + rank]:
                n *= int(d)
            want = [tk[4 + rank]] * n
            if 0 <= int(tk[5 + rank]) < n:
                want[int(tk[5 + rank])] = tk[6 + rank]
            rc, out, err = env.run([env.hdp, "dumpsds", "-d", "-n", tk[1], files[0][1]], timeout=300)
        got = out.split()
        ok = got == want and not crashed(rc)
        bad += 0 if ok else 1
        print("hdp dump of %s: rc=%d, %d tokens printed, %d values in the object: %s" % (tk[1], rc, len(got), len(want), "agrees" if ok else "DIFFERS"))
        if len(files) > 1:
            rc, out, err = run_pair(env, files[0][1], files[1][1])
            exp = 0 if descs[0] == descs[1] else 1
            print("hdiff file1 file2: exit %d, specification %d" % (rc, exp))
            bad += 0 if rc == exp else 1
        return 1 if bad else 0
    if head[0] == "FIELDS":
        t = "\n".join(body[1:]) + "\n"
        d, h = env.mk(t)
        sel = head[1].split(",")
        api = env.run([env.exe, "rd", d, h])[1]
        want, names = [], []
        for l in api.splitlines():
            tk = l.split()
            if tk and tk[0] == "V":
                nf, nrec = int(tk[3]), int(tk[2])
                flds = [(tk[4 + 3 * j], int(tk[5 + 3 * j]), int(tk[6 + 3 * j])) for j in range(nf)]
                vals = list(map(int, tk[5 + 3 * nf:]))
                per = sum(od for (_, _, od) in flds)
                names.append(tk[1])
                for rec in range(nrec):
                    pos = 0
                    for (nm, nt, od) in flds:
                        if nm in sel:
                            want += [fmt_api(nt, vals[rec * per + pos + c]) for c in range(od)]
                        pos += od
        rc, out, err = env.run([env.hdp, "dumpvd", "-d", "-f", ",".join(sel), "-n", ",".join(names), h])
        ok = out.split() == want
        print("hdp dumpvd -d -f %s: rc=%d %s\n  hdp tokens     : %s\n  selected fields: %s" % (
            ",".join(sel), rc, "agrees" if ok else "DIFFERS", " ".join(out.split())[:1500], " ".join(want)[:1500]))
        return 0 if ok else 1
    if head[0] == "DUMP":
        t = "\n".join(body[1:]) + "\n"
        d, h = env.mk(t)
        api = env.run([env.exe, "rd", d, h])[1]
        print("API:\n" + api)
        try:
            print("model:\n" + "\n".join(model_lines(env, "dump", t)))
        except vc.BuildError as e:
            print("model: failed:", e)
        bad = 0
        for l in api.splitlines():
            tk = l.split()
            if not tk or tk[0] not in "SRV" or (len(head) > 1 and tk[1] != head[1]):
                continue
            if tk[0] == "S":
                rank = int(tk[3])
                vals, types, mode = list(map(int, tk[5 + rank:])), None, "dumpsds"
                types = [int(tk[2])] * len(vals)
            elif tk[0] == "R":
                vals, mode = list(map(int, tk[7:])), "dumpgr"
                types = [int(tk[2])] * len(vals)
            else:
                nf = int(tk[3])
                per = []
                for j in range(nf):
                    per += [int(tk[5 + 3 * j])] * int(tk[6 + 3 * j])
                vals, mode = list(map(int, tk[5 + 3 * nf:])), "dumpvd"
                types = per * int(tk[2])
            rc, out, err = env.run([env.hdp, mode, "-d", "-n", tk[1], h])
            want = [fmt_api(nt, v) for nt, v in zip(types, vals)]
            ok = out.split() == want and not crashed(rc)
            bad += 0 if ok else 1
            print("hdp %s -d -n %s: rc=%d %s\n  hdp tokens: %s\n  API values: %s" % (
                mode, tk[1], rc, "agrees" if ok else "DIFFERS", " ".join(out.split())[:1500], " ".join(want)[:1500]))
        return 1 if bad else 0
    if head[0] == "IMP":
        files = []
        for l in body[1:]:
            tk = l.split()
            if len(tk) == 3:
                mode, ty = tk[0], tk[1]
                opts = (["-t", ty] if (mode == "text" and ty != "FP32") else []) + (["-n"] if (mode == "bin" and ty == "FP64") else [])
                files.append({"mode": mode, "ty": ty, "data": bytes.fromhex(tk[2]), "opts": opts})
        want = [l.split(": ", 1)[1].strip() for l in lines if l.startswith("# spec")]
        rc, got, msg, inps = run_import(env, files)
        print("hdfimport (%d input files) rc=%d %s" % (len(files), rc, msg[-300:]))
        for k, w in enumerate(want):
            g = got[k] if k < len(got) else "(missing)"
            print("input %d  %s %s\n  spec      : %s\n  SDreaddata: %s   %s" % (k + 1, files[k]["mode"], files[k]["ty"], w, g,
                                                                              "agrees" if g == w else "DIFFERS"))
        return 0 if got == want else 1
    print("unknown replay record", head)
    return 2


def run(ctx):
    del SOFT[:]
    env = Env(ctx)
    try:
        run_corpus(env, ctx)
        check_ad(env, ctx)
        if len(ctx.violations) < 4:
            dumps = check_hd(env, ctx)
            if len(ctx.violations) < 4:
                check_dump(env, ctx, dumps)
            if len(ctx.violations) < 4:
                check_fields(env, ctx, dumps)
        if len(ctx.violations) < 4:
            check_imp(env, ctx)
        check_pos(env, ctx)
        if len(ctx.violations) < 4:
            check_mixed(env, ctx)
        if len(ctx.violations) < 4:
            check_many(env, ctx)
        check_interlace(env, ctx)
        if len(ctx.violations) < 4:
            check_large(env, ctx)
        check_strip(env, ctx)
        ctx.corr("model-only-disagreements", count=len(SOFT))
        if not any(v["found"] for v in ctx.violations):
            for what, text in SOFT[:2]:
                ctx.violation(what, text, found=False)
    finally:
        env.cleanup()


def replay(ctx, path):
    env = Env(ctx)
    try:
        return replay_text(env, ctx, open(path).read(), report=True)
    finally:
        env.cleanup()
