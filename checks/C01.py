"""C01 -- data-element byte streams.  R (library, harness/drive_h.c) vs S (coq/EStoreSpec.v, extracted)
on generated element-level histories; R vs M (coq/HBlocksModel.v) on the linked-block structure."""
import os
import re
import shutil
import vcommon as vc

RULE = ("histories of 25-70 element-level operations (Hstartwrite/Hstartaccess/HLcreate/Hwrite/Hread/Hseek/Htell/"
        "Htrunc/Happendable/Hinquire/Hendaccess/Hlength/Hgetelement/Hputelement/Hdupdd/Hdeldd/close+reopen) over 1-2 "
        "files, up to 5 elements and 4 interleaved handles, ndds in {4,5,16}, cache on/off, linked-block lengths 1..9 "
        "and table sizes 1..4, data lengths 0..60 with boundary bias; all choices from one PRNG (VERIF_SEED); a light "
        "shadow state only steers weights (mostly-valid calls) and keeps the history inside the property's domain; a "
        "separate malformed stream issues stale handles / out-of-range seeks / over-long writes that must FAIL. "
        "A history is non-trivial when it performs >= 1 write and >= 1 read that returns data; distinct by op text")
TRUSTED = ["Coq 8.16.1 kernel", "extraction (ExtrOcamlBasic only; Z/positive/nat inductive)",
           "OCaml drivers extract/estore_main.ml, extract/hblocks_main.ml; C harness harness/drive_h.c; generator and "
           "comparison in checks/C01.py",
           "translator gen_consts.py for the constants in gen/Gen_HBlocks.v",
           "modelled, not verified: stdio buffering (device = sequence of HP_write), hbuffer.c, external elements "
           "(correspondence only), DD-block management (see C12)"]
ASSUMPTIONS = ["domain: no read of reserved-but-never-written bytes before a reopen; no write through a descriptor that "
               "has an alias; no operation other than the first write on a length-less new element; Htrunc only on "
               "contiguous elements; element handles are closed before Hdeldd; lengths and positions < 2^31 (C20)"]

TAGS = [100, 101, 102]


class Shadow:
    def __init__(self):
        self.files = {}       # f -> {key: dict(len, hi, linked, new, alias)}
        self.h = {}           # slot -> dict(f, key, pos, app, wr)

    def handles_on(self, f, key=None):
        return [s for s, x in self.h.items() if x["f"] == f and (key is None or x["key"] == key)]


def rbytes(r, n):
    style = r.randrange(4)
    if style == 0:
        b = r.randrange(1, 255)
        return [b] * n
    if style == 1:
        s = r.randrange(256)
        return [(s + i) & 255 for i in range(n)]
    return [r.randrange(256) for _ in range(n)]


def hexs(b):
    return "".join("%02x" % x for x in b) if b else "-"


def pick_len(r):
    return r.choice([1, 1, 2, 3, 4, 5, 7, 8, 9, 12, 16, 17, 20, 31, 32, 33, 40, 60])


def gen_history(r, name, malformed=False):
    sh = Shadow()
    lines = ["history " + name]
    nfiles = r.choice([1, 1, 2])
    for f in range(nfiles):
        lines.append("open %d %d %d" % (f, r.choice([4, 5, 16]), r.choice([0, 1, 1])))
        sh.files[f] = {}
    nops = r.randrange(25, 70)
    free_slots = list(range(8))

    def new_key(f):
        for _ in range(20):
            k = (r.choice(TAGS), r.randrange(1, 5))
            if k not in sh.files[f]:
                return k
        return None

    for _ in range(nops):
        f = r.randrange(nfiles)
        els = sh.files[f]
        act = r.random()
        open_slots = list(sh.h.keys())
        if (act < 0.16 or not els) and len(els) < 5:
            # create an element
            k = new_key(f)
            if k is None or not free_slots:
                continue
            kind = r.choice(["sw", "sw", "new", "hl", "hl", "put", "hx"])
            if kind == "hx":
                if getattr(sh, "nx", 0) >= 4:
                    kind = "hl"
                else:
                    s = free_slots.pop(0)
                    lines.append("hxcreate %d %d %d %d %d %d 0" % (s, f, k[0], k[1], sh.nx if hasattr(sh, "nx") else 0,
                                                                  r.choice([0, 0, 3, 17])))
                    sh.nx = getattr(sh, "nx", 0) + 1
                    els[k] = dict(len=0, hi=0, linked=True, new=False, alias=False)
                    sh.h[s] = dict(f=f, key=k, pos=0, app=False, wr=True)
                    continue
            if kind == "put":
                n = pick_len(r)
                lines.append("putelement %d %d %d %s" % (f, k[0], k[1], hexs(rbytes(r, n))))
                els[k] = dict(len=n, hi=n, linked=False, new=False, alias=False)
                continue
            s = free_slots.pop(0)
            if kind == "sw":
                n = r.choice([0, 1, 4, 8, 10, 16, 30])
                lines.append("startwrite %d %d %d %d %d" % (s, f, k[0], k[1], n))
                els[k] = dict(len=n, hi=0, linked=False, new=False, alias=False)
                sh.h[s] = dict(f=f, key=k, pos=0, app=False, wr=True)
            elif kind == "new":
                app = r.choice([0, 16])
                lines.append("startaccess %d %d %d %d %d" % (s, f, k[0], k[1], 3 | app))
                els[k] = dict(len=0, hi=0, linked=False, new=True, alias=False)
                sh.h[s] = dict(f=f, key=k, pos=0, app=bool(app), wr=True)
            else:
                lines.append("hlcreate %d %d %d %d %d %d" % (s, f, k[0], k[1], r.randrange(1, 10), r.randrange(1, 5)))
                els[k] = dict(len=0, hi=0, linked=True, new=False, alias=False)
                sh.h[s] = dict(f=f, key=k, pos=0, app=False, wr=True)
            continue
        if act < 0.24 and els and free_slots:
            # open another handle on an existing element
            k = r.choice(list(els.keys()))
            e = els[k]
            if e["new"]:
                continue
            s = free_slots.pop(0)
            how = r.choice(["r", "r", "w", "sw", "hl"] + (["wa"] if r.random() < 0.15 else []))
            if not e["linked"] and any(sh.h[s2]["app"] for s2 in sh.handles_on(f, k)) and r.random() < 0.85:
                continue   # an appendable handle may promote the element behind this one (known finding): rare
            if how == "hl" and (e["linked"] or e["alias"] or sh.handles_on(f, k)):
                how = "r"
            if how == "r":
                lines.append("startaccess %d %d %d %d 1" % (s, f, k[0], k[1]))
                sh.h[s] = dict(f=f, key=k, pos=0, app=False, wr=False)
            elif how == "w":
                lines.append("startaccess %d %d %d %d 3" % (s, f, k[0], k[1]))
                sh.h[s] = dict(f=f, key=k, pos=0, app=False, wr=True)
            elif how == "wa":
                lines.append("startaccess %d %d %d %d 19" % (s, f, k[0], k[1]))
                sh.h[s] = dict(f=f, key=k, pos=0, app=not e["linked"], wr=True)
            elif how == "sw":
                lines.append("startwrite %d %d %d %d %d" % (s, f, k[0], k[1], r.choice([0, 5, 50])))
                sh.h[s] = dict(f=f, key=k, pos=0, app=False, wr=True)
            else:
                if getattr(sh, "nx", 0) < 4 and r.random() < 0.4 and e["hi"] >= e["len"]:
                    lines.append("hxcreate %d %d %d %d %d %d 0" % (s, f, k[0], k[1], getattr(sh, "nx", 0), r.choice([0, 5])))
                    sh.nx = getattr(sh, "nx", 0) + 1
                else:
                    lines.append("hlcreate %d %d %d %d %d %d" % (s, f, k[0], k[1], r.randrange(1, 10), r.randrange(1, 5)))
                e["linked"] = True
                sh.h[s] = dict(f=f, key=k, pos=0, app=False, wr=True)
            continue
        if act < 0.30 and getattr(sh, "deleted", None) and r.random() < 0.25:
            # a deleted element must stay deleted (also on disk: asked again after reopen)
            f2, k = r.choice(sh.deleted)
            if k not in sh.files[f2]:
                lines.append("%s %d %d %d" % (r.choice(["exist", "length", "getelement"]), f2, k[0], k[1]))
            continue
        if act < 0.30 and els:
            k = r.choice(list(els.keys()))
            if els[k]["new"]:
                continue
            opn = r.choice(["length", "getelement", "exist"])
            if opn == "getelement" and els[k]["hi"] < els[k]["len"]:
                opn = "length"
            lines.append("%s %d %d %d" % (opn, f, k[0], k[1]))
            continue
        if act < 0.33:
            # reopen: usually with all handles of the file closed
            hs = sh.handles_on(f)
            if hs and r.random() < 0.8:
                for s in hs:
                    lines.append("end %d" % s)
                    del sh.h[s]
                    free_slots.append(s)
                hs = []
            if any(e["new"] for e in els.values()):
                continue
            lines.append("reopen %d %d %d" % (f, r.choice([4, 5, 16]), r.choice([0, 1, 1])))
            if not hs:
                for e in els.values():
                    e["hi"] = e["len"]
            continue
        if act < 0.36 and els:
            k = r.choice(list(els.keys()))
            e = els[k]
            if r.random() < 0.5:
                k2 = new_key(f)
                if k2 and not e["new"] and not e["linked"] and not sh.handles_on(f, k):
                    lines.append("dupdd %d %d %d %d %d" % (f, k2[0], k2[1], k[0], k[1]))
                    e["alias"] = True
                    els[k2] = dict(e)
            elif not sh.handles_on(f, k) and not e["new"] and not e["linked"]:
                lines.append("deldd %d %d %d" % (f, k[0], k[1]))
                del els[k]
                if not hasattr(sh, "deleted"):
                    sh.deleted = []
                sh.deleted.append((f, k))
            continue
        if not open_slots:
            continue
        s = r.choice(open_slots)
        x = sh.h[s]
        e = sh.files[x["f"]].get(x["key"])
        if e is None:
            continue
        a2 = r.random()
        if e["new"]:
            if x["wr"] and len(sh.handles_on(x["f"], x["key"])) == 1 and r.random() < 0.4:
                # position a data-less element before its first write: an extendable one becomes an (empty)
                # linked-block element, any other one must refuse to move
                t = r.choice([0, 1, 3, 7, 12])
                lines.append("seek %d %d %d" % (s, t, r.choice([0, 1])))
                if t > 0 and x["app"]:
                    e.update(new=False, linked=True, len=0, hi=0)
                    x["pos"] = t
                continue
            if x["wr"] and len(sh.handles_on(x["f"], x["key"])) == 1:
                n = pick_len(r)
                lines.append("write %d %s" % (s, hexs(rbytes(r, n))))
                e.update(len=n, hi=n, new=False)
                x["pos"] = n
                x["app"] = True
            continue
        ext = e["linked"] or x["app"]
        if ext and not e["linked"] and len(sh.handles_on(x["f"], x["key"])) > 1 and r.random() < 0.95:
            ext = False   # extending could promote the element behind the other handles (known finding): keep rare
        if a2 < 0.34 and x["wr"] and not e["alias"]:
            n = pick_len(r)
            if not ext:
                room = e["len"] - x["pos"]
                if room <= 0 or (n > room and not malformed and r.random() < 0.9):
                    n = max(1, min(n, room)) if room > 0 else n
                    if room <= 0 and not malformed:
                        continue
            lines.append("write %d %s" % (s, hexs(rbytes(r, n))))
            if ext or x["pos"] + n <= e["len"]:
                end = x["pos"] + n
                if end > e["len"] and not e["linked"]:
                    e["mayprom"] = True
                e["len"] = max(e["len"], end)
                e["hi"] = max(e["hi"], end)
                x["pos"] = end
        elif a2 < 0.60:
            limit = e["hi"] if not e["linked"] else e["len"]
            avail = limit - x["pos"]
            if avail <= 0 and r.random() < 0.7:
                continue
            if e["hi"] >= e["len"] and r.random() < 0.25:
                n = 0
            else:
                n = r.choice([1, 2, 3, 5, 8, 13, 40])
                if not e["linked"] and e["hi"] < e["len"] and r.random() < 0.5:
                    n = min(n, max(avail, 0))
                    if n == 0:
                        continue
            lines.append("read %d %d" % (s, n))
            got = max(0, min(e["len"] - x["pos"], n if n else 1 << 30))
            x["pos"] += got
        elif a2 < 0.80:
            origin = r.choice([0, 0, 1, 2])
            if ext and r.random() < 0.3:
                t = e["len"] + r.randrange(0, 12)
            else:
                t = r.randrange(0, e["len"] + 1)
            if malformed and r.random() < 0.2:
                t = r.choice([-1, e["len"] + 5])
            base = {0: 0, 1: x["pos"], 2: e["len"]}[origin]
            lines.append("seek %d %d %d" % (s, t - base, origin))
            ok = t >= 0 and (e["linked"] or x["app"] or t <= e["len"] or t == x["pos"])
            if ok:
                if t >= e["len"] and t != x["pos"] and x["app"] and not e["linked"]:
                    e["mayprom"] = True
                x["pos"] = t
        elif a2 < 0.84:
            lines.append("tell %d" % s)
        elif a2 < 0.88:
            lines.append("inquire %d" % s)
        elif a2 < 0.91 and x["wr"] and not e["linked"] and not e["alias"]:
            lines.append("appendable %d" % s)
            x["app"] = True
        elif a2 < 0.94 and x["wr"] and not e["linked"] and not e["alias"] and e["len"] > 0 and \
                (not e.get("mayprom") or r.random() < 0.05):
            t = r.randrange(0, e["len"] + (2 if malformed else 0))
            if r.random() < 0.5:   # aim at the position-clipping boundary
                t = max(0, min(e["len"] - 1, x["pos"] + r.choice([-1, -1, 0, 1])))
            lines.append("trunc %d %d" % (s, t))
            lines.append("tell %d" % s)
            if t < e["len"]:
                e["len"] = t
                e["hi"] = min(e["hi"], t)
                for s2 in sh.handles_on(x["f"], x["key"]):
                    pass
                x["pos"] = min(x["pos"], t)
        else:
            lines.append("end %d" % s)
            del sh.h[s]
            free_slots.append(s)
            if malformed and r.random() < 0.5:
                lines.append(r.choice(["read %d 3", "tell %d", "seek %d 0 0", "end %d"]) % s)
    # final read-back of everything after a clean reopen
    for s in list(sh.h.keys()):
        lines.append("end %d" % s)
    for f in range(nfiles):
        if any(e["new"] for e in sh.files[f].values()):
            continue
        lines.append("reopen %d 16 1" % f)
        for k in sh.files[f]:
            lines.append("getelement %d %d %d" % (f, k[0], k[1]))
    return lines


def gen_ext_scenario(r, name):
    """external element at a (mostly non-zero) offset of its external file; after a reopen a READ handle is used
    first, then a WRITE handle while the read handle is still open (the external file was opened read-only by the
    first one: HXPwrite's reopen-and-retry path); everything is read back through both handles and after reopen"""
    tag, ref = r.choice(TAGS), r.randrange(1, 5)
    lines = ["history " + name, "open 0 %d %d" % (r.choice([4, 5, 16]), r.choice([0, 1]))]
    if r.random() < 0.5:
        lines.append("putelement 0 %d %d %s" % (tag, ref + 5, hexs(rbytes(r, pick_len(r)))))
    n1 = r.choice([1, 4, 9, 16, 33])
    if r.random() < 0.3:
        lines += ["putelement 0 %d %d %s" % (tag, ref, hexs(rbytes(r, n1))),
                  "hxcreate 0 0 %d %d 0 %d 0" % (tag, ref, r.choice([0, 3, 17, 40]))]
    else:
        lines += ["hxcreate 0 0 %d %d 0 %d 0" % (tag, ref, r.choice([0, 3, 17, 40])), "write 0 " + hexs(rbytes(r, n1))]
    lines += ["end 0", "reopen 0 %d %d" % (r.choice([4, 16]), r.choice([0, 1])),
              "startaccess 1 0 %d %d 1" % (tag, ref), "read 1 %d" % r.choice([0, 1, 3]),
              "startaccess 2 0 %d %d 3" % (tag, ref)]
    p = r.randrange(0, n1 + 3)
    lines += ["seek 2 %d 0" % p, "write 2 " + hexs(rbytes(r, r.choice([1, 2, 5, 12]))), "tell 2",
              "seek 1 0 0", "read 1 0", "seek 2 0 0", "read 2 0", "inquire 1", "end 1", "end 2",
              "getelement 0 %d %d" % (tag, ref), "reopen 0 16 1", "getelement 0 %d %d" % (tag, ref)]
    return lines


def gen_layout_scenario(r, name):
    """end-of-file bookkeeping across sessions: fill the descriptor block(s), add descriptors that own no data
    (Hdupdd) so that a DD block can be the last thing in the file, reopen, allocate new elements, reopen, read
    everything; and: last element, Hdupdd, Htrunc, new element -- the duplicate must keep the old bytes"""
    ndds = r.choice([4, 4, 5, 16])
    lines = ["history " + name, "open 0 %d %d" % (ndds, r.choice([0, 1, 1]))]
    keys = []
    for i in range(r.randrange(1, 2 * min(ndds, 6) + 1)):
        k = (TAGS[i % 3], i // 3 + 1)
        keys.append(k)
        lines.append("putelement 0 %d %d %s" % (k[0], k[1], hexs(rbytes(r, r.choice([1, 3, 8, 20])))))
    dups = []
    for j in range(r.randrange(0, ndds + 2)):
        o = r.choice(keys)
        k = (103, j + 1)
        dups.append(k)
        lines.append("dupdd 0 %d %d %d %d" % (k[0], k[1], o[0], o[1]))
    if r.random() < 0.5:
        # the last element of the file gets an alias, is truncated, and something new is allocated after it
        last = keys[-1]
        lines += ["dupdd 0 104 1 %d %d" % last, "startaccess 0 0 %d %d 3" % last, "trunc 0 %d" % r.choice([0, 1, 2]),
                  "tell 0", "end 0"]
        dups.append((104, 1))
    gone = []
    if len(keys) > 1 and r.random() < 0.6:
        # delete some elements (no aliases of them): they must be gone from the file, whatever the cache mode, also
        # when their slot is not reused before the close, and their tag/ref can be used again
        aliased = set()
        for l in lines:
            t = l.split()
            if t[0] == "dupdd":
                aliased.add((int(t[4]), int(t[5])))
        for k in r.sample(keys[:-1], r.randrange(1, min(3, len(keys) - 1) + 1)):
            if k in aliased:
                continue
            lines.append("deldd 0 %d %d" % k)
            keys.remove(k)
            gone.append(k)
    lines.append("reopen 0 %d %d" % (ndds, r.choice([0, 1])))
    for k in gone:
        lines.append("%s 0 %d %d" % (r.choice(["exist", "length", "getelement"]), k[0], k[1]))
    if gone and r.random() < 0.5:
        k = gone.pop(0)
        keys.append(k)
        lines.append("putelement 0 %d %d %s" % (k[0], k[1], hexs(rbytes(r, r.choice([2, 7])))))
    for i in range(r.randrange(1, 4)):
        k = (105, i + 1)
        keys.append(k)
        if r.random() < 0.5:
            lines.append("putelement 0 %d %d %s" % (k[0], k[1], hexs(rbytes(r, r.choice([2, 6, 12, 40])))))
        else:
            lines += ["startwrite 1 0 %d %d %d" % (k[0], k[1], r.choice([4, 10, 30])), "write 1 " + hexs(rbytes(r, 3)),
                      "seek 1 0 0", "read 1 0", "end 1"]
    lines.append("reopen 0 16 1")
    for k in keys + dups:
        lines.append("getelement 0 %d %d" % k)
    for k in gone:
        lines.append("exist 0 %d %d" % k)
    return lines


def gen_promote_scenario(r, name):
    """silent promotion reached through every seek origin: an extendable handle on an element that is not the last
    thing in the file is moved to or past the element's end with DF_START / DF_CURRENT (from a non-zero position) /
    DF_END; position, transfer counts and content are observed right after, and after a reopen"""
    lines = ["history " + name, "open 0 %d %d" % (r.choice([4, 5, 16]), r.choice([0, 1, 1]))]
    n = r.choice([3, 8, 20])
    lines.append("putelement 0 100 1 %s" % hexs(rbytes(r, n)))
    lines.append("putelement 0 101 1 %s" % hexs(rbytes(r, r.choice([1, 5]))))      # something behind it
    lines.append("startaccess 0 0 100 1 19")
    pos = 0
    if r.random() < 0.8:
        pos = r.randrange(1, n + 1)
        lines += ["seek 0 %d 0" % pos, "tell 0"]
    for _ in range(r.randrange(1, 4)):
        target = n + r.choice([0, 0, 1, 4, 11])
        origin = r.choice([0, 1, 1, 2, 2])
        base = {0: 0, 1: pos, 2: n}[origin]
        lines += ["seek 0 %d %d" % (target - base, origin), "tell 0"]
        pos = target
        if r.random() < 0.8:
            k = r.choice([1, 2, 6])
            lines += ["write 0 " + hexs(rbytes(r, k)), "tell 0"]
            pos += k
            n = max(n, pos)
        lines.append("inquire 0")
    lines += ["seek 0 0 0", "read 0 0", "end 0", "length 0 100 1", "reopen 0 16 1", "getelement 0 100 1", "getelement 0 101 1"]
    return lines


def gen_buffered_scenario(r, name):
    """hbuffer.c: a handle is switched to buffered access (HBconvert) on a contiguous, linked-block, external or new
    element; it must keep behaving as the same byte array (seeks from every origin, overwrites, growth exactly when
    the element underneath can grow, gaps, reads at the end), and closing it must put the bytes into the file"""
    lines = ["history " + name, "open 0 %d %d" % (r.choice([4, 16]), r.choice([0, 1, 1]))]
    kind = r.choice(["plain", "plain", "app", "app", "linked", "new", "ext"])
    n = r.choice([1, 4, 10, 33])
    if kind == "linked":
        lines += ["hlcreate 0 0 100 1 %d %d" % (r.choice([1, 3, 8]), r.choice([1, 2])), "write 0 " + hexs(rbytes(r, n)), "end 0"]
    elif kind != "new":
        lines.append("putelement 0 100 1 %s" % hexs(rbytes(r, n)))
    if r.random() < 0.6:
        lines.append("putelement 0 101 1 %s" % hexs(rbytes(r, r.choice([2, 9]))))     # something behind it
    if kind == "ext":
        lines += ["hxcreate 0 0 100 1 0 %d 0" % r.choice([0, 7]), "end 0"]
    if kind == "new":
        n = 0
        lines.append("startaccess 0 0 100 1 %d" % r.choice([3, 19]))
    else:
        lines.append("startaccess 0 0 100 1 %d" % (19 if kind == "app" else r.choice([1, 3, 3])))
    if kind != "new" and r.random() < 0.4:
        lines += ["seek 0 %d 0" % r.randrange(0, n + 1), "read 0 %d" % r.choice([1, 2])]   # convert away from position 0
    lines.append("hbconvert 0")
    grow = kind in ("app", "linked", "new", "ext")
    pos = None
    for _ in range(r.randrange(2, 9)):
        a = r.random()
        if a < 0.35:
            t = r.randrange(0, n + 1) if not (grow and r.random() < 0.4) else n + r.choice([0, 1, 5, 40])
            origin = r.choice([0, 0, 1, 2]) if pos is not None else r.choice([0, 2])
            base = {0: 0, 1: pos or 0, 2: n}[origin]
            lines.append("seek 0 %d %d" % (t - base, origin))
            pos = t
        elif a < 0.65 and pos is not None:
            k = r.choice([1, 2, 7])
            if not grow and pos + k > n:
                k = n - pos
                if k <= 0:
                    continue
            lines.append("write 0 " + hexs(rbytes(r, k)))
            pos += k
            n = max(n, pos)
        elif a < 0.85 and pos is not None:
            k = r.choice([0, 1, 3, 50])
            lines.append("read 0 %d" % k)
            pos = min(n, pos + (k if k else n)) if pos <= n else pos
        elif a < 0.93:
            lines.append("tell 0")
        else:
            lines.append("inquire 0")
    lines += ["seek 0 0 0", "read 0 0", "end 0", "getelement 0 100 1", "reopen 0 16 1", "getelement 0 100 1"]
    if any(l.startswith("putelement 0 101") for l in lines):
        lines.append("getelement 0 101 1")
    return lines


def gen_stale_scenario(r, name):
    """bytes left behind by a longer, truncated version of an element must never show up again: the last element
    of the file is truncated, the file (usually) closed and reopened, the element extended through an extendable
    handle after seeking past its end (gaps 1..700 bytes: the zero fill works in pieces), read back, reopened, read"""
    lines = ["history " + name, "open 0 %d %d" % (r.choice([4, 5, 16]), r.choice([0, 1, 1]))]
    keys = []
    for i in range(r.randrange(1, 4)):
        k = (TAGS[i % 3], i + 1)
        keys.append(k)
        lines.append("putelement 0 %d %d %s" % (k[0], k[1], hexs([0xA0 + i] * r.choice([6, 20, 90, 700]))))
    last = keys[-1]
    keep = r.choice([0, 1, 2, 5])
    lines += ["startaccess 0 0 %d %d 3" % last, "trunc 0 %d" % keep, "end 0"]
    if r.random() < 0.75:
        lines.append("reopen 0 %d %d" % (r.choice([4, 16]), r.choice([0, 1])))
    lines.append("startaccess 0 0 %d %d 19" % last)
    pos = keep
    for _ in range(r.randrange(1, 4)):
        gap = r.choice([0, 1, 3, 17, 511, 512, 513, 700])
        pos += gap
        n = r.choice([1, 2, 9])
        lines += ["seek 0 %d 0" % pos, "write 0 " + hexs(rbytes(r, n))]
        pos += n
    lines += ["seek 0 0 0", "read 0 0", "end 0", "reopen 0 16 1"]
    for k in keys:
        lines.append("getelement 0 %d %d" % k)
    return lines


def gen_lb_history(r, name):
    """one linked-block element, several handles sharing it: the R-vs-M correspondence (exact, incl. the
    allocation flags of every block table)"""
    lines = ["history " + name, "open 0 %d %d" % (r.choice([4, 5, 16]), r.choice([0, 1]))]
    blen, nblk = r.choice([1, 2, 3, 4, 5, 7, 8, 9]), r.choice([1, 1, 2, 3, 4])
    lines.append("hlcreate 0 0 100 1 %d %d" % (blen, nblk))
    cap = blen * nblk
    handles = {0: 0}
    length = 0
    for _ in range(r.randrange(8, 40)):
        h = r.choice(list(handles))
        a = r.random()
        if a < 0.32:
            n = r.choice([1, 2, blen, blen + 1, cap, cap + 1, r.randrange(1, 3 * cap + 2)])
            n = max(1, min(n, 60))
            lines.append("write %d %s" % (h, hexs(rbytes(r, n))))
            handles[h] += n
            length = max(length, handles[h])
        elif a < 0.55:
            n = r.choice([0, 1, blen, cap, r.randrange(1, 2 * cap + 3)])
            lines.append("read %d %d" % (h, n))
            avail = max(0, length - handles[h])
            handles[h] += avail if n == 0 else min(n, avail)
        elif a < 0.80:
            org = r.choice([0, 0, 1, 2])
            # targets aimed at the case splits of the proofs: block / table boundaries, end, beyond the end
            t = r.choice([0, blen - 1, blen, cap - 1, cap, cap + 1, 2 * cap, length, length + 1,
                          length + r.randrange(0, 2 * cap + 2), r.randrange(0, length + 1)])
            base = {0: 0, 1: handles[h], 2: length}[org]
            lines.append("seek %d %d %d" % (h, t - base, org))
            if t >= 0:
                handles[h] = t
        elif a < 0.88:
            lines.append("blocks %d" % h)
        elif a < 0.92:
            lines.append("tell %d" % h)
        elif a < 0.97 and len(handles) < 4:
            nh = max(handles) + 1
            lines.append("startaccess %d 0 100 1 %d" % (nh, r.choice([1, 3])))
            handles[nh] = 0
        elif len(handles) > 1:
            lines.append("end %d" % h)
            del handles[h]
    h = next(iter(handles))
    lines += ["blocks %d" % h, "seek %d 0 0" % h, "read %d 0" % h]
    return lines


def run_model_lb(ctx, hists, tag):
    exe = ctx.harness("drive_h", ["drive_h.c"])
    mod = ctx.model("hblocks_model", ["hblocks_main.ml"], ["hblocks_model"])
    wd = os.path.join(ctx.bdir, "harness", "c01lb-%s-%d" % (tag, os.getpid()))
    os.makedirs(wd, exist_ok=True)
    p = os.path.join(wd, "in.hist")
    flat = [l for h in hists for l in h]
    open(p, "w").write("\n".join(flat) + "\n")
    rc, R = vc.run_lines(exe, p, timeout=900, args=[wd])
    rcm, M = vc.run_lines(mod, p, timeout=900)
    shutil.rmtree(wd, ignore_errors=True)
    if rcm != 0 or len(M) != len(flat):
        raise vc.BuildError("model driver failed rc=%d (%d lines for %d)" % (rcm, len(M), len(flat)))
    strip = lambda l: l.split(" ", 1)[1] if " " in l else l
    R = [strip(l) for l in R if re.match(r"^\d+ ", l)]
    M = [strip(l) for l in M]
    return rc, R, M, flat


def gen_ct_history(r, name):
    """contiguous elements only, with the library's layout (end-of-file offset + all descriptors) dumped around
    every write / truncate / create: stepwise correspondence with coq/HFileModel.v (hwrite's append-at-end versus
    promote decision, hcreate = allocation at the end of file, htrunc)"""
    lines = ["history " + name, "open 0 %d %d" % (r.choice([4, 5, 16]), r.choice([0, 1]))]
    keys, handles = [], {}      # handles: slot -> dict(key, app)
    ndup = 0
    for _ in range(r.randrange(10, 30)):
        a = r.random()
        if (a < 0.25 or not handles) and len(keys) < 4 and len(handles) < 6:
            k = (r.choice(TAGS), len(keys) + 1)
            keys.append(k)
            h = max(list(handles) + [-1]) + 1
            n = r.choice([0, 1, 5, 8, 20])
            lines += ["layout 0", "startwrite %d 0 %d %d %d" % (h, k[0], k[1], n), "layout 0"]
            handles[h] = dict(key=k, app=False)
            continue
        if not handles:
            continue
        h = r.choice(list(handles))
        if a < 0.40:
            lines.append("appendable %d" % h)
            handles[h]["app"] = True
        elif a < 0.80:
            if r.random() < 0.6:
                lines.append("seek %d %d %d" % (h, r.randrange(0, 25), 0))
            lines += ["tell %d" % h, "layout 0", "write %d %s" % (h, hexs(rbytes(r, r.choice([1, 2, 5, 9, 30])))), "layout 0"]
        elif a < 0.86:
            lines += ["layout 0", "trunc %d %d" % (h, r.randrange(0, 12)), "layout 0"]
        elif a < 0.93:
            if r.random() < 0.7:
                lines.append("seek %d %d %d" % (h, r.randrange(0, 25), 0))
            lines += ["tell %d" % h, "layout 0", "read %d %d" % (h, r.choice([0, 1, 3, 8, 40]))]
        elif a < 0.97:
            k = handles[h]["key"]
            ndup += 1
            newref = 100 + ndup if r.random() < 0.8 else r.choice(keys)[1]
            lines += ["layout 0", "dupdd 0 %d %d %d %d" % (k[0], newref, k[0], k[1]), "layout 0"]
        else:
            lines.append("end %d" % h)
            del handles[h]
    return lines


def check_ct(ctx, hists):
    """returns (steps compared, list of mismatch descriptions)"""
    exe = ctx.harness("drive_h", ["drive_h.c"])
    mod = ctx.model("hfile_model", ["hfile_main.ml"], ["hfile_model"])
    wd = os.path.join(ctx.bdir, "harness", "c01ct-%d" % os.getpid())
    os.makedirs(wd, exist_ok=True)
    p = os.path.join(wd, "in.hist")
    flat = [l for h in hists for l in h]
    open(p, "w").write("\n".join(flat) + "\n")
    rc, R = vc.run_lines(exe, p, timeout=900, args=[wd])
    strip = lambda l: l.split(" ", 1)[1] if " " in l else l
    R = [strip(l) for l in R if re.match(r"^\d+ ", l)]
    if len(R) != len(flat):
        shutil.rmtree(wd, ignore_errors=True)
        return 0, ["harness produced %d lines for %d operations (rc=%d)" % (len(R), len(flat), rc)]

    def lay(line):
        t = line.split()
        if t[0] != "ok":
            return None
        d = {}
        for x in t[2:]:
            tag, ref, off, ln = map(int, x.split(":"))
            d[(tag & ~0x4000 if not tag & 0x8000 else tag, ref)] = (tag, off, ln)
        return int(t[1]), d

    steps, slot_key, app = [], {}, {}
    ndds_of, cur_ndds = {}, 16
    for i, l in enumerate(flat):
        t = l.split()
        if t[0] == "open":
            cur_ndds = int(t[2])
        ndds_of[i] = cur_ndds
        if t[0] == "history":
            slot_key, app = {}, {}
        elif t[0] == "startwrite":
            slot_key[int(t[1])] = (int(t[3]), int(t[4]))
            app[int(t[1])] = False
            b, a = lay(R[i - 1]), lay(R[i + 1])
            if b and a and R[i] == "ok" and slot_key[int(t[1])] not in b[1]:
                steps.append((i, "C %d %d" % (b[0], int(t[5])), ("create", a, slot_key[int(t[1])])))
        elif t[0] == "appendable":
            app[int(t[1])] = True
        elif t[0] == "write" and flat[i - 1].startswith("layout") and flat[i - 2].startswith("tell"):
            h = int(t[1])
            b, a = lay(R[i - 1]), lay(R[i + 1])
            key = slot_key.get(h)
            if not b or not a or key not in b[1] or not R[i - 2].startswith("ok"):
                continue
            tag, off, ln = b[1][key]
            if tag & 0x4000 or off < 0:
                continue            # already special, or a length-less new element: outside this model
            pos = int(R[i - 2].split()[1])
            n = 0 if t[2] == "-" else len(t[2]) // 2
            steps.append((i, "W %d %d %d %d %d %d" % (off, ln, b[0], pos, 1 if app.get(h) else 0, n), ("write", a, key)))
        elif t[0] == "read" and flat[i - 1].startswith("layout") and flat[i - 2].startswith("tell"):
            h = int(t[1])
            b = lay(R[i - 1])
            key = slot_key.get(h)
            if not b or key not in b[1] or not R[i - 2].startswith("ok"):
                continue
            tag, off, ln = b[1][key]
            if tag & 0x4000 or off < 0:
                continue
            steps.append((i, "R %d %d %d %d %d" % (off, ln, b[0], int(R[i - 2].split()[1]), int(t[2])), ("read", b, key)))
        elif t[0] == "dupdd" and flat[i - 1].startswith("layout"):
            b, a = lay(R[i - 1]), lay(R[i + 1])
            newk, oldk = (int(t[2]), int(t[3])), (int(t[4]), int(t[5]))
            if not b or not a or oldk not in b[1]:
                continue
            tag, off, ln = b[1][oldk]
            if tag & 0x4000 or off < 0:
                continue
            steps.append((i, "D %d %d %d %d" % (off, ln, b[0], 1 if newk in b[1] else 0), ("dup", a, newk)))
        elif t[0] == "trunc" and flat[i - 1].startswith("layout"):
            h = int(t[1])
            b, a = lay(R[i - 1]), lay(R[i + 1])
            key = slot_key.get(h)
            if not b or not a or key not in b[1]:
                continue
            tag, off, ln = b[1][key]
            if tag & 0x4000 or off < 0:
                continue
            steps.append((i, "T %d %d %d %d" % (off, ln, b[0], int(t[2])), ("trunc", a, key)))
    q = os.path.join(wd, "steps.in")
    open(q, "w").write("\n".join(x[1] for x in steps) + "\n")
    rcm, M = vc.run_lines(mod, q, timeout=300)
    shutil.rmtree(wd, ignore_errors=True)
    bad = []
    if rcm != 0 or len(M) != len(steps):
        return 0, ["model driver failed rc=%d" % rcm]
    for (i, inp, (kind, after, key)), m in zip(steps, M):
        r = R[i]
        fend_a, dds_a = after
        ent = dds_a.get(key)
        mt = m.split()
        ok = True
        if kind == "create":
            # HTPcreate may first have to add a descriptor block (also allocated at the end of the file): the
            # element then starts one DD block (2 + 4 + 12 * ndds bytes) later; everything else as the model says
            ok = False
            if ent is not None and mt[0] == "ok":
                shift = ent[1] - int(mt[1])
                ok = shift in (0, 6 + 12 * ndds_of[i]) and ent[2] == int(mt[2]) and fend_a == int(mt[3]) + shift
        elif kind == "write":
            if mt[0] == "fail":
                ok = r == "fail"
            elif mt[0] == "promote":
                ok = r.startswith("ok") and ent is not None and bool(ent[0] & 0x4000)
            else:
                ok = r == "ok %s" % mt[1] and ent is not None and not ent[0] & 0x4000 and \
                    ent[2] == int(mt[2]) and fend_a == int(mt[3])
        elif kind == "read":
            ok = (r == "fail") if mt[0] == "fail" else (r.split()[:2] == ["ok", mt[1]])
        elif kind == "dup":
            ok = (r == "fail") if mt[0] == "fail" else (r == "ok" and ent is not None and not ent[0] & 0x4000 and
                                                        ent[1] == int(mt[1]) and ent[2] == int(mt[2]) and
                                                        fend_a - int(mt[3]) in (0, 6 + 12 * ndds_of[i]))   # a new DD block may be needed
        else:
            ok = (r == "fail") if mt[0] == "fail" else (r == "ok %s" % mt[1] and ent is not None and ent[2] == int(mt[1]))
        if not ok:
            bad.append("op #%d %r: observed state+op %r, model predicts %r, library answered %r and left %r (end of file %d)"
                       % (i, flat[i][:60], inp, m, r, ent, fend_a))
    return len(steps), bad


def match(r, s):
    """R line vs S line (same line number already stripped).  '..' in S is a wildcard byte."""
    if s == "nospec" or s == "skip" or s == "history":
        return True
    if r == s:
        return True
    rt, st = r.split(), s.split()
    if len(rt) != len(st) or rt[:-1] != st[:-1]:
        return False
    a, b = rt[-1], st[-1]
    if len(a) != len(b) or ".." not in b:
        return False
    return all(b[i:i + 2] == ".." or a[i:i + 2] == b[i:i + 2] for i in range(0, len(b), 2))


def split_histories(lines):
    out, cur = [], []
    for l in lines:
        if l.startswith("history ") and cur:
            out.append(cur)
            cur = []
        cur.append(l)
    if cur:
        out.append(cur)
    return out


def run_histories(ctx, hists, tag):
    exe = ctx.harness("drive_h", ["drive_h.c"])
    spec = ctx.model("estore_spec", ["estore_main.ml"], ["estore_spec"])
    wd = os.path.join(ctx.bdir, "harness", "c01-%s-%d" % (tag, os.getpid()))
    os.makedirs(wd, exist_ok=True)
    p = os.path.join(wd, "in.hist")
    flat = [l for h in hists for l in h]
    open(p, "w").write("\n".join(flat) + "\n")
    rc, R = vc.run_lines(exe, p, timeout=900, args=[wd])
    rcs, S = vc.run_lines(spec, p, timeout=900)
    shutil.rmtree(wd, ignore_errors=True)
    if rcs != 0 or len(S) != len(flat):
        raise vc.BuildError("spec driver failed rc=%d (%d lines for %d)" % (rcs, len(S), len(flat)))
    strip = lambda l: l.split(" ", 1)[1] if " " in l else l
    R = [strip(l) for l in R if re.match(r"^\d+ ", l) and " stale-handle " not in l and " trunc-special " not in l]
    S = [strip(l) for l in S]
    return rc, R, S, flat


def first_bad(R, S, flat, lo, hi):
    """index of the first operation of flat[lo:hi] on which the library leaves the specification.  Comparison of
    a history stops at the first operation the specification marks as outside the property's domain."""
    for i in range(lo, hi):
        if S[i] == "unspec":
            return None, None
        if i >= len(R) or R[i].startswith("crash"):
            return i, "crash"
        if not match(R[i], S[i]):
            return i, "mismatch"
    return None, None


def shrink(ctx, hist, limit=40):
    """delta-debug one failing history: drop operations while it still fails (R != S or crash)."""
    def fails(h):
        rc, R, S, flat = run_histories(ctx, [h], "shrink")
        i, _ = first_bad(R, S, flat, 0, len(flat))
        return i is not None
    cur = list(hist)
    n = 0
    chunk = max(1, (len(cur) - 1) // 2)
    while chunk >= 1 and n < limit:
        i = 1
        progressed = False
        while i < len(cur) and n < limit:
            if any(l.startswith("open ") for l in cur[i:i + chunk]):
                i += 1 if chunk == 1 else chunk
                if chunk > 1:
                    i -= chunk - 1
                continue
            cand = cur[:i] + cur[i + chunk:]
            n += 1
            if len(cand) > 1 and fails(cand):
                cur = cand
                progressed = True
            else:
                i += chunk
        if not progressed:
            chunk //= 2
    return cur


def signature(ctx, hist, i):
    """Signature of a failing history for known-findings matching, computed from the failing input itself:
    'stale-handle-after-promotion' = at or before the failing operation, and on the element the failing operation
    concerns, the history uses an access handle B that is
    still in plain (contiguous) mode although the element it was opened on is stored as a special element by then,
    i.e. it was promoted to linked blocks through another handle while B was open (the library leaves B's
    descriptor stale, and anything B does afterwards may damage the element);
    'htrunc-on-special-element' = at or before the failing operation the history calls Htrunc through a handle whose
    element is stored as a special (linked-block) element: Htrunc shortens the special-element header, not the data."""
    # which element does the failing operation concern?
    slot_key = {}
    for l in hist[:i]:
        t = l.split()
        if t[0] in ("startwrite", "startaccess", "hlcreate", "hxcreate"):
            slot_key[int(t[1])] = (int(t[2]), int(t[3]), int(t[4]))
    t = hist[i].split()
    if t[0] in ("write", "read", "seek", "tell", "trunc", "inquire", "end", "appendable"):
        want = slot_key.get(int(t[1]))
    elif t[0] in ("getelement", "length", "exist", "putelement", "deldd"):
        want = (int(t[1]), int(t[2]), int(t[3]))
    elif t[0] in ("startwrite", "startaccess", "hlcreate", "hxcreate"):
        want = (int(t[2]), int(t[3]), int(t[4]))
    elif t[0] == "reopen":
        want = (int(t[1]), None, None)
    else:
        want = None
    if want is None:
        return None
    exe = ctx.harness("drive_h", ["drive_h.c"])
    wd = os.path.join(ctx.bdir, "harness", "c01-sig-%d" % os.getpid())
    os.makedirs(wd, exist_ok=True)
    p = os.path.join(wd, "in.hist")
    open(p, "w").write("\n".join(hist[:i + 1]) + "\n")
    rc, out = vc.run_lines(exe, p, timeout=120, args=[wd], env={"DRIVE_H_PROBE": "1"})
    shutil.rmtree(wd, ignore_errors=True)
    for l in out:
        m = re.match(r"^\d+ (stale-handle|trunc-special) (\d+) (\d+) (\d+) (\d+)$", l)
        if m:
            k = (int(m.group(3)), int(m.group(4)), int(m.group(5)))
            if k == want or (want[1] is None and k[0] == want[0]):
                return "stale-handle-after-promotion" if m.group(1) == "stale-handle" else "htrunc-on-special-element"
    return None


def run(ctx):
    r = ctx.rng
    corpus = []
    cdir = os.path.join(vc.VERIF, "corpus", "C01")
    for fn in sorted(os.listdir(cdir)) if os.path.isdir(cdir) else []:
        corpus += split_histories([l for l in open(os.path.join(cdir, fn)).read().splitlines() if l.strip()])
    nh = 250 if ctx.tier == "quick" else 4000
    hists = corpus + [gen_history(r, "g%d" % i) for i in range(nh)] + \
        [gen_history(r, "m%d" % i, malformed=True) for i in range(nh // 5)] + \
        [gen_ext_scenario(r, "x%d" % i) for i in range(nh // 6)] + \
        [gen_layout_scenario(r, "y%d" % i) for i in range(nh // 4)] + \
        [gen_stale_scenario(r, "z%d" % i) for i in range(nh // 10)] + \
        [gen_promote_scenario(r, "p%d" % i) for i in range(nh // 10)] + \
        [gen_buffered_scenario(r, "b%d" % i) for i in range(nh // 8)]
    rc, R, S, flat = run_histories(ctx, hists, "main")
    opmix, fails_r = {}, 0
    pos = 0
    nviol = 0
    known_hists = 0
    for h in hists:
        lo, hi = pos, pos + len(h)
        pos = hi
        i, kind = first_bad(R, S, flat, lo, hi)
        for l in h[1:]:
            opmix[l.split()[0]] = opmix.get(l.split()[0], 0) + 1
        seg = R[lo:hi]
        fails_r += sum(1 for x in seg if x == "fail")
        nontriv = any(l.startswith("write") for l in h) and any(x.startswith("ok") and len(x.split()) >= 3 and
                                                                 re.fullmatch(r"[0-9a-f]+", x.split()[-1] or "")
                                                                 for x in seg)
        ctx.case(tuple(h[1:]), nontriv, sample={"history": h[1:12], "library": seg[1:12]} if len(ctx.coverage["samples"]) < 3 else None)
        if i is not None and nviol < 3:
            # known finding?  decided on the history as generated (cheap), before any shrinking
            sig0 = signature(ctx, h, i - lo)
            if sig0 is not None and ctx.match_known(sig0) is not None:
                ctx.violation("known finding", "", found=True, signature=sig0)
                known_hists += 1
                continue
            nviol += 1
            small = shrink(ctx, h) if ctx.tier == "quick" else shrink(ctx, h, 120)
            rc2, R2, S2, flat2 = run_histories(ctx, [small], "rep")
            j, kind2 = first_bad(R2, S2, flat2, 0, len(flat2))
            j = j if j is not None else 0
            txt = ["# C01 replay: element-level history; library (R) vs specification (S) differ at the marked operation",
                   "# run: bin/check C01 --replay <this file>"] + small + [
                   "# first difference at op %d: %s" % (j, flat2[j] if j < len(flat2) else "?"),
                   "#   library      : %s" % (R2[j] if j < len(R2) else "crash/abort (sanitizer or signal), harness rc=%d" % rc2),
                   "#   specification: %s" % (S2[j] if j < len(S2) else "?")]
            ctx.violation("library differs from the byte-array specification (%s) at: %s" % (
                kind2 or kind, flat2[j] if j < len(flat2) else "?"), "\n".join(txt), found=True)
        if kind == "crash":
            break   # the harness died; later histories were not run
    # ---- R vs M: linked-block structure and bytes, exact --------------------------------------------
    nlb = 150 if ctx.tier == "quick" else 3000
    lbh = [gen_lb_history(r, "lb%d" % i) for i in range(nlb)]
    rcl, RL, ML, flatl = run_model_lb(ctx, lbh, "main")
    _, _, SL, _ = run_histories(ctx, lbh, "lbspec")
    posl, lb_bad, tables_seen = 0, 0, set()
    for h in lbh:
        lo, hi = posl, posl + len(h)
        posl = hi
        bad = None
        for i in range(lo, hi):
            if ML[i] in ("nomodel", "skip", "history"):
                continue
            if i >= len(RL) or RL[i] != ML[i]:
                bad = i
                break
            if flatl[i].startswith("blocks"):
                tables_seen.add(" ".join(RL[i].split()[2:]))
        ctx.case(tuple(h[1:]), True)
        if bad is not None and lb_bad < 2:
            lb_bad += 1
            # is it also a failing input of the property?  (R vs S on the same history)
            rc3, R3, S3, flat3 = run_histories(ctx, [h], "lbs")
            j, kind = first_bad(R3, S3, flat3, 0, len(flat3))
            txt = ["# C01: linked-block history; library (R) vs Coq model HBlocksModel (M) differ",
                   "# run: bin/check C01 --replay <this file>"] + h + [
                   "# first R/M difference at: %s" % flatl[bad],
                   "#   library: %s" % (RL[bad] if bad < len(RL) else "crash"),
                   "#   model  : %s" % ML[bad]]
            if j is not None:
                txt += ["# the library also leaves the byte-array specification at: %s" % flat3[j],
                        "#   library      : %s" % (R3[j] if j < len(R3) else "crash"),
                        "#   specification: %s" % S3[j]]
            ctx.violation("linked-block correspondence broken at: %s" % flatl[bad], "\n".join(txt), found=j is not None)
    ctx.corr("HLP~HBlocksModel", histories=len(lbh), operations=len(flatl), distinct_table_shapes=len(tables_seen),
             mismatching_histories=lb_bad)
    # ---- R vs M, stepwise: contiguous path (allocation at end of file, append-or-promote decision, Htrunc) ----
    nct = 120 if ctx.tier == "quick" else 2500
    cth = [gen_ct_history(r, "ct%d" % i) for i in range(nct)]
    nsteps, ctbad = check_ct(ctx, cth)
    for h in cth:
        ctx.case(tuple(h[1:]), True)
    if ctbad:
        ctx.violation("contiguous-path correspondence (HFileModel) broken: " + ctbad[0][:200],
                      "# C01: stepwise library-vs-model check of hfile.c's contiguous path (coq/HFileModel.v)\n" +
                      "\n".join("# " + b for b in ctbad[:10]), found=False, suffix="txt")
    ctx.corr("hfile~HFileModel", histories=len(cth), steps_compared=nsteps, mismatches=len(ctbad))
    if rc != 0 and nviol == 0:
        ctx.violation("harness exited with rc=%d" % rc, "\n".join(flat[-40:]), found=True)
    ctx.corr("Hxxx~EStoreSpec", histories_matching_known_findings=known_hists, histories=len(hists), operations=len(flat), op_mix=opmix, library_fail_results=fails_r,
             corpus_histories=len(corpus))


def replay(ctx, path):
    lines = [l for l in open(path).read().splitlines() if l.strip() and not l.startswith("#")]
    rc, R, S, flat = run_histories(ctx, [lines], "replay")
    for i, l in enumerate(flat):
        mark = "  " if i < len(R) and match(R[i], S[i]) else "!!"
        print("%s %-50s R: %-40s S: %s" % (mark, l[:50], (R[i] if i < len(R) else "<crash>")[:40], S[i][:60]))
    print("harness rc =", rc)
    return 0
