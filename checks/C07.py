"""C07 -- Vdata tables.  R (library, harness/drive_vs.c) vs S (coq/VTableSpec.v, extracted) on generated Vdata
histories; R vs M (coq/VSModel.v, extracted) call by call on the records the harness prints for VSfdefine / VSsetfields /
VSseek / VSwrite / VSread / vpackvs / vunpackvs (inputs and outputs of the real functions, incl. the private transfer
buffer size and the Hread/Hwrite/Hseek calls they issue)."""
import os
import re
import shutil
import vcommon as vc

RULE = ("histories of 20-70 Vdata calls (VSattach new/r/w, VSfdefine, VSsetinterlace, VSsetfields, VSwrite, VSseek, VSread, "
        "VSdetach, Vend+Hclose+reopen, VSinquire, VSelts, VSsizeof, VFfield*, VSsetblocksize/numblocks, VSfpack, "
        "VSfexist with unknown names in every position, names defined twice with VSfdefine (type / order / both changed, more "
        "than nine symbols), VSsetname/VSsetclass/VSgetname/VSgetclass with lengths aimed at the header-size bookkeeping on vdatas whose header "
        "is already in the file) over 1-3 "
        "Vdatas of one file: schemas of 1..8 fields over the 30 number types (10 base types x standard/native/little-endian), "
        "orders 1..5 (and large orders for records of up to 65535 bytes), names of 1..10 characters plus 127/128/129/200 "
        "characters and the predefined PX..NZ; record counts 1..40 with overwrites at the start / middle / end, appends, "
        "reads of every range with random field subsets and permutations in both buffer interlaces; file interlace "
        "NO_INTERLACE with whole-table transfers; a second Vdata written in between so that appends go through linked "
        "blocks with block sizes 1..64 and 1..3 blocks per table; transfers of more than VDATA_BUFFER_MAX bytes in two and "
        "three passes, each followed by a multi-pass read of a proper subset / permutation of the fields; a "
        "several simultaneous attachments of one vdata (read+read with positions of their own, reads without a seek right "
        "after VSattach, interleaved positions, detach of one while the others go on; read-then-write and "
        "write-then-read attachments, which must be refused); a malformed stream (counts <= 0, bad interlace codes, negative seeks, reads past the end, unknown fields, calls "
        "on detached ids) that must fail.  All choices from one PRNG (VERIF_SEED); a light shadow state only steers "
        "weights.  A history is non-trivial when it writes records and reads some back; distinct by op text")
TRUSTED = ["Coq 8.16.1 kernel", "extraction (ExtrOcamlBasic only; Z/positive/nat inductive)",
           "OCaml drivers extract/vtable_main.ml, extract/vsmodel_main.ml; C harness harness/drive_vs.c (compiles the "
           "library's own vrw.c with Hread/Hwrite/Hseek routed through logging shims); generator and comparison in "
           "checks/C07.py",
           "translator gen_consts.py + plugin gen/plugins/vs_tables.py for gen/Gen_VS.v (constants, DFKNTsize switch, "
           "rstab, the integer expressions and case conditions of VSseek/VSread/VSwrite, the DFKconvert call / pointer "
           "update skeleton of VSread/VSwrite, the ENCODE/DECODE order of vpackvs/vunpackvs)",
           "modelled, not verified here: DFKconvert (C06 specification: strided byte copy with reversal for big-endian file "
           "types), the data element as a byte stream (C01 specification), attribute lists of the Vdata header, "
           "stdio"]
ASSUMPTIONS = ["several attachments of one vdata: each has its own current record (0 after VSattach) and field selection; "
               "the library shares one position and one selection among the read attachments, so an attachment relies on "
               "them only when it was the last to position / select (otherwise: outside the domain)",
               "host is little-endian and isize = esize for every supported number type (generated fact "
               "DFKNTsize_switch; hypothesis of vsread_after_vswrite)",
               "domain: VSsetfields naming the whole schema before VSwrite and naming "
               "distinct fields before VSread in the same attachment; seeks within 0..record count; block sizes large enough that a "
               "history needs far fewer than the 65535 refs of a file (ref exhaustion is C20); a Vdata whose file "
               "interlace is NO_INTERLACE with more than one field supports whole-table transfers from record 0 only "
               "(DESIGN.md C07 scope note); record size * count < 2^31 (C20)"]

BASE = {3: 1, 4: 1, 20: 1, 21: 1, 22: 2, 23: 2, 24: 4, 25: 4, 5: 4, 6: 8}
FLAV = [0, 0, 4096, 16384]
RESERVED = {"PX": (5, 1), "PY": (5, 1), "PZ": (5, 1), "IX": (24, 1), "IY": (24, 1), "IZ": (24, 1),
            "NX": (5, 1), "NY": (5, 1), "NZ": (5, 1)}
ALPH = "abcdefghijklmnopqrstuvwxyzABCDEFGHIJKLMNOPQRSTUVWXYZ0123456789_"


def rbytes(r, n):
    style = r.randrange(4)
    if style == 0:
        s = r.randrange(256)
        return bytes((s + i) & 255 for i in range(n))
    if style == 1 and n > 64:
        blk = bytes(r.randrange(256) for _ in range(61))
        return (blk * (n // 61 + 1))[:n]
    if n > 5000:
        blk = bytes(r.randrange(256) for _ in range(997))
        return (blk * (n // 997 + 1))[:n]
    return bytes(r.randrange(256) for _ in range(n))


def rname(r, used):
    for _ in range(50):
        k = r.random()
        if k < 0.04:
            n = r.choice([127, 128, 129, 200])
        else:
            n = r.randrange(1, 11)
        s = "".join(r.choice(ALPH) for _ in range(n))
        if s[:128] not in used and s not in RESERVED:
            used.add(s[:128])
            return s
    raise RuntimeError("name")


class VD:
    def __init__(self):
        self.fields = []      # (name as given, type, order, size)
        self.full = True
        self.nrec = 0
        self.att = None       # None / 'r' / 'w'
        self.pos = 0
        self.rl = None        # names selected for read
        self.wl = False
        self.schema = False
        self.persisted = False
        self.name = ""
        self.cls = ""

    @property
    def rs(self):
        return sum(f[3] for f in self.fields)


def gen_schema(r, big=False, one=False):
    used = set()
    if big:
        # few large fields: record of 30000..65535 bytes
        nf = one if one else r.choice([1, 2, 2, 3])
        total = r.randrange(60000, 65536) if one else r.randrange(30000, 65536)
        fields = []
        left = total
        for j in range(nf):
            b = r.choice(list(BASE))
            w = BASE[b]
            share = left if j == nf - 1 else r.randrange(left // 4 + 1, left // 2 + 2)
            order = max(1, min(65535, share // w))
            fields.append((rname(r, used), b | r.choice(FLAV), order, order * w))
            left -= order * w
        return fields
    nf = r.choice([1, 1, 2, 2, 3, 3, 4, 5, 6, 7, 8])
    fields = []
    for _ in range(nf):
        if r.random() < 0.05:
            cand = [n for n in RESERVED if n not in used]
            nm = r.choice(cand)
            used.add(nm)
            t, o = RESERVED[nm]
            fields.append((nm, t, o, o * BASE[t]))
            continue
        b = r.choice(list(BASE))
        order = r.choice([1, 1, 1, 2, 2, 3, 4, 5]) if r.random() < 0.96 else r.choice([16, 100, 1000])
        fields.append((rname(r, used), b | r.choice(FLAV), order, order * BASE[b]))
    return fields


def gen_history(r, name, kind="std"):
    """kind: std | noil (file NO_INTERLACE) | lb (linked blocks) | big (> VDATA_BUFFER_MAX) | mal (malformed calls)"""
    L = ["history " + name]
    vds = {}
    mal = kind == "mal"

    def create(v, big=False, one=False):
        d = VD()
        vds[v] = d
        L.append("new %d" % v)
        d.att = "w"
        d.fields = gen_schema(r, big, one)
        if kind == "noil" and r.random() < 0.8 or (kind in ("std", "mal") and r.random() < 0.08):
            L.append("setil %d 1" % v)
            d.full = False
        elif r.random() < 0.1:
            L.append("setil %d 0" % v)
        if kind == "lb" or r.random() < 0.25:
            if r.random() < 0.9:
                # keep the number of blocks of a history far below the 65535 refs a file has (that limit is C20's)
                minbs = d.rs * 100 // 6000 + 1
                L.append("blocksize %d %d" % (v, max(minbs, r.choice([1, 2, 3, 5, 7, 8, 13, 16, 31, 32, 33, 64, 100, 4096]))))
            if r.random() < 0.7:
                L.append("numblocks %d %d" % (v, r.choice([1, 1, 2, 3, 16])))
        order = list(d.fields)
        extra = []
        if r.random() < 0.2:   # definitions that are not used
            used = set(f[0][:128] for f in d.fields)
            for _ in range(r.randrange(1, 3)):
                b = r.choice(list(BASE))
                extra.append((rname(r, used), b, r.randrange(1, 4), 0))
        defs = order + extra
        r.shuffle(defs)
        for f in defs:
            if f[0] in RESERVED:
                continue
            if r.random() < 0.25:
                # the name is defined twice: the first definition differs in type only, order only, or both, with an
                # element size that may differ (the later definition is the one that counts)
                b0 = r.choice(list(BASE))
                t0 = r.choice([b0 | r.choice(FLAV), f[1]])
                o0 = r.choice([f[2], f[2] + 1, 1, 3])
                if (t0, o0) != (f[1], f[2]):
                    L.append("define %d %s %d %d" % (v, f[0], t0, o0))
            L.append("define %d %s %d %d" % (v, f[0], f[1], f[2]))
        if len(defs) > 9 or r.random() < 0.04:
            pass
        if r.random() < 0.06:
            # more than nine symbols, the last ones defined twice
            used2 = set(f[0][:128] for f in defs)
            for _ in range(10):
                nm = rname(r, used2)
                L.append("define %d %s %d %d" % (v, nm, r.choice(list(BASE)), r.randrange(1, 4)))
                if r.random() < 0.4:
                    L.append("define %d %s %d %d" % (v, nm, r.choice(list(BASE)), r.randrange(1, 4)))
        if mal and r.random() < 0.3:
            L.append(r.choice(["define %d zz 24 0", "define %d zz 24 65536", "define %d zz 7 1", "define %d zz 26 1",
                               "define %d zz 6 9000", "define %d a,b 24 1"]) % v)
        if r.random() < 0.6:
            do_setstr(v, d, "name")
        if r.random() < 0.4:
            do_setstr(v, d, "class")
        L.append("setfields %d %s" % (v, ",".join(f[0] for f in d.fields)))
        d.schema = True
        d.wl = True
        if r.random() < 0.3:
            do_setstr(v, d)
        if r.random() < 0.15:
            L.append("inquire %d" % v)

    def do_setstr(v, d, which=None):
        """VSsetname / VSsetclass; on a vdata whose header is already in the file the lengths are aimed at the header-size
        bookkeeping: longer / shorter / equal to the current string of the same kind and of the other kind"""
        which = which or r.choice(["name", "class", "class"])
        cur = d.name if which == "name" else d.cls
        other = d.cls if which == "name" else d.name
        cands = [0, 1, 3, len(cur), len(cur) + 1, max(0, len(cur) - 1), len(other), len(other) + 1, 10, 18, 30, 63, 64, 65, 70]
        if len(cur) < len(other):
            cands += [r.randrange(len(cur) + 1, len(other) + 1)] * 6      # grows, but not beyond the other string
        n = r.choice(cands)
        val = "".join(r.choice(ALPH) for _ in range(n))
        L.append("set%s %d %s" % (which, v, val or "-"))
        if d.att == "w":
            if which == "name":
                d.name = val[:64]
            else:
                d.cls = val[:64]

    def all_names(d):
        return ",".join(f[0] for f in d.fields)

    def ensure_wl(v, d):
        if not d.wl:
            L.append("setfields %d %s" % (v, all_names(d)))
            d.wl = True
            if d.nrec > 0:
                d.rl = [f[0] for f in d.fields]

    def do_write(v, d, n=None, pos=None):
        ensure_wl(v, d)
        if not d.full and len(d.fields) > 1:
            pos = 0
            n = d.nrec if d.nrec > 0 else (n or r.choice([1, 2, 3, 5, 8, 13]))
        if pos is None:
            k = r.random()
            if d.nrec == 0:
                pos = 0
            elif k < 0.45:
                pos = d.nrec
            elif k < 0.6:
                pos = 0
            else:
                pos = r.randrange(0, d.nrec + 1)
        if n is None:
            n = r.choice([1, 1, 2, 3, 4, 5, 8, 13, 21, 40])
        if pos != d.pos or r.random() < 0.1:
            L.append("seek %d %d" % (v, pos))
            d.pos = pos
        il = r.choice([0, 0, 1])
        L.append("write %d %d %d %s" % (v, n, il, rbytes(r, n * d.rs).hex()))
        d.pos = pos + n
        d.nrec = max(d.nrec, pos + n)

    def do_read(v, d, whole=False):
        if d.nrec == 0:
            return
        if d.rl is None or r.random() < 0.6:
            names = [f[0] for f in d.fields]
            k = r.random()
            if k < 0.3:
                sel = names
            else:
                sel = r.sample(names, r.randrange(1, len(names) + 1))
                if r.random() < 0.5:
                    sel.sort(key=names.index)
            L.append("setfields %d %s" % (v, ",".join(sel)))
            d.rl = sel
            d.wl = sel == names
        if not d.full and len(d.fields) > 1 or whole:
            pos, n = 0, d.nrec
        else:
            pos = r.choice([0, 0, d.pos if d.pos is not None else 0, r.randrange(0, d.nrec)])
            if pos >= d.nrec:
                pos = r.randrange(0, d.nrec)
            n = r.choice([1, 2, 3, d.nrec - pos, d.nrec - pos, r.randrange(1, d.nrec - pos + 1)])
            n = max(1, min(n, d.nrec - pos))
        if pos != d.pos or r.random() < 0.1:
            L.append("seek %d %d" % (v, pos))
        L.append("read %d %d %d" % (v, n, r.choice([0, 0, 1])))
        d.pos = pos + n

    def do_query(v, d):
        k = r.random()
        if k < 0.3:
            L.append("inquire %d" % v)
        elif k < 0.45:
            L.append("elts %d" % v)
        elif k < 0.65:
            names = [f[0] for f in d.fields]
            sel = r.sample(names, r.randrange(1, len(names) + 1))
            L.append("sizeof %d %s" % (v, ",".join(sel)))
        elif k < 0.9:
            L.append("field %d %d" % (v, r.randrange(len(d.fields))))
        elif k < 0.95:
            L.append("nfields %d" % v)
        elif k < 0.975:
            L.append(r.choice(["getname %d", "getclass %d"]) % v)
        else:
            pass
        if r.random() < 0.35:
            # VSfexist: existing names in any order, with an unknown name first / in the middle / last
            names = [f[0] for f in d.fields]
            sel = r.sample(names, r.randrange(1, len(names) + 1))
            kk = r.random()
            if kk < 0.5:
                sel.insert(r.choice([0, 0, len(sel) // 2, len(sel)]), r.choice(["nosuch", "Zz9", names[0] + "x"]))
            L.append("fexist %d %s" % (v, ",".join(sel)))

    def do_pack(v, d):
        names = [f[0] for f in d.fields]
        size = {f[0]: f[3] for f in d.fields}
        n = r.choice([1, 2, 3, 5])
        if r.random() < 0.4:
            bf, bnames = "*", names
        else:
            bnames = r.sample(names, r.randrange(1, len(names) + 1))
            bf = ",".join(bnames)
        if r.random() < 0.4:
            ff, fnames = "*", bnames
        else:
            fnames = r.sample(bnames, r.randrange(1, len(bnames) + 1))
            ff = ",".join(fnames)
        if sum(size[x] for x in bnames) * n > 4000:
            return
        if r.random() < 0.5:
            L.append("pack %d %d %s %s %s" % (v, n, bf, ff, ";".join(rbytes(r, n * size[x]).hex() for x in fnames)))
        else:
            L.append("unpack %d %d %s %s %s" % (v, n, bf, ff, rbytes(r, n * sum(size[x] for x in bnames)).hex()))

    def detach(v, d):
        L.append("detach %d" % v)
        d.att = None
        d.rl = None
        d.wl = False
        d.persisted = True

    def attach(v, d, mode=None):
        mode = mode or (r.choice("rw") if d.nrec > 0 else "w")
        L.append("attach %d %s" % (v, mode))
        d.att = mode
        d.pos = 0
        d.rl = None
        d.wl = False
        if mode == "w" and kind != "big" and r.random() < 0.55:
            # the header is already in the file: a longer / shorter name or class, then (usually) more records
            do_setstr(v, d)
            if r.random() < 0.3:
                do_setstr(v, d)
            if d.full or len(d.fields) == 1:
                if r.random() < 0.7:
                    do_write(v, d, pos=d.nrec)
        elif mode == "r" and mal and r.random() < 0.3:
            do_setstr(v, d)         # refused on a read attachment

    if kind == "big":
        # b0: one field, three passes through the transfer buffer; b1: two fields, three passes; others: two passes
        three = name[-1] in "01"
        create(0, big=True, one=(1 if name.endswith("0") else 2 if name.endswith("1") else False))
        d = vds[0]
        need = 1000000 // d.rs + 1
        # need = the chunk size VSwrite / VSread pick; more than that many records go through the buffer in several pieces
        n1 = r.choice([need + 1, need + 1, need + r.randrange(1, 6), need + 2])
        if three:
            n1 = 2 * need + r.randrange(1, 4)
        do_write(0, d, n=n1, pos=0)
        if r.random() < 0.5:
            do_write(0, d, n=r.choice([1, 2, need]), pos=r.choice([0, d.nrec, d.nrec // 2]))
        L.append("elts 0")
        L.append("setfields 0 %s" % all_names(d))
        d.rl = [f[0] for f in d.fields]
        L.append("seek 0 0")
        L.append("read 0 %d %d" % (d.nrec, 0 if len(d.fields) > 1 and r.random() < 0.7 else r.choice([0, 1])))
        d.pos = d.nrec
        # a second multi-pass read whose records are narrower in the caller's buffer than in the file (proper subset /
        # permutation of the fields): the cursor into the caller's buffer and the cursor into the stream advance by
        # different amounts per pass.  The transfer buffer left by the read above holds `need` records, so more than
        # that many records are requested.
        if r.random() < 0.5:
            detach(0, d)
            if r.random() < 0.5:
                L.append("reopen")
            attach(0, d, "r")
        names = [f[0] for f in d.fields]
        forced = name.endswith("1")       # one history per run: proper subset, record-major caller buffer, from record 0
        if len(names) > 1 and (forced or r.random() < 0.85):
            sel = r.sample(names, r.randrange(1, len(names)))
        else:
            sel = r.sample(names, len(names))
        L.append("setfields 0 %s" % ",".join(sel))
        d.rl, d.wl = sel, sel == names
        room = d.nrec - (need + 1)
        p = r.choice([0, 0, min(1, room), min(r.randrange(0, 3), room)]) if room > 0 else 0
        if forced:
            p = 0
        L.append("seek 0 %d" % p)
        L.append("read 0 %d %d" % (d.nrec - p, 0 if forced else r.choice([0, 0, 0, 1])))
        d.pos = d.nrec
        if d.att:
            detach(0, d)
        return L

    create(0)
    nops = r.randrange(12, 45)
    for _ in range(nops):
        att = [v for v, d in vds.items() if d.att]
        det = [v for v, d in vds.items() if not d.att]
        k = r.random()
        if (k < 0.07 or (kind == "lb" and len(vds) < 2 and vds[0].nrec > 0)) and len(vds) < 3:
            v = len(vds)
            create(v)
            do_write(v, vds[v])
            continue
        if k < 0.12 and det:
            v = r.choice(det)
            attach(v, vds[v])
            continue
        if k < 0.16 and not att and r.random() < 0.9:
            L.append("reopen")
            continue
        if not att:
            if det:
                v = r.choice(det)
                attach(v, vds[v])
            continue
        v = r.choice(att)
        d = vds[v]
        k = r.random()
        if mal and r.random() < 0.25:
            m = r.randrange(13)
            if m == 0:
                L.append("read %d %d %d" % (v, r.choice([0, -1, -3]), r.choice([0, 1])))
            elif m == 1:
                L.append("write %d %d 0 %s" % (v, r.choice([0, -1]), "00" * d.rs))
            elif m == 2:
                L.append("read %d 1 %d" % (v, r.choice([2, -1, 7])))
            elif m == 3:
                L.append("seek %d -1" % v)
            elif m == 4 and d.nrec > 0 and d.rl is not None and (d.full or len(d.fields) == 1):
                L.append("seek %d %d" % (v, max(0, d.nrec - 1)))
                L.append("read %d %d 0" % (v, r.choice([2, 3, 50])))
                d.pos = None
            elif m == 5:
                L.append("setfields %d %s" % (v, "nosuchfield"))
                if d.nrec > 0:
                    d.rl = None
                    d.wl = False
            elif m == 6:
                L.append("sizeof %d %s" % (v, "nosuchfield"))
            elif m == 7:
                L.append("%s %d %d" % (r.choice(["blocksize", "numblocks"]), v, r.choice([0, -2])))
            elif m == 8 and d.att == "r":
                L.append("write %d 1 0 %s" % (v, "00" * d.rs))
            elif m == 9:
                L.append("setil %d %d" % (v, r.choice([0, 1, 2])))
                if d.nrec == 0 and d.att == "w":
                    pass
            elif m == 10 and det:
                L.append(r.choice(["elts %d", "read %d 1 0", "seek %d 0", "detach %d", "inquire %d", "nfields %d"]) % r.choice(det))
            elif m == 11:
                L.append("write %d 1 2 %s" % (v, "00" * d.rs))
            elif m == 12:
                L.append("field %d %d" % (v, r.choice([-1, len(d.fields), len(d.fields) + 3])))
            continue
        if k < 0.30 and d.att == "w":
            do_write(v, d)
        elif k < 0.62:
            if d.nrec == 0 and d.att == "w":
                do_write(v, d)
            else:
                do_read(v, d)
        elif k < 0.74:
            do_query(v, d)
        elif k < 0.80:
            do_pack(v, d)
        elif k < 0.83 and d.att == "w" and d.nrec == 0:
            il = r.choice([0, 1])
            L.append("setil %d %d" % (v, il))
            d.full = il == 0
        elif k < 0.845 and d.att == "w":
            do_setstr(v, d)
        elif k < 0.87:
            if r.random() < 0.5:
                L.append("blocksize %d %d" % (v, max(d.rs * 100 // 6000 + 1, r.choice([1, 2, 4, 16, 50, 4096]))))
            else:
                L.append("numblocks %d %d" % (v, r.choice([1, 2, 4, 16, 50])))
        elif k < 0.96:
            if d.nrec == 0 and d.att == "w" and r.random() < 0.8:
                do_write(v, d)
            detach(v, d)
        else:
            do_query(v, d)
    # final read-back of everything after a clean reopen
    for v, d in vds.items():
        if d.att:
            detach(v, d)
    L.append("reopen")
    for v, d in vds.items():
        if d.nrec == 0:
            continue
        attach(v, d, "r")
        L.append("inquire %d" % v)
        L.append("getname %d" % v)
        L.append("getclass %d" % v)
        for j in range(len(d.fields)):
            if r.random() < 0.4:
                L.append("field %d %d" % (v, j))
        L.append("setfields %d %s" % (v, all_names(d)))
        L.append("read %d %d %d" % (v, d.nrec, 0 if not d.full and len(d.fields) > 1 and r.random() < 0.5 else r.choice([0, 1])))
        detach(v, d)
    return L


def gen_multi(r, name):
    """several simultaneous attachments of one vdata: r+r (own positions from record 0, reads without an explicit seek
    right after VSattach, interleaved positions, detach of one while the others go on), r then w and w then r (refused).
    An attachment relies on its position / field selection only when it was the last to set it (shared in the library)."""
    L = ["history " + name]
    fields = gen_schema(r)
    names = [f[0] for f in fields]
    rs = sum(f[3] for f in fields)
    L.append("new 0")
    for f in fields:
        if f[0] not in RESERVED:
            L.append("define 0 %s %d %d" % (f[0], f[1], f[2]))
    L.append("setfields 0 %s" % ",".join(names))
    nrec = r.choice([3, 5, 8, 13, 21, 30])
    L.append("write 0 %d %d %s" % (nrec, r.choice([0, 1]), rbytes(r, nrec * rs).hex()))
    if r.random() < 0.25:       # w then r: refused, the writer goes on
        L.append("attachto 8 0 r")
        L.append("write 0 2 0 %s" % rbytes(r, 2 * rs).hex())
        nrec += 2
        L.append("elts 0")
    L.append("detach 0")
    if r.random() < 0.3:
        L.append("reopen")
    att = {}            # handle -> dict(pos, rl)
    mover = rlset = None
    free = [0, 8, 9, 10, 11]

    def attach_r():
        nonlocal mover
        h = r.choice([x for x in free if x not in att])
        L.append("attach 0 r" if h == 0 else "attachto %d 0 r" % h)
        att[h] = dict(pos=0, rl=None)
        mover = h
        return h

    def select(h):
        nonlocal rlset
        sel = r.sample(names, r.randrange(1, len(names) + 1)) if r.random() < 0.6 else list(names)
        L.append("setfields %d %s" % (h, ",".join(sel)))
        att[h]["rl"] = sel
        rlset = h

    def read(h, seek=None):
        nonlocal mover
        a = att[h]
        if rlset != h or a["rl"] is None:
            select(h)
        if seek is None and (mover != h or a["pos"] is None or a["pos"] >= nrec):
            seek = r.randrange(0, nrec)
        if seek is not None:
            L.append("seek %d %d" % (h, seek))
            a["pos"] = seek
            mover = h
        n = r.choice([1, 1, 2, 3, nrec - a["pos"]])
        n = max(1, min(n, nrec - a["pos"]))
        L.append("read %d %d %d" % (h, n, r.choice([0, 0, 1])))
        a["pos"] += n
        mover = h

    h0 = attach_r()
    read(h0)
    for _ in range(r.randrange(10, 30)):
        k = r.random()
        hs = list(att)
        if k < 0.22 and len(att) < 4:
            h = attach_r()
            if r.random() < 0.8:        # the new attachment reads from record 0 without a seek
                read(h)
        elif k < 0.30 and hs:
            L.append("attachto %d 0 w" % r.choice([x for x in [12, 13] if x not in att]))    # refused
        elif k < 0.62 and hs:
            read(r.choice(hs))
        elif k < 0.74 and hs:
            read(r.choice(hs), seek=r.choice([0, nrec - 1, r.randrange(0, nrec)]))
        elif k < 0.82 and hs:
            h = r.choice(hs)
            L.append(r.choice(["elts %d", "inquire %d", "nfields %d"]) % h)
        elif k < 0.95 and hs:
            h = r.choice(hs)
            L.append("detach %d" % h)
            del att[h]
            if not att and r.random() < 0.5:
                # a writer in between: append, then readers again
                L.append("attach 0 w")
                L.append("setfields 0 %s" % ",".join(names))
                L.append("seek 0 %d" % nrec)
                m = r.choice([1, 2, 5])
                L.append("write 0 %d 0 %s" % (m, rbytes(r, m * rs).hex()))
                nrec += m
                if r.random() < 0.5:
                    L.append("attachto 9 0 r")      # refused while written
                L.append("detach 0")
                mover = rlset = None
        elif not hs:
            read(attach_r())
    for h in list(att):
        L.append("detach %d" % h)
    L.append("reopen")
    L.append("attach 0 r")
    L.append("setfields 0 %s" % ",".join(names))
    L.append("read 0 %d %d" % (nrec, r.choice([0, 1])))
    L.append("detach 0")
    return L


# --------------------------------------------------------------------------------------------------------

def split_histories(lines):
    out, cur = [], []
    for l in lines:
        if l.startswith("history ") and cur:
            out.append(cur)
            cur = []
        cur.append(l)
    if cur:
        out.append(cur)
    return out


def run_big_stack(exe, infile):
    """the extracted functions are not tail recursive: buffers of > 10^6 bytes need a large stack"""
    return vc.run_lines("bash", infile, timeout=1500,
                        args=["-c", 'ulimit -s unlimited 2>/dev/null || ulimit -s 4000000 2>/dev/null; exec "$0" "$1"', exe])


def run_histories(ctx, hists, tag, trace=False):
    exe = ctx.harness("drive_vs", ["drive_vs.c"])
    spec = ctx.model("vtable_spec", ["vtable_main.ml"], ["vtable_spec"])
    wd = os.path.join(ctx.bdir, "harness", "c07-%s-%d" % (tag, os.getpid()))
    os.makedirs(wd, exist_ok=True)
    p = os.path.join(wd, "in.hist")
    flat = [l for h in hists for l in h]
    open(p, "w").write("\n".join(flat) + "\n")
    rc, Rall = vc.run_lines(exe, p, timeout=1500, args=[wd], env={"DRIVE_VS_TRACE": "1"} if trace else None)
    rcs, S = run_big_stack(spec, p)
    shutil.rmtree(wd, ignore_errors=True)
    if rcs != 0 or len(S) != len(flat):
        raise vc.BuildError("spec driver failed rc=%d (%d lines for %d)" % (rcs, len(S), len(flat)))
    R = {}
    mcalls = []      # (lineno, call text, result text)
    pend = None
    for l in Rall:
        m = re.match(r"^(\d+) (.*)$", l)
        if m:
            R[int(m.group(1))] = m.group(2)
            continue
        m = re.match(r"^MC (\d+) (.*)$", l)
        if m:
            pend = (int(m.group(1)), m.group(2))
            continue
        m = re.match(r"^MR (\d+) ?(.*)$", l)
        if m and pend and pend[0] == int(m.group(1)):
            mcalls.append((pend[0], pend[1], m.group(2)))
            pend = None
    Rl = []
    for i in range(len(flat)):
        Rl.append(R.get(i + 1))
    S = [l.split(" ", 1)[1] if " " in l else l for l in S]
    return rc, Rl, S, flat, mcalls


def first_bad(R, S, flat, lo, hi):
    """index of the first operation of flat[lo:hi] on which the library leaves the specification; comparison of a
    history stops at the first operation the specification marks as outside the property's domain."""
    crashed = None
    for i in range(lo, hi):
        if R[i] is not None and R[i].startswith("crash"):
            crashed = i
    for i in range(lo, hi):
        if S[i] == "unspec":
            return None, None
        if R[i] is None or R[i].startswith("crash"):
            return (crashed if crashed is not None else i), "crash"
        if S[i] in ("any", "nospec", "skip", "history"):
            continue
        if R[i] != S[i]:
            return i, "mismatch"
    if crashed is not None and not any(S[i] == "unspec" for i in range(lo, hi)):
        return crashed, "crash"
    return None, None


def shrink(ctx, hist, limit=60):
    def fails(h):
        rc, R, S, flat, _ = run_histories(ctx, [h], "shrink")
        i, _k = first_bad(R, S, flat, 0, len(flat))
        return i is not None
    cur = list(hist)
    n = 0
    chunk = max(1, (len(cur) - 1) // 2)
    while chunk >= 1 and n < limit:
        i = 1
        progressed = False
        while i < len(cur) and n < limit:
            cand = cur[:i] + cur[i + chunk:]
            n += 1
            if len(cand) > 1 and fails(cand):
                cur = cand
                progressed = True
            else:
                i += chunk
        if not progressed:
            chunk //= 2
    return cur


def signature(hist, i):
    """Signature of a failing history for known-findings matching, computed from the failing input itself."""
    return None


def clip(s, n=200):
    return s if len(s) <= n else s[:n] + "...(%d chars)" % len(s)


def model_agrees(kind, rres, mres):
    """R result line vs M result line of one call record.  A failing library call must be a failing model call; a
    VSread that failed in the stream below it (short Hread) is not a statement about the Vdata layer."""
    r, m = rres.strip(), mres.strip()
    if m == "nomodel" or r == m:
        return True
    if r.split()[:1] == ["-1"]:
        return kind == "vsread" or m.split()[:1] == ["-1"]
    return False


def run_model_calls(ctx, mcalls):
    """R-vs-M: feed the call records to the extracted model; returns list of (lineno, call, R result, M result)."""
    if not mcalls or not os.path.exists(os.path.join(vc.VERIF, "extract", "vsmodel_main.ml")):
        return []
    mod = ctx.model("vs_model", ["vsmodel_main.ml"], ["vs_model"])
    wd = os.path.join(ctx.bdir, "harness", "c07m-%d" % os.getpid())
    os.makedirs(wd, exist_ok=True)
    p = os.path.join(wd, "calls.txt")
    open(p, "w").write("\n".join(c[1] for c in mcalls) + "\n")
    rc, M = run_big_stack(mod, p)
    shutil.rmtree(wd, ignore_errors=True)
    if rc != 0 or len(M) != len(mcalls):
        raise vc.BuildError("model driver failed rc=%d (%d lines for %d)" % (rc, len(M), len(mcalls)))
    return [(c[0], c[1], c[2], m) for c, m in zip(mcalls, M)]


def run(ctx):
    r = ctx.rng
    corpus = []
    cdir = os.path.join(vc.VERIF, "corpus", "C07")
    for fn in sorted(os.listdir(cdir)) if os.path.isdir(cdir) else []:
        corpus += split_histories([l for l in open(os.path.join(cdir, fn)).read().splitlines() if l.strip() and not l.startswith("#")])
    quick = ctx.tier == "quick"
    nh = 170 if quick else 1800
    hists = list(corpus)
    hists += [gen_history(r, "g%d" % i, "std") for i in range(nh)]
    hists += [gen_history(r, "n%d" % i, "noil") for i in range(nh // 6)]
    hists += [gen_history(r, "l%d" % i, "lb") for i in range(nh // 3)]
    hists += [gen_history(r, "m%d" % i, "mal") for i in range(nh // 4)]
    hists += [gen_multi(r, "a%d" % i) for i in range(nh // 3)]
    hists += [gen_history(r, "b%d" % i, "big") for i in range(4 if quick else 12)]
    rc, R, S, flat, mcalls = run_histories(ctx, hists, "main", trace=True)
    opmix, fails_r, nviol, known_hists = {}, 0, 0, 0
    reads_full, reads_none, writes_full, writes_none, subset_reads, big_transfers, lb_hist = 0, 0, 0, 0, 0, 0, 0
    pos = 0
    for h in hists:
        lo, hi = pos, pos + len(h)
        pos = hi
        i, kind = first_bad(R, S, flat, lo, hi)
        seg = R[lo:hi]
        for l, x in zip(h[1:], seg[1:]):
            t = l.split()
            opmix[t[0]] = opmix.get(t[0], 0) + 1
            if x == "fail":
                fails_r += 1
            if t[0] == "read" and x and x.startswith("ok"):
                if t[3] == "0":
                    reads_full += 1
                else:
                    reads_none += 1
            if t[0] == "write" and x and x.startswith("ok"):
                if t[3] == "0":
                    writes_full += 1
                else:
                    writes_none += 1
                if len(t[4]) // 2 > 1000000:
                    big_transfers += 1
        if any(l.startswith("blocksize") for l in h):
            lb_hist += 1
        nontriv = any(l.startswith("write") for l in h) and any(
            l.startswith("read") and x and x.startswith("ok") and len(x.split()) >= 3 for l, x in zip(h, seg))
        ctx.case(tuple(h[1:]), nontriv,
                 sample={"history": [clip(l, 90) for l in h[1:10]], "library": [clip(x or "?", 90) for x in seg[1:10]]}
                 if len(ctx.coverage["samples"]) < 3 and len(h) < 60 else None)
        if i is not None and nviol < 3:
            sig0 = signature(h, i - lo)
            if sig0 is not None and ctx.match_known(sig0) is not None:
                ctx.violation("known finding", "", found=True, signature=sig0)
                known_hists += 1
                continue
            nviol += 1
            small = shrink(ctx, h) if quick else shrink(ctx, h, 150)
            rc2, R2, S2, flat2, _ = run_histories(ctx, [small], "rep")
            j, kind2 = first_bad(R2, S2, flat2, 0, len(flat2))
            j = j if j is not None else 0
            txt = ["# C07 replay: Vdata history; library (R) vs table specification (S) differ at the marked operation",
                   "# run: bin/check C07 --replay <this file>"] + small + [
                   "# first difference at op %d: %s" % (j, clip(flat2[j]) if j < len(flat2) else "?"),
                   "#   library      : %s" % (clip(R2[j]) if j < len(R2) and R2[j] else "crash/abort (sanitizer or signal)"),
                   "#   specification: %s" % (clip(S2[j]) if j < len(S2) else "?")]
            ctx.violation("library differs from the table specification (%s) at: %s" % (
                kind2 or kind, clip(flat2[j], 120) if j < len(flat2) else "?"), "\n".join(txt), found=True)
    ctx.corr("VSxxx~VTableSpec", histories=len(hists), operations=len(flat), op_mix=opmix, library_fail_results=fails_r,
             corpus_histories=len(corpus), reads_full_interlace=reads_full, reads_no_interlace=reads_none,
             writes_full_interlace=writes_full, writes_no_interlace=writes_none,
             transfers_over_VDATA_BUFFER_MAX=big_transfers, histories_with_block_settings=lb_hist,
             histories_matching_known_findings=known_hists)
    # ---- R vs M, call by call ------------------------------------------------------------------------
    res = run_model_calls(ctx, mcalls)
    kinds, bad = {}, 0
    multi_chunk = 0
    for ln, call, rres, mres in res:
        k = call.split()[0]
        kinds[k] = kinds.get(k, 0) + 1
        if k in ("vswrite", "vsread") and len(re.findall(r" [rw]\d+", rres)) > 1:
            multi_chunk += 1
        if not model_agrees(k, rres, mres):
            bad += 1
            if bad <= 2:
                # is it also a failing input of the property?  find the history this call belongs to
                p2, hh = 0, None
                for h in hists:
                    if p2 < ln <= p2 + len(h):
                        hh = h
                        break
                    p2 += len(h)
                found = False
                txt = ["# C07: library function (R) vs Coq model VSModel (M) differ on this call (line %d of the batch)" % ln,
                       "# call   : %s" % clip(call, 400), "# library: %s" % clip(rres, 400), "# model  : %s" % clip(mres, 400)]
                if hh is not None:
                    rc3, R3, S3, flat3, _ = run_histories(ctx, [hh], "mrep")
                    j, kind3 = first_bad(R3, S3, flat3, 0, len(flat3))
                    if j is not None:
                        found = True
                        txt += ["# the library also leaves the table specification at: %s" % clip(flat3[j]),
                                "#   library      : %s" % clip(R3[j] or "crash"), "#   specification: %s" % clip(S3[j])]
                    txt = txt[:1] + ["# run: bin/check C07 --replay <this file>"] + hh + txt[1:]
                ctx.violation("correspondence %s ~ VSModel broken" % k, "\n".join(txt), found=found)
    ctx.corr("vrw/vsfld/vio~VSModel", calls=len(res), by_function=kinds, mismatching_calls=bad,
             multi_chunk_transfers=multi_chunk)
    if rc != 0 and nviol == 0:
        ctx.violation("harness exited with rc=%d" % rc, "\n".join(flat[-40:]), found=True)


def replay(ctx, path):
    lines = [l for l in open(path).read().splitlines() if l.strip() and not l.startswith("#")]
    rc, R, S, flat, mcalls = run_histories(ctx, [lines], "replay", trace=True)
    bad, _ = first_bad(R, S, flat, 0, len(flat))
    for i, l in enumerate(flat):
        ok = S[i] in ("any", "nospec", "skip", "history", "unspec") or R[i] == S[i]
        print("%s %-60s R: %-50s S: %s" % ("  " if ok else "!!", clip(l, 60), clip(R[i] or "<crash>", 50), clip(S[i], 50)))
    try:
        for ln, call, rres, mres in run_model_calls(ctx, mcalls):
            if not model_agrees(call.split()[0], rres, mres):
                print("!! line %d %s\n     R: %s\n     M: %s" % (ln, clip(call, 150), clip(rres, 150), clip(mres, 150)))
    except vc.BuildError as e:
        print("model driver unavailable:", e)
    print("harness rc =", rc, "; first R/S difference:", "none" if bad is None else "op %d" % bad)
    return 0
