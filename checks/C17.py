"""C17 -- a crash while adding objects never damages what was already in the file.

R (library, harness/drive_crash.c: write log of the HDF stream via --wrap, every prefix image reopened and every
pre-existing object read back) vs S (coq/CrashSpec.v extracted: format reader + `preserves` on every prefix image,
old end of file, writes-above-old-end) vs M (coq/CrashModel.v extracted: predicted write log of H-level sessions,
compared write by write)."""
import os
import re
import shutil
import vcommon as vc

RULE = ("sessions = (pre-populated file: ndds in {4,5,16}, 2-12 old objects of kinds H element / linked-block element / "
        "Vdata / Vgroup / SDS / GR image / annotation) x (append-only session of kind H (1..3 new DD blocks forced), "
        "V, HV, SD, GR, AN, MIX, VGADD = new objects inserted into an existing Vgroup; optional Hsync in the middle); all choices from one PRNG (VERIF_SEED).  For EVERY "
        "prefix of the recorded write log the image is materialised, reopened with the library (all old objects read "
        "back by key) and parsed by the extracted Coq reader.  A session is non-trivial when it issues >= 1 write "
        "before and >= 2 writes inside a flush and the old file holds >= 2 objects; distinct by session text")
TRUSTED = ["Coq 8.16.1 kernel", "extraction (ExtrOcamlBasic only; Z/positive/nat inductive)",
           "OCaml driver extract/crash_main.ml; C harness harness/drive_crash.c (--wrap=fwrite,fputc,fseek,HTPsync; "
           "stream identified by device/inode; log completeness checked against the file on disk); generator and "
           "comparison in checks/C17.py",
           "translator gen_consts.py + plugin gen/plugins/crash_skel.py (constants, offset expressions and ordered "
           "call skeletons of HPgetdiskblock/HIextend_file/HIsync/HTInew_dd_block/HTIupdate_dd/HTPsync/HTPcreate in "
           "gen/Gen_Crash.v)",
           "modelled, not verified: stdio (each library-level write atomic and ordered, as the property states); "
           "Vdata/Vgroup/SD/GR/AN layers (correspondence only); DD lookup structures (tag tree, atoms)"]
ASSUMPTIONS = ["each library-level write (one fwrite on the HDF stream) is atomic and writes are ordered",
               "default descriptor caching (no Hcache call in property-domain sessions)",
               "the file was written by the same library version (no version-element rewrite at close)",
               "every prefix inside the flush is claimed only for sessions of H elements, Vdatas and Vgroups; SD, GR and "
               "annotation sessions are claimed up to the start of the first flush (first sentence of the property)",
               "offsets < 2^31 (C20)"]

FULL_KINDS = ("H", "V", "HV")
HTAGS = [800, 801, 802, 803]


def hexs(b):
    return "".join("%02x" % x for x in b) if b else "-"


def rbytes(r, n):
    if r.random() < 0.3:
        return [r.randrange(1, 255)] * n
    return [r.randrange(256) for _ in range(n)]


class Refs:
    """explicit reference numbers that can never meet one the library hands out: Hnewref returns maxref + 1 and maxref
    dominates every explicit ref used so far, so explicit refs are taken from a strictly DESCENDING sequence (a later
    explicit ref is below every ref in the file, explicit or chosen by Hnewref).  A session whose 'new' element met
    an existing tag/ref would modify an old object, which is outside the property"""
    def __init__(self):
        self.next = None

    def new(self, r, tag):
        if self.next is None:
            self.next = r.choice([300, 3000, 30000])
        ref = self.next
        self.next -= r.choice([1, 1, 1, 2, 5])
        if self.next < 2:
            raise RuntimeError("refs exhausted")
        return ref


def h_op(r, refs, big=False):
    tag = r.choice(HTAGS)
    ref = refs.new(r, tag)
    k = r.random()
    n = r.choice([1, 2, 3, 5, 8, 13, 20, 40]) if not big else r.choice([100, 300])
    if k < 0.12:
        return "putn %d %s" % (tag, hexs(rbytes(r, n)))          # reference number chosen by Hnewref
    if k < 0.5:
        return "put %d %d %s" % (tag, ref, hexs(rbytes(r, n)))
    if k < 0.75:
        if r.random() < 0.15:
            return "sw %d %d 0 -" % (tag, ref)          # zero-length element: a descriptor without any data
        m = r.choice([0, n, n, max(1, n // 2)])
        return "sw %d %d %d %s" % (tag, ref, n, hexs(rbytes(r, m)))
    return "app %d %d %s" % (tag, ref, " ".join(hexs(rbytes(r, r.choice([1, 2, 4, 9]))) for _ in range(r.choice([1, 2, 3]))))


def v_op(r, names):
    i = len(names)
    names.append(i)
    if r.random() < 0.55:
        return "vs vd%d cl%d %d %d" % (i, r.randrange(3), r.choice([1, 2, 5, 12]), r.randrange(1, 30000))
    return "vg vg%d gc%d %d %d" % (i, r.randrange(3), r.choice([0, 1, 3, 7]), r.randrange(1, 30000))


def sd_op(r, names):
    i = len(names)
    names.append(i)
    nt = r.choice([20, 21, 22, 24, 5])
    dims = r.choice(["3", "2x3", "4x2", "2x2x2", "5"])
    return "sds sd%d %d %s %d" % (i, nt, dims, r.randrange(1, 30000))


def sdmeta_op(r, names):
    i = len(names)
    names.append(i)
    if r.random() < 0.6:
        return "sdsnd sn%d %d %s" % (i, r.choice([20, 22, 24, 5]), r.choice(["3", "2x3", "4x2"]))
    return "sdgattr ga%d %d" % (i, r.randrange(1, 30000))


def sdu_op(r, names):
    i = len(names)
    names.append(i)
    return "sdsu su%d %d %d %d %d" % (i, r.choice([20, 22, 24]), r.choice([1, 2, 3]), r.choice([1, 2, 3, 5]), r.randrange(1, 30000))


def gr_op(r, names):
    i = len(names)
    names.append(i)
    # number type and an optional palette (a palette has a number-type element of its own)
    return "gr im%d %d %d %d %d %d %d" % (i, r.choice([2, 3, 5]), r.choice([2, 4]), r.choice([1, 3]), r.randrange(1, 30000),
                                          r.choice([21, 21, 20, 22, 24, 5]), r.choice([0, 1]))


def an_op(r, refs):
    kind = r.randrange(4)
    return "an %d %d %d %s" % (kind, r.choice(HTAGS), r.randrange(1, 60), hexs([r.randrange(97, 123) for _ in range(r.choice([1, 4, 11]))]))


def gen_session(r, name, kind=None):
    kind = kind or r.choice(["H", "H", "H", "V", "HV", "HV", "SD", "GR", "AN", "MIX", "VGADD", "SDMETA", "SDU", "HDEL",
                             "REFWRAP", "REFWRAP", "VGATTR"])
    if kind == "REFWRAP":
        return gen_refwrap(r, name)
    if kind == "VGATTR":
        return gen_vgattr(r, name)
    if kind == "DFSD":
        return {"name": name, "kind": kind, "ndds": 16, "base": ["dfsd %s %d" % (r.choice(["3x4", "5", "2x3"]), r.randrange(1, 30000))],
                "ops": [sd_op(r, []) if r.random() < 0.7 else sdmeta_op(r, [])]}
    ndds = r.choice([4, 4, 5, 16])
    refs, names = Refs(), []
    base = []
    nb = r.randrange(2, 9)
    for _ in range(nb):
        c = r.random()
        if c < 0.5:
            base.append(h_op(r, refs))
        elif c < 0.6:
            tag = r.choice(HTAGS)
            base.append("hl %d %d %d %d %s" % (tag, refs.new(r, tag), r.choice([2, 3, 8]), r.choice([1, 2, 3]),
                                               hexs(rbytes(r, r.choice([5, 9, 17])))))
        else:
            base.append(v_op(r, names))
    if kind in FULL_KINDS and r.random() < 0.3:
        # knob: make a DD block the LAST thing in the old file: ndds descriptors without data (invalid offset and
        # length), one of which needs a new DD block, and nothing is allocated after that block
        for _ in range(ndds):
            tag = r.choice(HTAGS)
            base.append("app %d %d" % (tag, refs.new(r, tag)))
    if kind in ("SD", "MIX", "SDMETA"):
        base += [sd_op(r, names) for _ in range(r.randrange(1, 3))]
    if kind == "SDU" or (kind in ("SD", "MIX") and r.random() < 0.3):
        base += [sdu_op(r, names) for _ in range(r.randrange(1, 3))]
    if kind in ("GR", "MIX"):
        base += [gr_op(r, names) for _ in range(r.randrange(1, 3))]
    if kind in ("AN", "MIX"):
        base += [an_op(r, refs) for _ in range(r.randrange(1, 4))]
    ops = []
    if kind == "H":
        # enough new descriptors for 1..3 new DD blocks (ndds 4/5), or 0..2 (ndds 16)
        n = r.choice([1, 2, ndds - 1, ndds, ndds + 1, 2 * ndds, 2 * ndds + 1, 3 * ndds + 1]) if ndds < 16 else \
            r.choice([1, 3, 8, 15, 17, 33])
        ops = [h_op(r, refs, big=r.random() < 0.05) for _ in range(n)]
    elif kind == "V":
        ops = [v_op(r, names) for _ in range(r.choice([1, 2, 3, 5, 8]))]
    elif kind == "HV":
        ops = [h_op(r, refs) if r.random() < 0.5 else v_op(r, names) for _ in range(r.choice([2, 4, 7, 11]))]
    elif kind == "SD":
        ops = [r.choice([sd_op, sd_op, sdu_op, sdmeta_op])(r, names) for _ in range(r.choice([1, 2, 3]))]
    elif kind == "SDMETA":
        # metadata-only session: the old description is deleted and rewritten, nothing else is allocated before
        ops = [sdmeta_op(r, names) for _ in range(r.choice([1, 1, 2, 3]))]
    elif kind == "SDU":
        ops = [sdu_op(r, names) for _ in range(r.choice([1, 2]))] + ([sd_op(r, names)] if r.random() < 0.3 else [])
    elif kind == "HDEL":
        # delete-then-append at the element level (first sentence only): old elements are deleted -- among them,
        # usually, the one stored LAST in the file -- before anything new is allocated
        olds = [(o.split()[1], o.split()[2]) for o in base if o.split()[0] in ("put", "sw") and
                (o.split()[0] == "put" or o.split()[3] != "0")]
        if not olds:
            base.append("put 800 %d aabbcc" % refs.new(r, 800))
            olds = [tuple(base[-1].split()[1:3])]
        last_h = [o for o in base if o.split()[0] in ("put", "sw", "vs", "vg", "hl", "app")][-1].split()
        if last_h[0] != "put":
            base.append("put 801 %d 0102030405060708" % refs.new(r, 801))
            olds.append(tuple(base[-1].split()[1:3]))
        victims = [olds[-1]] if r.random() < 0.8 else []
        victims += [o for o in olds[:-1] if r.random() < 0.3]
        ops = ["del %s %s" % v for v in victims] + [h_op(r, refs) for _ in range(r.choice([1, 2, 4]))]
        # records of old elements rewritten through descriptor reuse (what Vdetach / VSdetach do), shorter, equal or longer
        for v in [o for o in olds if o not in victims]:
            if r.random() < 0.5:
                ops.insert(r.randrange(len(ops) + 1), "rw %s %s %s" % (v[0], v[1], hexs(rbytes(r, r.choice([1, 3, 8, 20])))))
    elif kind == "GR":
        ops = [gr_op(r, names) for _ in range(r.choice([1, 2, 3]))]
    elif kind == "AN":
        ops = [an_op(r, refs) for _ in range(r.choice([1, 2, 4, 6]))]
    elif kind == "VGADD":
        # new objects inserted into an EXISTING Vgroup: its record is rewritten (first sentence of the property only)
        base += ["vg ovg%d oc %d %d" % (i, r.choice([0, 2, 5]), r.randrange(1, 30000)) for i in range(r.choice([1, 2]))]
        for _ in range(r.choice([1, 2, 4])):
            ops.append(v_op(r, names) if r.random() < 0.5 else h_op(r, refs))
            ops.append("vgadd %d %d %d" % (r.randrange(8), r.choice([1, 2, 3]), r.randrange(1, 30000)))
            if r.random() < 0.4:
                ops.append("vsattr %d %d" % (r.randrange(8), r.randrange(1, 30000)))
    else:
        pool = [lambda: h_op(r, refs), lambda: v_op(r, names), lambda: sd_op(r, names), lambda: gr_op(r, names),
                lambda: an_op(r, refs)]
        ops = [r.choice(pool)() for _ in range(r.choice([3, 5, 8]))]
    if kind in FULL_KINDS and r.random() < 0.45:
        # the session also READS old elements while it appends (e.g. to copy them): space is reserved, an old element
        # is read, then the new one is written
        olds = [o.split() for o in base if o.split()[0] == "put" and len(o.split()) == 4 and o.split()[3] != "-"]
        hls = [o.split() for o in base if o.split()[0] == "hl"]
        if olds:
            for _ in range(r.choice([1, 2, 3])):
                c = r.random()
                if c < 0.55:
                    tag = r.choice(HTAGS)
                    g = r.choice(olds)
                    at = r.randrange(len(ops) + 1)
                    ops.insert(at, "cp %d %d %s %s" % (tag, refs.new(r, tag), g[1], g[2]))
                    if r.random() < 0.6:      # the last physical operation before the copy is a read
                        g2 = r.choice(olds)
                        ops.insert(at, "get %s %s" % (g2[1], g2[2]))
                else:
                    g = r.choice(olds + hls)
                    ops.insert(r.randrange(len(ops) + 1), "get %s %s" % (g[1], g[2]))
    if kind in FULL_KINDS and r.random() < 0.35:
        # a request that must be refused and leave no trace: a second descriptor under a name that is in use
        olds2 = [o.split() for o in base if o.split()[0] == "put"]
        if len(olds2) >= 1 and ops:
            a, b = r.choice(olds2), r.choice(olds2)
            ops.insert(r.randrange(len(ops)), "dupx %s %s %s %s" % (a[1], a[2], b[1], b[2]))
    if kind in FULL_KINDS and len(ops) >= 2 and r.random() < 0.3:
        ops.insert(r.randrange(1, len(ops)), "sync")
    if kind not in ("SD", "SDMETA", "SDU", "DFSD") and r.random() < 0.3:
        # the access mode of the session's Hopen: DFACC_ALL (7, "open, create it if it is not there") or DFACC_WRITE (2)
        ops.insert(0, "mode %d" % r.choice([7, 7, 2]))
    return {"name": name, "kind": kind, "ndds": ndds, "base": base, "ops": ops}


def gen_vgattr(r, name):
    """attributes added to EXISTING Vgroups that already carry attributes with related names (prefixes of each other,
    same number type): a new attribute is a new Vdata behind the end of the file, the Vgroup record is relocated"""
    k = r.choice([1, 2, 3])
    base, ops, names = [], [], []
    for i in range(k):
        base.append("vg ag%d ac %d %d" % (i, r.choice([0, 2]), r.randrange(1, 30000)))
    have = {}
    for i in range(k):
        for nm, nt in r.sample([("scale", 5), ("off", 24), ("x", 5), ("valid", 24)], r.choice([1, 2, 3])):
            base.append("vgattr %d %s %d %d" % (i, nm, nt, r.randrange(1, 30000)))
            have.setdefault(i, set()).add(nm)
    if r.random() < 0.5:
        base.append(v_op(r, names) if r.random() < 0.5 else "put 800 300 0102")
    pool = [("scale_factor", 5), ("offset", 24), ("xy", 5), ("valid_range", 24), ("sc", 5), ("units", 24), ("scale", 5), ("off", 24)]
    for _ in range(r.choice([1, 2, 3])):
        i = r.randrange(k)
        cand = [(nm, nt) for nm, nt in pool if nm not in have.get(i, set())]
        ext = [(nm, nt) for nm, nt in cand if any(nm.startswith(h) and nm != h for h in have.get(i, set()))]
        nm, nt = r.choice(ext if ext and r.random() < 0.8 else cand)   # mostly: a stored name is a proper prefix of the new one
        have.setdefault(i, set()).add(nm)
        ops.append("vgattr %d %s %d %d" % (i, nm, nt, r.randrange(1, 30000)))
    return {"name": name, "kind": "VGATTR", "ndds": r.choice([4, 16]), "base": base, "ops": ops}


def gen_refwrap(r, name):
    """the reference-number boundary: the old file uses refs 1..n densely (all handed out by Hnewref, over more
    than one DD block) and ALSO ref 65535, so every Hnewref of the session has to search for a free ref"""
    ndds = r.choice([4, 4, 5])
    flavour = r.choice(["h", "v", "hv"])
    names = []

    def one():
        if flavour == "h" or (flavour == "hv" and r.random() < 0.5):
            return "putn 800 %s" % hexs(rbytes(r, 4))
        return v_op(r, names)
    base = []
    if r.random() < 0.6:
        # descriptors NOT in ascending order of their reference numbers: explicit refs 2..k+1 in a random order ...
        k = r.randrange(3, 2 * ndds + 1)
        perm = list(range(2, k + 2))
        r.shuffle(perm)
        base += ["put 800 %d %s" % (x, hexs(rbytes(r, 4))) for x in perm]
    base += [one() for _ in range(r.randrange(ndds + 1, 3 * ndds + 2) - len(base) // 2)]
    if flavour != "h" and r.random() < 0.6:
        # ... or two Vgroups detached in the opposite order of their creation
        base.insert(r.randrange(len(base) + 1), "vg2 ra%d rb%d rc %d" % (len(base), len(base), r.randrange(1, 30000)))
    base.append("put 803 65535 %s" % hexs(rbytes(r, 3)))
    ops = [one() for _ in range(r.choice([1, 2, 3, ndds + 1]))]
    if len(ops) >= 2 and r.random() < 0.3:
        ops.insert(1, "sync")
    return {"name": name, "kind": {"h": "H", "v": "V", "hv": "HV"}[flavour], "ndds": ndds, "base": base, "ops": ops,
            "refwrap": True}


def session_text(s):
    return ["session %s" % s["name"], "base %d" % s["ndds"]] + s["base"] + ["go"] + s["ops"] + ["end"]


def parse_replay(lines):
    """inverse of session_text (+ '# kind K' comment)"""
    out, cur, sect = [], None, None
    kind = None
    for l in lines:
        l = l.strip()
        m = re.match(r"#\s*kind\s+(\w+)", l)
        if m:
            kind = m.group(1)
        if not l or l.startswith("#"):
            continue
        t = l.split()
        if t[0] == "session":
            cur = {"name": t[1], "kind": kind or "H", "ndds": 16, "base": [], "ops": []}
            sect = "base"
        elif cur is None:
            continue
        elif t[0] == "base":
            cur["ndds"] = int(t[1])
        elif t[0] == "go":
            sect = "ops"
        elif t[0] == "end":
            out.append(cur)
            cur = None
        else:
            cur[sect].append(l)
    if cur:
        out.append(cur)
    for s in out:
        if kind:
            s["kind"] = kind
    return out


def classify_ops(ops):
    """kind implied by the operations themselves (used for replays / shrunk sessions)"""
    ks = set(o.split()[0] for o in ops)
    if ks & {"sds", "gr", "an", "vgadd", "sdsnd", "sdgattr", "sdsu", "del", "rw", "vsattr", "vgattr"}:
        return "META"
    return "HV"


# ------------------------------------------------------------------------------------------------------------

def run_R(ctx, sessions, tag):
    exe = ctx.harness("drive_crash", ["drive_crash.c"], wraps=["fwrite", "fputc", "fseek", "HTPsync"])
    wd = os.path.join(ctx.bdir, "harness", "c17-%s-%d" % (tag, os.getpid()))
    shutil.rmtree(wd, ignore_errors=True)
    os.makedirs(wd)
    p = os.path.join(wd, "in.txt")
    open(p, "w").write("\n".join(l for s in sessions for l in session_text(s)) + "\n")
    rc, out = vc.run_lines(exe, p, timeout=3000, args=[wd])
    shutil.rmtree(wd, ignore_errors=True)
    res, cur, defs = {}, None, {}
    for l in out:
        t = l.split(" ", 1)
        if t[0] == "S":
            cur = {"name": t[1].strip(), "W": [], "P": {}, "R0": None, "E": None, "old": "", "final": None,
                   "session_rc": None, "basefail": None, "stderr": []}
            res[cur["name"]] = cur
        elif cur is None:
            continue
        elif t[0] == "def":
            i, txt = t[1].split(" ", 1)
            defs[int(i)] = txt
        elif t[0] == "E":
            a = t[1].split()
            cur["E"], cur["oldsize"] = int(a[0]), int(a[1])
        elif t[0] == "old":
            cur["old"] = t[1].strip()
        elif t[0] == "R0":
            a = t[1].split()
            cur["R0"] = (int(a[0]), [int(x) for x in a[1:]])
        elif t[0] == "session" and re.fullmatch(r"-?\d+", t[1].strip()):
            cur["session_rc"] = int(t[1])
        elif t[0] == "basefail":
            cur["basefail"] = t[1]
        elif t[0] == "W":
            a = t[1].split()
            cur["W"].append((int(a[1]), int(a[2]), a[3]))
        elif t[0] == "P":
            a = t[1].split()
            cur["P"][int(a[0])] = (int(a[1]), [int(x) for x in a[2:]])
        elif t[0] == "final":
            cur["final"] = int(t[1].split()[0])
        elif t[0] == "X":
            cur["done"] = True
        else:
            cur["stderr"].append(l)
    return rc, res, defs


def model_ops(s):
    """H-level op list for the model, or None when the session uses other interfaces"""
    out = []
    for o in s["ops"]:
        t = o.split()
        if t[0] == "put":
            n = 0 if t[3] == "-" else len(t[3]) // 2
            out.append("put %s %s %d %s" % (t[1], t[2], n, t[3]))
        elif t[0] == "sw":
            out.append("put %s %s %s %s" % (t[1], t[2], t[3], t[4]))
        elif t[0] == "app":
            out.append(o)
        elif t[0] == "putn":
            out.append("putn %s %d %s" % (t[1], 0 if t[2] == "-" else len(t[2]) // 2, t[2]))
        elif t[0] == "del":
            out.append(o)
        elif t[0] == "mode":
            continue
        elif t[0] in ("dupx", "dup"):
            out.append("dup %s %s %s %s" % (t[1], t[2], t[3], t[4]))
        elif t[0] == "rw":
            out.append("rw %s %s %d %s" % (t[1], t[2], 0 if t[3] == "-" else len(t[3]) // 2, t[3]))
        elif t[0] == "get":
            out.append("get")
        elif t[0] == "cp":
            src = [b.split() for b in s["base"] if b.split()[0] == "put" and b.split()[1:3] == t[3:5]]
            if not src or len(src[0]) < 4:
                return None
            hx = src[0][3]
            out.append("copy %s %s %d %s" % (t[1], t[2], 0 if hx == "-" else len(hx) // 2, hx))
        elif t[0] == "sync":
            out.append("sync")
        else:
            return None
    return out


def run_S(ctx, sessions, R, tag):
    mod = ctx.model("crash_model", ["crash_main.ml"], ["crash_model"])
    p = os.path.join(ctx.bdir, "harness", "c17-%s-%d.spec.in" % (tag, os.getpid()))
    with open(p, "w") as fh:
        for s in sessions:
            r = R.get(s["name"])
            if not r or not r.get("old"):
                continue
            fh.write("S %s\nold %s\n" % (s["name"], r["old"]))
            for off, fl, hx in r["W"]:
                fh.write("W %d %d %s\n" % (off, fl, hx))
            mo = model_ops(s)
            if mo is not None:
                fh.write("ops 1\n" + "\n".join(mo) + "\n")
            fh.write("X\n")
    rc, out = vc.run_lines(mod, p, timeout=3000)
    os.unlink(p)
    if rc != 0:
        raise vc.BuildError("spec/model driver failed rc=%d: %s" % (rc, "\n".join(out[-5:])))
    res, cur = {}, None
    for l in out:
        t = l.split()
        if not t:
            continue
        if t[0] == "S":
            cur = {"P": {}, "A": {}, "ML": [], "E": None, "wf": None, "D": []}
            res[t[1]] = cur
        elif t[0] == "wf":
            cur["wf"] = int(t[1])
        elif t[0] == "E":
            cur["E"] = None if t[1] == "fail" else int(t[1])
        elif t[0] == "D":
            cur["D"].append(tuple(int(x) for x in t[1:5]))
        elif t[0] == "P":
            cur["P"][int(t[1])] = (int(t[2]), int(t[3]))
        elif t[0] == "A":
            cur["A"][int(t[1])] = int(t[2])
        elif t[0] == "ML":
            if t[1] == "fail":
                cur["ML"] = None
            elif cur["ML"] is not None:
                cur["ML"].append((int(t[1]), t[2], int(t[3]), t[4]))
    return res


def judge(s, r, sp, defs):
    """-> (list of property failures [(k, what)], list of R-vs-M differences, stats)"""
    fails, corr = [], []
    st = {"writes": len(r["W"]), "flush_writes": sum(1 for w in r["W"] if w[1] > 0),
          "pre_writes": sum(1 for w in r["W"] if w[1] == 0), "prefixes": 0, "new_blocks": 0}
    full = classify_ops(s["ops"]) == "HV"
    if r.get("basefail") is not None or r["R0"] is None:
        return [(-1, "harness could not build / dump the pre-populated file: %s" % r.get("basefail"))], corr, st
    if r["session_rc"] not in (0, 4, 5):
        fails.append((-1, "the append session itself crashed (exit %s)" % r["session_rc"]))
    if r["session_rc"] in (4, 5):
        st["session_op_failed"] = 1
    if r["final"] != 1:
        fails.append((-2, "write log incomplete: old image + logged writes differ from the file on disk"))
    ref_rc, ref_ids = r["R0"]
    ref = set(ref_ids)
    if ref_rc != 0 or not any(defs[i] == "open ok" for i in ref_ids):
        return [(-1, "reference dump of the old file failed (rc=%d)" % ref_rc)], corr, st
    if sp is None or sp["E"] is None:
        return [(-1, "the format reader rejects the old file")], corr, st
    if r["E"] is None:
        return [(-1, "harness printed no old end of file: " + " | ".join(r["stderr"][:3]))], corr, st
    if sp["E"] != r["E"]:
        fails.append((-3, "old end of file: library f_end_off=%d, format reader old_end=%d" % (r["E"], sp["E"])))
    # first sentence: every write outside a flush lies at or above the old end
    for k, (off, fl, hx) in enumerate(r["W"]):
        if fl == 0 and off < sp["E"]:
            fails.append((k + 1, "write %d (offset %d, %d bytes) before the flush lies below the old end of file %d" % (
                k, off, len(hx) // 2, sp["E"])))
            break
    # in-domain prefixes
    first_flush = next((k for k, w in enumerate(r["W"]) if w[1] > 0), len(r["W"]))
    kmax = len(r["W"]) if full else first_flush
    for k in range(0, kmax + 1):
        st["prefixes"] += 1
        if k not in r["P"]:
            fails.append((k, "prefix %d: harness produced no dump" % k))
            break
        rc, ids = r["P"][k]
        what = None
        if rc != 0:
            what = "reading the image crashed / aborted (exit %d)" % rc
        elif not any(defs[i] == "open ok" for i in ids):
            what = "Hopen of the image fails"
        else:
            missing = [defs[i] for i in ref_ids if i not in set(ids)]
            if missing:
                got = {" ".join(defs[i].split()[:3]): defs[i] for i in ids}
                m0 = missing[0]
                what = "old object differs: was %r now %r" % (m0[:90], got.get(" ".join(m0.split()[:3]), "<absent>")[:90])
        if what is None and sp["P"].get(k) != (1, 1):
            what = "format reader: parses=%s preserves=%s" % (sp["P"].get(k, ("?", "?")))
        if what is not None:
            fails.append((k, "image after %d of %d writes (%s): %s" % (
                k, len(r["W"]), "inside flush" if k > first_flush else "before the flush", what)))
            break
    # R vs M (exact write log) for H-level sessions
    if sp.get("ML") is not None and model_ops(s) is not None:
        ml = sp["ML"]
        rl = r["W"]
        st["model_compared"] = 1
        if len(ml) != len(rl):
            corr.append("write log length: library %d, model %d" % (len(rl), len(ml)))
        for i, (a, b) in enumerate(zip(rl, ml)):
            if (a[0], a[2], a[1] > 0) != (b[2], b[3], b[1] == "flush"):
                corr.append("write %d: library (off=%d flush=%d %s) model (off=%d %s %s)" % (
                    i, a[0], a[1], a[2][:40], b[2], b[1], b[3][:40]))
                break
    elif model_ops(s) is not None:
        corr.append("model could not load the old image")
    # new DD blocks created by the session (header writes of 6 bytes outside the flush)
    st["new_blocks"] = sum(1 for w in r["W"] if w[1] == 0 and len(w[2]) == 12 and w[0] >= (sp["E"] or 0))
    st["wf_old"] = sp["wf"]
    return fails, corr, st


def known_signature(s, r, sp):
    """signature of a recorded finding, computed from the failing input itself:
    'sd-session-on-dfsd-file-rewrites-ndg-in-place' = the old file was written by the DFSD interface (no netCDF-style
    description whose members SDend could delete), the session goes through SDend's metadata rewrite, and EVERY
    pre-flush write below the old end of file lies inside an old NDG / SDG element (tags 720 / 700)"""
    if sp is None or sp.get("E") is None:
        return None
    if not any(o.split()[0] == "dfsd" for o in s["base"]):
        return None
    if not any(o.split()[0] in ("sds", "sdsnd", "sdsu", "sdgattr") for o in s["ops"]):
        return None
    below = [(off, len(hx) // 2) for off, fl, hx in r["W"] if fl == 0 and off < sp["E"]]
    if not below:
        return None
    for off, n in below:
        if not any(d[0] in (720, 700) and d[2] <= off and off + n <= d[2] + d[3] for d in sp["D"]):
            return None
    return "sd-session-on-dfsd-file-rewrites-ndg-in-place"


def still_fails(ctx, s):
    rc, R, defs = run_R(ctx, [s], "shrink")
    r = R.get(s["name"])
    if r is None or not r.get("done"):
        return True
    if r.get("basefail") is not None:
        return False
    S = run_S(ctx, [s], R, "shrink")
    fails, corr, st = judge(s, r, S.get(s["name"]), defs)
    return any(k != -1 or "crashed" in w for k, w in fails)


def shrink(ctx, s, budget=14):
    cur = dict(s)
    n = 0
    for field in ("ops", "base"):
        i = 0
        while i < len(cur[field]) and n < budget:
            cand = dict(cur)
            cand[field] = cur[field][:i] + cur[field][i + 1:]
            n += 1
            if (field == "base" or cand["ops"]) and still_fails(ctx, cand):
                cur = cand
            else:
                i += 1
    return cur


def show(s, r, sp, defs, fails, corr):
    out = []
    out.append("#   old end of file: library %s  format reader %s ; well-formed old image: %s" % (
        r.get("E"), sp and sp.get("E"), sp and sp.get("wf")))
    first_flush = next((k for k, w in enumerate(r["W"]) if w[1] > 0), len(r["W"]))
    ml = (sp or {}).get("ML") or []
    for k, (off, fl, hx) in enumerate(r["W"]):
        m = ml[k] if k < len(ml) else None
        out.append("#   write %2d  R: off=%-6d %-7s %-44s M: %s" % (
            k, off, "flush%d" % fl if fl else "pre", hx[:40] + (".." if len(hx) > 40 else ""),
            ("off=%d %s %s" % (m[2], m[1], m[3][:24])) if m else "-"))
    for k in sorted(r["P"]):
        rc, ids = r["P"][k]
        ok = rc == 0 and any(defs[i] == "open ok" for i in ids) and all(i in set(ids) for i in r["R0"][1])
        out.append("#   prefix %2d  R: %-22s S: parses/preserves=%s" % (
            k, "old objects intact" if ok else ("rc=%d " % rc + ("open ok" if any(defs[i] == "open ok" for i in ids) else "open FAIL")),
            (sp or {}).get("P", {}).get(k)))
    for k, w in fails:
        out.append("# PROPERTY FAILURE: " + w)
    for c in corr:
        out.append("# R-vs-M difference: " + c)
    return out


def run(ctx):
    r = ctx.rng
    sessions = []
    cdir = os.path.join(vc.VERIF, "corpus", "C17")
    for fn in sorted(os.listdir(cdir)) if os.path.isdir(cdir) else []:
        for i, s in enumerate(parse_replay(open(os.path.join(cdir, fn)).read().splitlines())):
            s["name"] = "c%s%d" % (re.sub(r"\W", "", fn)[:12], i)
            sessions.append(s)
    ncorpus = len(sessions)
    n = 80 if ctx.tier == "quick" else 900
    kinds_cycle = ["H", "REFWRAP", "H", "V", "HV", "SD", "GR", "AN", "MIX", "SDMETA", "SDU", "VGADD", "HDEL", "REFWRAP",
                   "DFSD", "SDMETA", "HDEL", "REFWRAP", "H", "HV", "V", "SDU", "SD", "MIX", "REFWRAP", "VGATTR", "GR", "VGATTR", "MIX"]
    for i in range(n):
        sessions.append(gen_session(r, "g%d" % i, kind=kinds_cycle[i % len(kinds_cycle)] if i < 2 * len(kinds_cycle) else None))
    import time
    t0 = time.time()
    rc, R, defs = run_R(ctx, sessions, "main")
    t1 = time.time()
    S = run_S(ctx, sessions, R, "main")
    vc.log("C17: library run %.1fs, specification/model run %.1fs" % (t1 - t0, time.time() - t1))
    stats = {"sessions": len(sessions), "corpus_sessions": ncorpus, "by_kind": {}, "prefix_images": 0, "writes": 0,
             "flush_writes": 0, "sessions_with_new_dd_block": 0, "new_dd_blocks_hist": {}, "model_compared": 0,
             "model_mismatch": 0, "old_images_well_formed": 0, "session_op_failed": 0, "mid_sync_sessions": 0,
             "old_objects_hist": {}, "harness_rc": rc}
    nviol = 0
    for s in sessions:
        rr = R.get(s["name"])
        if rr is None or not rr.get("done"):
            ctx.violation("harness died in session %s (rc=%d)" % (s["name"], rc),
                          "\n".join(["# C17: harness did not finish this session", "# kind %s" % s["kind"]] + session_text(s)),
                          found=True)
            break
        sp = S.get(s["name"])
        fails, corr, st = judge(s, rr, sp, defs)
        stats["by_kind"][s["kind"]] = stats["by_kind"].get(s["kind"], 0) + 1
        stats["prefix_images"] += st["prefixes"]
        stats["writes"] += st["writes"]
        stats["flush_writes"] += st["flush_writes"]
        nb = st["new_blocks"]
        stats["new_dd_blocks_hist"][str(nb)] = stats["new_dd_blocks_hist"].get(str(nb), 0) + 1
        stats["sessions_with_new_dd_block"] += 1 if nb else 0
        stats["model_compared"] += st.get("model_compared", 0)
        stats["old_images_well_formed"] += 1 if st.get("wf_old") == 1 else 0
        stats["session_op_failed"] += st.get("session_op_failed", 0)
        stats["mid_sync_sessions"] += 1 if "sync" in s["ops"] else 0
        nold = len(rr["R0"][1]) - 1 if rr.get("R0") else 0
        stats["old_objects_hist"][str(min(nold // 5 * 5, 40))] = stats["old_objects_hist"].get(str(min(nold // 5 * 5, 40)), 0) + 1
        nontriv = st["pre_writes"] >= 1 and st["flush_writes"] >= 2 and nold >= 2
        ctx.case(tuple(session_text(s)[1:]), nontriv,
                 sample={"kind": s["kind"], "ndds": s["ndds"], "base": s["base"][:3], "ops": s["ops"][:4],
                         "writes": st["writes"], "flush_writes": st["flush_writes"], "new_dd_blocks": nb,
                         "old_objects": nold} if len(ctx.coverage["samples"]) < 5 and nb else None)
        if fails:
            sig = known_signature(s, rr, sp)
            if sig is not None and ctx.match_known(sig) is not None:
                ctx.violation("known finding", "", found=True, signature=sig)
                stats["known_finding_sessions"] = stats.get("known_finding_sessions", 0) + 1
                continue
        if fails and nviol < 3:
            nviol += 1
            small = shrink(ctx, s) if fails[0][0] != -1 else s
            rc2, R2, defs2 = run_R(ctx, [small], "rep")
            r2 = R2.get(small["name"])
            S2 = run_S(ctx, [small], R2, "rep")
            f2, c2, _ = judge(small, r2, S2.get(small["name"]), defs2) if r2 and r2.get("done") else (fails, corr, st)
            if not f2:
                small, r2, S2, defs2, f2, c2 = s, rr, S, defs, fails, corr
            txt = ["# C17 replay: append-only session on a pre-populated file; the library's crash images (R) against the",
                   "# specification (S: every old object intact, pre-flush writes above the old end) and the model's log (M)",
                   "# run: bin/check C17 --replay <this file>", "# kind %s" % small["kind"]] + session_text(small) + \
                show(small, r2, S2.get(small["name"]), defs2, f2, c2)
            ctx.violation(f2[0][1], "\n".join(txt), found=True)
        elif corr and not fails:
            stats["model_mismatch"] += 1
            if stats["model_mismatch"] <= 2:
                txt = ["# C17: the library's write log (R) differs from the Coq model CrashModel (M); no crash image of this",
                       "# session violates the specification.  Correspondence relation: write log of H-level sessions",
                       "# run: bin/check C17 --replay <this file>", "# kind %s" % s["kind"]] + session_text(s) + \
                    show(s, rr, sp, defs, fails, corr)
                ctx.violation("write-log correspondence R~M broken: " + corr[0], "\n".join(txt), found=False)
    if stats["old_images_well_formed"] != len([s for s in sessions if R.get(s["name"], {}).get("R0")]):
        stats["note"] = "some old images do not satisfy wf_image (hypothesis of prefix_safe_flush)"
    ctx.corr("crash-images~CrashSpec", **{k: stats[k] for k in (
        "sessions", "corpus_sessions", "by_kind", "prefix_images", "writes", "flush_writes",
        "sessions_with_new_dd_block", "new_dd_blocks_hist", "old_images_well_formed", "session_op_failed",
        "mid_sync_sessions", "old_objects_hist", "harness_rc")},
        known_finding_sessions=stats.get("known_finding_sessions", 0),
        refwrap_sessions=sum(1 for s in sessions if s.get("refwrap")))
    ctx.corr("writelog~CrashModel", sessions_compared=stats["model_compared"], mismatching=stats["model_mismatch"])


def replay(ctx, path):
    ss = parse_replay(open(path).read().splitlines())
    bad = 0
    for s in ss:
        rc, R, defs = run_R(ctx, [s], "replay")
        r = R.get(s["name"])
        if r is None or not r.get("done"):
            print("harness died (rc=%d)" % rc)
            bad = 1
            continue
        S = run_S(ctx, [s], R, "replay")
        sp = S.get(s["name"])
        fails, corr, st = judge(s, r, sp, defs)
        print("\n".join(session_text(s)))
        print("\n".join(show(s, r, sp, defs, fails, corr)))
        print("verdict:", "FAILS" if fails else ("R~M differs" if corr else "ok"))
        if fails or corr:
            bad = 1
    return bad
