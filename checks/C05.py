"""C05 -- lossless coders and bit-level I/O round-trip every byte stream.
Correspondence: real library (harness/drive_comp.c) vs specification S and models M extracted from Coq
(extract/comp_main.ml) on generated histories.  See design.d/C05.md."""
import os
import re
import zlib
import vcommon as vc

RULE = ("histories drawn from one PRNG (VERIF_SEED): (a) compressed elements created with HCcreate for every coder "
        "(none, RLE, skipping-Huffman skip 1..9, deflate 0..9, n-bit over every integer type x start bit x length x "
        "sign-extension x fill) written under random partitions (append; rewrite in full from the start), read on "
        "the writing id, on a new id and after Hclose/Hopen under random read partitions and forward/backward "
        "seeks, with HCPgetdatasize and a dump of the raw DFTAG_COMPRESSED stream that is decoded by the extracted "
        "Coq decoder and compared byte-for-byte with the model encoder; data = empty-ish, random, long runs, run "
        "lengths 1..4 and 126..132 and 255..260, incompressible, two-symbol, ramps, sizes crossing the 4096-byte bit "
        "buffer and the 8192-byte seek buffer; (b) elements injected at format level (model-encoded header + "
        "stream incl. decoder-only packet shapes) read by the library; (c) bit elements: Hbitwrite widths 1..32, "
        "Hbitseek, mode switches, flush 0/1, re-partitioned Hbitread; (d) HCPencode_header/HCPdecode_header on all "
        "coder parameter layouts.  A case is non-trivial when it is in the property's domain and transfers at "
        "least one byte/bit; distinct by (kind, coder parameters, operations, data)")
TRUSTED = ["Coq 8.16.1 kernel (vm_compute used for complete finite sweeps with the bound in the statement; no native_compute)",
           "translator gen/gen_consts.py + plugin gen/plugins/c05_comp.py (constants, enums, mask tables, RLE control-byte "
           "expressions, header field layouts, initial splay tree expressions) run on crle.c, cskphuff.c, cnbit.c, "
           "hbitio.c, hcomp.c through gcc -E",
           "extraction: Require Extraction + ExtrOcamlBasic; no Extract Constant; Z/positive/nat extracted as inductives",
           "OCaml driver extract/comp_main.ml, C harness harness/drive_comp.c, generators and comparison in checks/C05.py",
           "zlib (external): deflate streams are inflated by python3 zlib in the check; in Coq, inflate(deflate s) = s is a "
           "Section hypothesis of the deflate theorems",
           "modelled, not verified: glue between the kernels (hcomp.c dispatch, mstdio.c position bookkeeping, the 4096-byte "
           "block buffering of hbitio.c, Hread/Hwrite of the underlying DFTAG_COMPRESSED element), memory management"]
ASSUMPTIONS = ["property domain: writes append at the end or rewrite the element in full from offset 0 (deflate: in one "
               "call, the library refuses a partitioned rewrite with DFE_UNSUPPORTED); reads and seeks stay inside the "
               "element; n-bit transfers and seeks are whole values; bit seeks in write mode only when the written "
               "length is a whole number of bytes",
               "lengths < 2^31; host little-endian is irrelevant here (the H layer sees file-order bytes)"]

NT = {20: 1, 21: 1, 3: 1, 4: 1, 22: 2, 23: 2, 24: 4, 25: 4}


# --------------------------------------------------------------------------------------------------
# generators
# --------------------------------------------------------------------------------------------------

def gen_data(r, n, unit=1):
    kind = r.choice(["rand", "runs", "runs", "edge", "two", "ramp", "const", "mixrun", "incompr"])
    out = []
    if kind == "rand":
        out = [r.randrange(256) for _ in range(n)]
    elif kind == "incompr":
        out = [(i * 167 + 13) % 256 for i in range(n)]
    elif kind == "const":
        out = [r.choice([0, 255, 7])] * n
    elif kind == "two":
        out = [r.choice([0, 255]) for _ in range(n)]
    elif kind == "ramp":
        out = [(i // max(1, unit)) % 256 for i in range(n)]
    elif kind == "runs":
        while len(out) < n:
            out += [r.randrange(256)] * r.choice([1, 1, 2, 2, 3, 3, 4, 5, 9, 40])
    elif kind == "edge":
        while len(out) < n:
            out += [r.randrange(256)] * r.choice([1, 2, 3, 126, 127, 128, 129, 130, 131, 132, 133, 255, 256, 257, 260])
            if r.random() < 0.5:
                out += [r.randrange(256) for _ in range(r.choice([1, 2, 3, 125, 126, 127, 128, 129, 130]))]
    else:  # mixrun: mixes whose tail starts a run, runs interrupted once
        while len(out) < n:
            m = r.choice([1, 2, 3, 124, 125, 126, 127, 128])
            out += [(r.randrange(255) + i) % 256 for i in range(m)]
            b = r.randrange(256)
            out += [b] * r.choice([2, 3, 4, 129, 130, 131])
    return out[:n] if n else []


def partition(r, n, unit=1):
    """random partition of n (a multiple of unit) into positive multiples of unit"""
    parts, left = [], n // unit
    while left > 0:
        mode = r.choice(["small", "small", "mid", "big", "all"])
        k = {"small": r.randrange(1, 5), "mid": r.randrange(1, 70), "big": r.randrange(1, 3000), "all": left}[mode]
        k = max(1, min(left, k))
        parts.append(k * unit)
        left -= k
    return parts


def pick_size(r, tier):
    c = r.random()
    if c < 0.05:
        return r.choice([1, 2, 3])
    if c < 0.55:
        return r.randrange(1, 300)
    if c < 0.9:
        return r.randrange(300, 1500)
    if c < 0.97:
        return r.randrange(4000, 4300)
    return r.randrange(8100, 9000) if tier == "quick" else r.randrange(8100, 20000)


def gen_coder(r):
    k = r.choice(["none", "rle", "rle", "rle", "skp", "skp", "defl", "nbit", "nbit", "nbit"])
    if k == "none":
        return (0, [0] * 5, 1)
    if k == "rle":
        return (1, [0] * 5, 1)
    if k == "skp":
        return (3, [r.choice([1, 1, 2, 3, 4, 5, 7, 8, 9, 16])] + [0] * 4, 1)
    if k == "defl":
        return (4, [r.randrange(0, 10)] + [0] * 4, 1)
    nt = r.choice(list(NT))
    sz = NT[nt]
    start = r.randrange(0, 8 * sz)
    ln = r.randrange(1, start + 2)
    if r.random() < 0.3:
        start, ln = r.choice([(8 * sz - 1, 8 * sz), (8 * sz - 1, 1), (0, 1), (7, 8), (min(8 * sz - 1, 8), min(8 * sz - 1, 8) + 1)])
    return (2, [nt, r.randrange(2), r.randrange(2), start, ln], sz)


def gen_sizes():
    """internal buffer sizes of the coders and of bit I/O, as regenerated from the sources into coq/gen/Gen_Comp.v"""
    txt = open(os.path.join(vc.COQ, "gen", "Gen_Comp.v")).read()
    if "translator_failed" in txt:
        # the translator no longer follows the sources (reported as a broken proof obligation); the search for a failing
        # input still runs, with the sizes of the last committed translation
        rc, old = vc.sh(["git", "-C", vc.VERIF, "show", "HEAD:coq/gen/Gen_Comp.v"])
        if rc == 0:
            txt = old
    d = {m.group(1): int(m.group(2)) for m in re.finditer(r"Definition ([A-Z_0-9]+) : Z := \(?(-?\d+)\)?\.", txt)}
    need = ["RLE_BUF_SIZE", "TMP_BUF_SIZE", "SKP_TMP_BUF_SIZE", "NBIT_BUF_SIZE", "BITBUF_SIZE", "DEFLATE_BUF_SIZE",
            "DEFLATE_TMP_BUF_SIZE"]
    for k in need:
        if k not in d or d[k] <= 0 or d[k] > (1 << 20):
            raise vc.BuildError("buffer size %s not available from Gen_Comp.v (%s)" % (k, d.get(k)))
    return d


def around(r, b, kmax=2):
    """a length / offset aimed at a multiple of buffer size b: k*b + {-1, 0, +1, small}"""
    return max(1, r.randrange(1, kmax + 1) * b + r.choice([-1, 0, 1, 1, r.randrange(2, 200)]))


def gen_boundary_element(r, sizes, which):
    """an element longer than twice the coder's largest internal buffer, written in a few calls, then read with
    reads and seeks whose lengths / distances are 1x, 2x the buffer sizes +-1 (forward from 0, forward from the
    middle, backward then forward), on a new id after reopen and on the writing id"""
    if which == "none":
        coder, p, unit, bufs = 0, [0] * 5, 1, [sizes["BITBUF_SIZE"]]
    elif which == "rle":
        coder, p, unit, bufs = 1, [0] * 5, 1, [sizes["TMP_BUF_SIZE"], sizes["RLE_BUF_SIZE"]]
    elif which == "skp":
        coder, p, unit, bufs = 3, [r.choice([1, 2, 3, 4, 8])] + [0] * 4, 1, [sizes["SKP_TMP_BUF_SIZE"], sizes["BITBUF_SIZE"]]
    elif which == "defl":
        coder, p, unit, bufs = 4, [r.randrange(0, 10)] + [0] * 4, 1, [sizes["DEFLATE_TMP_BUF_SIZE"], sizes["DEFLATE_BUF_SIZE"]]
    else:
        nt = r.choice([20, 21, 22, 23])
        sz = NT[nt]
        ln = r.choice([8 * sz, 8 * sz - 1, 8 * sz - 3])
        coder, p, unit, bufs = 2, [nt, r.randrange(2), r.randrange(2), 8 * sz - 1, ln], sz, [sizes["BITBUF_SIZE"], sizes["NBIT_BUF_SIZE"]]
    bitlen = p[4] if coder == 2 else None
    big = bufs[0]
    n = 2 * big + r.choice([1, 2, 3, r.randrange(4, 300)])
    n += (-n) % unit
    kind = r.choice(["rand", "rand", "mixed"])
    if kind == "rand":
        data = [r.randrange(256) for _ in range(n)]
    else:
        data = gen_data(r, n, unit)
        data += [r.randrange(256) for _ in range(n - len(data))]
    ops, i = [], 0
    cuts = sorted(set([0, n] + [min(n, (around(r, b) // unit) * unit) for b in bufs[:1]]))
    for a, b2 in zip(cuts, cuts[1:]):
        ops.append("W %d %s" % (b2 - a, " ".join(map(str, data[a:b2]))))
        between_writes(r, ops, b2)
    # rewrite the long element in full from its start (the stored form is overwritten across every internal buffer
    # boundary): on the writing id after a seek to 0, or on a new write access after Hendaccess
    rw = r.random()
    if rw < 0.6:
        n2 = n + r.choice([0, 0, unit, 37 * unit])
        d2 = [r.randrange(256) for _ in range(n2)]
        if rw < 0.3:
            ops.append(seek_op(r, 0, n, n))
        else:
            ops += ["E", "OW"]
        if coder in (0, 2) and r.random() < 0.5:
            c2 = sorted(set([0, n2] + [min(n2, (around(r, bufs[0]) // unit) * unit)]))
        else:
            c2 = [0, n2]
        for a, b2 in zip(c2, c2[1:]):
            ops.append("W %d %s" % (b2 - a, " ".join(map(str, d2[a:b2]))))
        n = n2

    def aimed(ops, pos):
        targets = []
        for b in bufs:
            targets += [b - 1, b, b + 1, 2 * b - 1, 2 * b, 2 * b + 1, around(r, b)]
        r.shuffle(targets)
        targets = targets[:r.randrange(5, 9)]
        if bitlen:
            # n-bit: values whose first bit lies in the first byte of a bit-I/O block (bit offset 0..7 in that byte)
            B = sizes["BITBUF_SIZE"]
            for kb in (1, 2):
                v = -(-(8 * B * kb) // bitlen)
                for vv in (v, v + 1):
                    if (vv * bitlen) // 8 == B * kb and vv * unit <= n:
                        targets.insert(r.randrange(0, len(targets) + 1), vv * unit)
        for t in targets:
            t = min(n, t - t % unit)
            c = r.random()
            if c < 0.45:
                # forward skip of about t bytes from a small offset (restart + skip when going backwards)
                small = r.choice([0, unit, 7 * unit])
                ops.append(seek_op(r, small, pos, n))
                ops.append(seek_op(r, min(n, small + t), small, n))
                pos = min(n, small + t)
            elif c < 0.8:
                ops.append(seek_op(r, t, pos, n))
                pos = t
            else:
                ops.append(seek_op(r, 0, pos, n))
                k = min(n, t)
                ops.append("R %d" % k)
                pos = k
            if r.random() < 0.2:
                ops.append(r.choice(["T", "Q"]))
            left = n - pos
            if left > 0:
                k = min(left, r.choice([unit, 3 * unit, 40 * unit, max(unit, (bufs[-1] + 1) - (bufs[-1] + 1) % unit)]))
                ops.append("R %d" % k)
                pos += k
    if r.random() < 0.5:
        aimed(ops, n)
    ops += ["E", "Z", "X"]
    if r.random() < 0.7:
        ops.append("C")
    ops.append("OR")
    aimed(ops, 0)
    ops.append("E")
    return "E %d %s %d %s" % (coder, " ".join(map(str, p)), len(ops), " ".join(ops))


def gen_bit_block_case(r, sizes):
    """bit element stored with Hputelement: k whole 4096-byte bit-I/O blocks plus a SHORT last block; reads of every
    width that cross block boundaries through both refill paths (whole-byte loop: widths >= 8, partial byte: 1..7),
    then bit seeks inside the last block, back into earlier blocks and forward again"""
    B = sizes["BITBUF_SIZE"]
    k = r.choice([1, 1, 2])
    L = k * B + r.choice([1, 2, 5, 100, 196, r.randrange(1, B - 1)])
    data = [r.randrange(256) for _ in range(L)]
    total = 8 * L
    ops = ["or"]
    pos = 0

    def rd(c):
        nonlocal pos
        c = min(c, total - pos)
        if c > 0:
            ops.append("r %d" % c)
            pos += c

    def sk(p):
        nonlocal pos
        p = max(0, min(total, p))
        ops.append("s %d %d" % (p // 8, p % 8))
        pos = p
    style = r.choice(["seq", "jump", "jump"])
    if style == "seq":
        # sequential reads from shortly before the first boundary to shortly behind the last one
        w = r.choice([32, 17, 8, 9, 31])
        sk(8 * (B - r.randrange(8, 60)))
        while pos < total - 64 and pos < 8 * (B + 40):
            rd(w if r.random() < 0.9 else r.choice([1, 7, 32]))
    else:
        for blk in range(1, k + 1):
            sk(8 * (blk * B) - r.choice([1, 3, 8, 9, 17, 40, 64]))
            for _ in range(r.randrange(1, 5)):
                rd(r.choice([8, 16, 32, 32, 17, 9, 1, 5, 7]))
    for _ in range(r.randrange(4, 12)):
        c = r.random()
        if c < 0.25:
            # exactly the first byte of a block, with and without a bit offset, coming from the block before it
            blk = r.randrange(1, k + 1)
            if r.random() < 0.6:
                sk(8 * (blk - 1) * B + r.randrange(0, 8 * B - 8))
                if r.random() < 0.5:
                    rd(r.choice([1, 8, 13]))
            sk(8 * blk * B + r.choice([0, 1, 2, 3, 4, 5, 6, 7, 1, 7]))
        elif c < 0.5:
            sk(8 * k * B + r.randrange(0, 8 * (L - k * B)))          # inside the short last block
        elif c < 0.75:
            sk(r.randrange(0, total))
        else:
            sk(8 * r.randrange(1, k + 1) * B - r.randrange(0, 40))   # just before a block boundary
        for _ in range(r.randrange(1, 4)):
            rd(r.choice([1, 3, 7, 8, 9, 13, 16, 32, 32]))
    ops.append("e 0")
    return "BI %d %s %d %s" % (L, " ".join(map(str, data)), len(ops), " ".join(ops))


def gen_bit_rewrite_case(r, sizes, tier="quick"):
    """a bit element longer than one 4096-byte buffer that already exists (stored with Hputelement) is opened with
    Hstartbitwrite and overwritten with wide and narrow fields across its block boundaries (after a bit seek to
    shortly before a boundary; in the thorough tier also from the very start); then it is read back"""
    B = sizes["BITBUF_SIZE"]
    k = r.choice([1, 2])
    L = k * B + r.choice([1, 100, 700, B - 1])
    data = [r.randrange(256) for _ in range(L)]
    total = 8 * L
    ops = ["ow"]
    wide = r.choice([[32], [32, 17, 9], [24, 32, 13], [8, 32], [32, 31, 16, 1]])
    touched = []
    starts = [8 * (blk * B) - r.choice([8, 16, 24, 40, 48, 13, 29]) for blk in range(1, k + 1)]
    if tier != "quick" and r.random() < 0.3:
        starts = [0]
    for p in starts:
        if p > 0:
            ops.append("s %d %d" % (p // 8, p % 8))
        stop = min(total, (p if p > 0 else 0) + (8 * (B + 60) if p == 0 else 8 * r.choice([12, 20, 40])))
        pos = p
        while pos < stop:
            c = min(r.choice(wide), stop - pos)
            ops.append("w %d %d" % (c, r.getrandbits(c)))
            pos += c
        touched.append((p, pos))
    ops += ["e 0", "x", "or"]
    for (p, q) in touched:
        a = max(0, p - 24)
        ops.append("s %d %d" % (a // 8, a % 8))
        while a < min(total, q + 24):
            c = min(total - a, r.choice([32, 17, 8, 5]))
            ops.append("r %d" % c)
            a += c
    ops.append("s 0 0")
    ops.append("r 32")
    ops.append("e 0")
    return "BI %d %s %d %s" % (L, " ".join(map(str, data)), len(ops), " ".join(ops))


def gen_bit_long_write_case(r, sizes, tier="quick"):
    """bit element WRITTEN across block boundaries, then read back with seeks across them"""
    B = sizes["BITBUF_SIZE"]
    ops, nbits = [], 0
    target = 8 * (B + r.choice([3, 100] if tier == "quick" else [3, 100, B // 2, B + 7]))
    while nbits < target:
        c = r.choice([32, 32, 32, 31, 17, 8, 3, 1])
        ops.append("w %d %d" % (c, r.getrandbits(c)))
        nbits += c
    ops += ["e %d" % r.randrange(2), "x", "or"]
    pos = 0
    for _ in range(r.randrange(6, 14)):
        p = r.choice([8 * B - r.randrange(0, 70), 8 * B + r.randrange(0, 70), r.randrange(0, nbits), 8 * 2 * B - r.randrange(0, 50)])
        p = max(0, min(nbits, p))
        ops.append("s %d %d" % (p // 8, p % 8))
        pos = p
        for _ in range(r.randrange(1, 4)):
            c = min(nbits - pos, r.choice([1, 7, 8, 9, 17, 32, 32]))
            if c > 0:
                ops.append("r %d" % c)
                pos += c
    ops.append("e 0")
    return "B %d %s" % (len(ops), " ".join(ops))


def seek_op(r, target, pos, n):
    """Hseek to an absolute target expressed through a random origin: DF_START, DF_CURRENT (relative to the current
    position) or DF_END (relative to the length of the uncompressed data)"""
    c = r.random()
    if c < 0.5:
        return "S %d" % target
    if c < 0.75:
        return "SC %d" % (target - pos)
    return "SE %d" % (target - n)


def read_phase(r, ops, n, unit, pos=0):
    """reads and seeks (all three origins) inside [0, n] starting at position pos, with Htell / Hinquire probes;
    appends ops, returns the final position"""
    for _ in range(r.randrange(1, 9)):
        c = r.random()
        if c < 0.35:
            off = r.choice([0, n, r.randrange(0, n + 1), max(0, pos - unit), min(n, pos + unit)])
            off -= off % unit
            ops.append(seek_op(r, off, pos, n))
            pos = off
        else:
            left = n - pos
            if left <= 0:
                if r.random() < 0.3:
                    ops.append("R 0")
                continue
            k = r.choice([unit, unit, 2 * unit, 3 * unit, left, r.randrange(1, left + 1), r.randrange(1, left + 1), 0])
            k -= k % unit
            k = min(k, left)
            if k == 0 and r.random() < 0.7:
                k = min(unit, left)
            ops.append("R %d" % k)
            pos += k if k else left
        if r.random() < 0.25:
            ops.append(r.choice(["T", "Q"]))
    return pos


def between_writes(r, ops, written):
    """between two sequential Hwrite calls: seeks that do not move the position (to the bytes written so far from the
    start, 0 from the current position, 0 from the end) and Htell / Hinquire probes"""
    c = r.random()
    if c < 0.25:
        ops.append(r.choice(["S %d" % written, "SC 0", "SE 0"]))
        if r.random() < 0.3:
            ops.append(r.choice(["S %d" % written, "SC 0", "SE 0"]))
    elif c < 0.35:
        ops.append(r.choice(["T", "Q"]))


def gen_element_case(r, tier):
    coder, p, unit = gen_coder(r)
    n = pick_size(r, tier)
    n -= n % unit
    n = max(n, unit)
    data = gen_data(r, n, unit)
    ops = []
    i = 0
    parts = partition(r, n, unit)
    for k in parts:
        ops.append("W %d %s" % (k, " ".join(map(str, data[i:i + k]))))
        i += k
        between_writes(r, ops, i)
    final = n
    c = r.random()
    if c < 0.3:
        # rewrite in full from the start (new length >= old length)
        p0 = n
        if r.random() < 0.15:
            p0 = read_phase(r, ops, n, unit, n)
        n2 = n + r.choice([0, 0, unit, 5 * unit, r.randrange(0, 200) * unit])
        d2 = gen_data(r, n2, unit)
        ops.append(seek_op(r, 0, p0, n))
        i = 0
        parts2 = [n2] if coder in (1, 3, 4) else partition(r, n2, unit)
        for k in parts2:
            ops.append("W %d %s" % (k, " ".join(map(str, d2[i:i + k]))))
            i += k
            if i >= n:
                between_writes(r, ops, i)
        final = n2
    elif c < 0.38:
        # append more after reading back on the same id
        p1 = read_phase(r, ops, n, unit, n)
        ops.append(seek_op(r, n, p1, n))
        m = r.randrange(1, 60) * unit
        d2 = gen_data(r, m, unit)
        ops.append("W %d %s" % (m, " ".join(map(str, d2))))
        final = n + m
    if r.random() < 0.4:
        read_phase(r, ops, final, unit, final)
    if r.random() < 0.3:
        ops.append(r.choice(["T", "Q"]))
    ops.append("E")
    ops += ["Z", "X"]
    for _ in range(r.randrange(1, 3)):
        if r.random() < 0.5:
            ops.append("C")
        ops.append("OR")
        read_phase(r, ops, final, unit)
        ops.append("E")
    if r.random() < 0.08:
        # reopen for writing and append
        ops.append("OW")
        ops.append(seek_op(r, final, 0, final))
        m = r.randrange(1, 40) * unit
        d2 = gen_data(r, m, unit)
        ops.append("W %d %s" % (m, " ".join(map(str, d2))))
        final += m
        ops += ["E", "Z", "X", "OR", "R 0", "E"]
    nops = len(ops)
    return "E %d %s %d %s" % (coder, " ".join(map(str, p)), nops, " ".join(ops))


def gen_bit_case(r, tier):
    ops = []
    nbits = 0
    bits = []
    nw = r.choice([1, 2, 5, 20, 60, 300]) if r.random() < 0.9 else 1400
    for _ in range(nw):
        c = r.choice([1, 1, 2, 3, 7, 8, 8, 9, 15, 16, 17, 24, 31, 32, 32, r.randrange(1, 33)])
        v = r.choice([0, (1 << c) - 1, r.getrandbits(c), r.getrandbits(32)])
        ops.append("w %d %d" % (c, v))
        nbits += c
        if r.random() < 0.05 and nbits % 8 == 0 and nbits > 0:
            # overwrite in the middle, then come back to the end
            by = r.randrange(0, nbits // 8 + 1)
            bi = r.randrange(0, 8) if by < nbits // 8 else 0
            ops.append("s %d %d" % (by, bi))
            room = nbits - (8 * by + bi)
            if room > 0:
                c2 = min(room, r.choice([1, 3, 8, 13, 32]))
                if r.random() < 0.7:
                    ops.append("w %d %d" % (c2, r.getrandbits(c2)))
                else:
                    ops.append("r %d" % c2)
            ops.append("s %d 0" % (nbits // 8))
    ops.append("e %d" % r.choice([0, 1]))
    ops.append("x")
    total = nbits
    for _ in range(r.randrange(1, 3)):
        ops.append("or")
        pos = 0
        for _ in range(r.randrange(1, 40)):
            if r.random() < 0.2:
                pos = r.randrange(0, total + 1)
                ops.append("s %d %d" % (pos // 8, pos % 8))
            left = total - pos
            if left <= 0:
                continue
            c = min(left, r.choice([1, 1, 2, 7, 8, 9, 16, 23, 31, 32, r.randrange(1, 33)]))
            ops.append("r %d" % c)
            pos += c
        ops.append("e 0")
    return "B %d %s" % (len(ops), " ".join(ops))


# --------------------------------------------------------------------------------------------------
# running and comparing
# --------------------------------------------------------------------------------------------------

def tools(ctx):
    exe = ctx.harness("drive_comp", ["drive_comp.c"])
    mod = ctx.model("comp_model", ["comp_main.ml"], ["comp_model"])
    return exe, mod


def run_batch(ctx, lines, tag, model=True):
    exe, mod = tools(ctx)
    p = os.path.join(ctx.bdir, "harness", "c05-%s-%d.in" % (tag, os.getpid()))
    scratch = os.path.join(ctx.bdir, "harness", "c05-%s-%d.hdf" % (tag, os.getpid()))
    with open(p, "w") as fh:
        fh.write("\n".join(lines) + "\n")
    import time
    t0 = time.time()
    # the library normally needs about a second for a whole batch: a run that does not come back is a hang in the
    # library on the first case without output, handled like a crash (rc 124)
    rc, R = vc.run_lines(exe, p, timeout=90 if ctx.tier == "quick" else 600, args=[scratch])
    R = [l for l in R if l.startswith("R ") or l == "R"]
    t1 = time.time()
    if not model:
        os.unlink(p)
        if os.path.exists(scratch):
            os.unlink(scratch)
        return rc, R, None
    rcm, out = vc.run_lines(mod, p, timeout=1500)
    vc.log("batch %s: %d cases, library %.1fs, model %.1fs" % (tag, len(lines), t1 - t0, time.time() - t1))
    os.unlink(p)
    if os.path.exists(scratch):
        os.unlink(scratch)
    S = []
    MB.clear()
    for l in out:
        if l.startswith("M ") and S:
            MB[len(S) - 1] = l
        else:
            S.append(l)
    if rcm != 0 or len(S) != len(lines):
        raise vc.BuildError("model driver failed (rc=%d, %d lines for %d cases): %s" % (rcm, len(S), len(lines), S[-3:]))
    return rc, R, S


MB = {}


def model_lines(ctx, vlines, tag):
    """run model-only directive lines (V ...) through the extracted model driver"""
    if not vlines:
        return []
    _, mod = tools(ctx)
    p = os.path.join(ctx.bdir, "harness", "c05-%s-%d.min" % (tag, os.getpid()))
    with open(p, "w") as fh:
        fh.write("\n".join(vlines) + "\n")
    import time
    t0 = time.time()
    rcm, out = vc.run_lines(mod, p, timeout=1500)
    vc.log("model V phase: %d streams, %.1fs" % (len(vlines), time.time() - t0))
    os.unlink(p)
    if rcm != 0 or len(out) != len(vlines):
        raise vc.BuildError("model driver failed on V lines (rc=%d, %d of %d)" % (rcm, len(out), len(vlines)))
    return out


def vline(line, info):
    """V directive for an element case whose stored form was dumped"""
    t = line.split()
    if t[0] != "E" or info["raw"] is None or info["hdr"] is None or len(info["hdr"]) < 20 or info["raw"] in ("!",):
        return None
    cref = int(info["hdr"][16:20], 16)
    return "V %s %s %d %d %s %s" % (t[1], " ".join(t[2:7]), len(info["data"]) // 2, cref, info["data"] or "-",
                                  info["raw"] if info["raw"] not in ("", "-") else "-")


def check_model(line, info, mline, sig):
    """(verdict, detail): verdict 'ok' | 'format' (raw stream wrong under the Coq decoder: a failing input)
    | 'tie' (library and model differ although the data round-trips: correspondence broken)"""
    f = dict(x.split("=", 1) for x in mline[2:].split())
    data, raw = info["data"], (info["raw"] if info["raw"] not in ("-",) else "")
    if f["dec"] != "na" and f["dec"] != "h" + data:
        return "format", "raw DFTAG_COMPRESSED stream decodes under the extracted Coq decoder to %s, stored data %s" % (f["dec"][:60], data[:60])
    if f["hdr"] != info["hdr"]:
        return "tie", "description record: library %s, model hdr_record %s" % (info["hdr"], f["hdr"])
    enc = f["enc"][1:]
    if line.split()[1] in ("2", "3"):
        # bit-level coders: the bits that complete the last byte are whatever the 4096-byte bit buffer held
        enc = enc[:-2]
    if sig is None and f["enc"] != "na" and not raw.startswith(enc):
        return "tie", "encoder output: library %s..., model %s..." % (raw[:80], f["enc"][1:81])
    return "ok", ""


def gen_header_cases(r, n):
    out = []
    for _ in range(n):
        c = r.choice([0, 1, 2, 2, 3, 3, 4])
        if c == 2:
            p = [r.choice(list(NT) + [r.randrange(1, 2 ** 31 - 1)]), r.choice([0, 1, 65535, r.randrange(65536)]),
                 r.choice([0, 1, r.randrange(65536)]), r.choice([0, 7, 31, r.randrange(2 ** 31)]), r.choice([1, 8, 32, r.randrange(2 ** 31)])]
        elif c == 3:
            p = [r.choice([1, 2, 4, 8, 255, 65536, r.randrange(1, 2 ** 31)]), 0, 0, 0, 0]
        elif c == 4:
            p = [r.randrange(0, 10), 0, 0, 0, 0]
        else:
            p = [0] * 5
        out.append("H %d %s" % (c, " ".join(map(str, p))))
    for _ in range(n // 2):
        c = r.choice([0, 1, 2, 3, 4])
        body = [r.randrange(256) for _ in range(20)]
        if c == 2:
            body[0] &= 0x7f
            body[8] &= 0x7f
            body[12] &= 0x7f
        if c == 3:
            body[0] &= 0x7f
        out.append("D 24 0 0 0 %d %s" % (c, " ".join(map(str, body))))
    return out



def compare_tokens(line, rline, sline):
    """returns (ok, detail, nontrivial, info)"""
    rt = rline[2:].split("|") if rline is not None else None
    st = sline[2:].split("|")
    info = {"raw": None, "hdr": None, "data": None, "comp": None}
    if rt is None:
        return False, "library crashed (no output line)", True, info
    moved = False
    for i, s in enumerate(st):
        if s == "?":
            break
        if i >= len(rt):
            return False, "library produced %d results, expected %d" % (len(rt), len(st)), True, info
        r = rt[i]
        if s.startswith("z"):
            if not r.startswith("z"):
                return False, "op %d: size query failed (%s), expected %s" % (i, r, s), True, info
            comp, orig = r[1:].split(",")
            info["comp"] = int(comp)
            if int(orig) != int(s[1:]):
                return False, "op %d: uncompressed size reported %s, stored %s" % (i, orig, s[1:]), True, info
            continue
        if s.startswith("x"):
            if not r.startswith("x"):
                return False, "op %d: raw dump failed (%s)" % (i, r), True, info
            hdr, raw = r[1:].split(",")
            info["hdr"], info["raw"], info["data"] = hdr, raw, s[1:]
            if info["comp"] is not None and raw not in ("-", "!") and len(raw) // 2 != info["comp"] and int(s and len(s[1:]) // 2) > 0:
                return False, "op %d: compressed size reported %d, stored %d" % (i, info["comp"], len(raw) // 2), True, info
            continue
        if line[0] == "B" and r.startswith("x,"):
            info["bitraw"] = r[2:]
            continue
        if s.startswith("b") or s.startswith("v"):
            moved = moved or len(s) > 1
        if r != s:
            return False, "op %d: library %s, specification %s" % (i, r[:80], s[:80]), True, info
    return True, "", moved, info


def check_raw(line, info):
    """format check of the raw stream for coders the Python side can decode itself (none, deflate)"""
    toks = line.split()
    if toks[0] != "E" or info["raw"] is None or info["data"] is None:
        return True, ""
    coder = int(toks[1])
    raw = bytes.fromhex(info["raw"]) if info["raw"] not in ("-", "!") else b""
    data = bytes.fromhex(info["data"])
    if coder == 0:
        if raw[:len(data)] != data:
            return False, "raw stream of coder NONE differs from the data"
    elif coder == 4 and data:
        try:
            d = zlib.decompressobj().decompress(raw)
        except zlib.error as e:
            return False, "raw deflate stream does not inflate: %s" % e
        if d[:len(data)] != data:
            return False, "raw deflate stream inflates to other data"
    return True, ""


def signature(line):
    """Call-pattern tag of histories that leave the property's core domain (one uninterrupted write sequence per
    access id) but that the library accepts: an append that follows a read/seek on the same access id, or an
    append on an id obtained by Hstartwrite on an existing element.  None for core-domain histories."""
    l = line.split()
    if l[0] == "B":
        seen_r = False
        for t in l[2:]:
            if t in ("e", "or", "ow"):
                seen_r = False
            elif t == "r":
                seen_r = True
            elif t == "w" and seen_r:
                return "bit-write-after-read"
        return None
    if l[0] != "E":
        return None
    coder = l[1]
    found = []
    i, pos, length, flag, reopened = 8, 0, 0, False, False
    while i < len(l):
        t = l[i]
        if t == "W":
            k = int(l[i + 1])
            if pos > 0 and reopened:
                found.append("append-after-reopen:coder=" + coder)
            elif pos > 0 and flag:
                found.append("append-after-read:coder=" + coder)
            elif flag:
                found.append("rewrite-after-read:coder=" + coder)
            pos += k
            length = max(length, pos)
            i += 2 + k
        elif t in ("S", "SC", "SE"):
            a = int(l[i + 1])
            npos = a if t == "S" else (pos + a if t == "SC" else length + a)
            if npos != pos:
                flag = True          # a seek to the current position is part of a plain sequential write
            pos = npos
            i += 2
        elif t == "R":
            k = int(l[i + 1])
            pos = min(length, pos + k) if k else length
            flag = True
            i += 2
        else:
            if t in ("OR", "OW"):
                pos, flag, reopened = 0, False, t == "OW"
            i += 1
    return found or None


def pick_sig(ctx, sigs):
    """a history may contain several out-of-core-domain call patterns: the one that is a recorded finding explains
    the failure; otherwise the first pattern (unrecorded -> VIOLATION)"""
    if not sigs:
        return None
    if isinstance(sigs, str):
        return sigs
    for sg in sigs:
        if ctx.match_known(sg) is not None:
            return sg
    return sigs[0]


def run(ctx):
    r = ctx.rng
    n_el = 260 if ctx.tier == "quick" else 2000
    n_bit = 80 if ctx.tier == "quick" else 600
    lines = []
    cdir = os.path.join(vc.VERIF, "corpus", "C05")
    ncorpus = 0
    if os.path.isdir(cdir):
        for fn in sorted(os.listdir(cdir)):
            for l in open(os.path.join(cdir, fn)).read().splitlines():
                if l and not l.startswith("#"):
                    lines.append(l)
                    ncorpus += 1
    lines += [gen_element_case(r, ctx.tier) for _ in range(n_el)]
    lines += [gen_bit_case(r, ctx.tier) for _ in range(n_bit)]
    lines += gen_header_cases(r, 60 if ctx.tier == "quick" else 600)
    sizes = gen_sizes()
    reps = 1 if ctx.tier == "quick" else 6
    for _ in range(reps):
        lines += [gen_boundary_element(r, sizes, w) for w in ("none", "rle", "skp", "defl", "defl", "nbit", "nbit")]
        lines += [gen_bit_block_case(r, sizes) for _ in range(6)]
        lines += [gen_bit_long_write_case(r, sizes, ctx.tier) for _ in range(1 if ctx.tier == "quick" else 2)]
        lines += [gen_bit_rewrite_case(r, sizes, ctx.tier) for _ in range(3)]
    # the harness stops at a sanitizer report; restart it behind the crashing case so every case is explored
    R, S, rcs, start, mball = [], [], [], 0, {}
    while start < len(lines):
        rc, r1, s1 = run_batch(ctx, lines[start:], "main", model=(start == 0))
        if start == 0:
            S = s1
            mball = dict(MB)
        rcs.append(rc)
        R += r1
        if len(r1) >= len(lines) - start:
            break
        R.append(None)
        start += len(r1) + 1
        if len(rcs) > 40:
            break
    stats = {"cases": len(lines), "corpus": ncorpus, "harness_rcs": rcs, "by_kind": {}, "by_coder": {}, "ops": 0,
             "ext_domain": {}, "crashes": 0}
    vjobs = []
    for i, line in enumerate(lines):
        if i >= len(R):
            break
        rl = R[i]
        ok, detail, nontrivial, info = compare_tokens(line, rl, S[i])
        toks = line.split()
        kind = toks[0]
        stats["by_kind"][kind] = stats["by_kind"].get(kind, 0) + 1
        if kind == "E":
            stats["by_coder"][toks[1]] = stats["by_coder"].get(toks[1], 0) + 1
        sigs = signature(line)
        sig = pick_sig(ctx, sigs)
        for sg in ([sigs] if isinstance(sigs, str) else (sigs or [])):
            stats["ext_domain"][sg] = stats["ext_domain"].get(sg, 0) + 1
        stats["ops"] += S[i].count("|")
        if rl is None:
            stats["crashes"] += 1
        if ok:
            ok, detail = check_raw(line, info)
        if ok:
            v = vline(line, info)
            if v:
                vjobs.append((i, v, info, sig))
        ctx.case(line, nontrivial, sample={"case": line[:160], "lib": (rl or "")[:120]} if i % 53 == 0 else None)
        if not ok:
            ctx.violation("library differs from the specification: " + detail,
                          "# C05 replay (bin/check C05 --replay <this file>)\n# " + detail + "\n" + line +
                          "\n# library:       " + (rl or "crash (sanitizer report / signal) or hang (no answer within the time limit)") + "\n# specification: " + S[i],
                          found=True, signature=sig)
            if len(ctx.violations) >= 3:
                break
    # model phase: decode the library's raw streams with the extracted Coq decoders, compare encoders and records
    mstats = {"verified_streams": 0, "encoder_compared": 0, "bit_histories_on_model": 0, "by_coder": {}}
    mout = model_lines(ctx, [v for _, v, _, _ in vjobs], "v") if not ctx.violations else []
    for (i, v, info, sig), ml in zip(vjobs, mout):
        verdict, detail = check_model(lines[i], info, ml, sig)
        mstats["verified_streams"] += 1
        mstats["encoder_compared"] += 1 if sig is None else 0
        c = lines[i].split()[1]
        mstats["by_coder"][c] = mstats["by_coder"].get(c, 0) + 1
        if verdict == "format":
            ctx.violation("stored form violates the format: " + detail,
                          "# C05 replay\n# " + detail + "\n" + lines[i] + "\n# " + v[:400] + "\n# " + ml[:400], found=True, signature=sig)
        elif verdict == "tie":
            ctx.violation("correspondence model~library broken (data still round-trips): " + detail,
                          "# C05: relation M~R no longer holds: " + detail + "\n" + lines[i] + "\n# " + ml[:400], found=False)
        if len(ctx.violations) >= 3:
            break
    # bit histories: model line against library line
    for idx, ml in sorted(mball.items()):
        if idx >= len(R) or R[idx] is None or ctx.violations:
            continue
        rt, mt = R[idx][2:].split("|"), ml[2:].split("|")
        mstats["bit_histories_on_model"] += 1
        for k, m in enumerate(mt):
            if m == "?":
                break
            if k >= len(rt) or (rt[k] != m and not (m.startswith("x,") and rt[k].startswith("x,") and
                                                    rt[k][2:].startswith(m[2:-2]))):
                ctx.violation("correspondence bit-I/O model~library broken at op %d: library %s, model %s" % (k, rt[k][:60] if k < len(rt) else "-", m[:60]),
                              "# C05: relation bw_write/br_read ~ Hbitwrite/Hbitread no longer holds\n" + lines[idx] +
                              "\n# library: " + R[idx][:600] + "\n# model:   " + ml[:600], found=False)
                break
    ctx.corr("library~model", **mstats)
    if len(R) < len(lines) and not ctx.violations:
        ctx.violation("harness kept crashing; %d of %d cases explored" % (len(R), len(lines)),
                      "# C05: harness restarted %d times\n" % len(rcs) + lines[min(len(R), len(lines) - 1)], found=True)
    ctx.corr("library~spec", **stats)


def replay(ctx, path):
    lines = [l for l in open(path).read().splitlines() if l and not l.startswith("#")]
    rc, R, S = run_batch(ctx, lines, "replay")
    bad = 0
    for i, line in enumerate(lines):
        rl = R[i] if i < len(R) else None
        ok, detail, _, info = compare_tokens(line, rl, S[i])
        if ok:
            ok, detail = check_raw(line, info)
        print("case:", line[:300])
        print(" R:", rl)
        print(" " + S[i])
        print(" verdict:", "agree" if ok else "DIFFER: " + detail)
        bad += 0 if ok else 1
    return 1 if bad else 0
