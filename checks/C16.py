"""C16 -- I/O failures are reported, never silently swallowed, never corrupt memory.

R (library under the stdio fault interposer, harness/drive_fault.c) vs S (coq/FaultSpec.v `judge`, extracted):
every workload x every index k of a stdio call of its fault-free run x {single, sticky} fault.
R vs M (coq/FaultModel.v error-flow model of the L1 close path, extracted): function-level runs of
HPseek / HP_write / HP_read / HIextend_file / HTPsync / HIsync / Hsync / Hclose on real file records, every fault
index, return value and device-call trace compared exactly."""
import os
import re
import shutil
from concurrent.futures import ThreadPoolExecutor
import vcommon as vc

WRAPS = ["fopen", "fread", "fwrite", "fseek", "ftell", "fflush", "fclose"]
WORKLOADS = ["h_put", "h_putc", "h_put16", "h_linked", "h_linkedc", "h_update", "h_updatec", "h_read",
             "v_write", "v_update", "v_read", "sd_write", "sd_chunk", "sd_update", "sd_read", "sd_cread",
             "gr_write", "gr_read", "an_write", "an_read",
             "sd_dims", "sd_inq", "sd_cinq", "h_special", "h_inq", "v_attr", "v_inq", "v_inq1", "gr_more", "gr_inq",
             "gr_inq1", "sd_scalar", "sd_sread", "nc_write", "nc_update", "nc_read", "h_append", "v_append", "sd_append",
             "sd_wrinq", "gr_wrinq", "v_wrinq", "h_two", "sd_two", "v_two"]
# workloads that write: repeated with DD caching switched off (variant bit 2: every descriptor update and every new DD
# block is written through at once -- code the default configuration never runs) and, sampled, with a program that
# ignores failures and goes on issuing calls (variant bit 4)
WRITE_WL = ["h_put", "h_putc", "h_put16", "h_linked", "h_linkedc", "h_update", "h_updatec", "v_write", "v_update",
            "sd_write", "sd_chunk", "sd_update", "gr_write", "an_write", "sd_dims", "h_special", "v_attr", "gr_more",
            "sd_scalar", "nc_write", "nc_update", "h_append", "v_append", "sd_append",
            "sd_wrinq", "gr_wrinq", "v_wrinq", "h_two", "sd_two", "v_two"]
FN_SCEN = {"plain": ["Hclose", "HIsync", "Hsync", "HTPsync", "HIextend_file", "HP_write 7", "HPseek 10", "HPseekcur"],
           "nocache": ["Hclose", "HIsync", "HP_write 3", "HPseek 0"],
           "cache": ["Hclose", "HIsync", "Hsync", "HTPsync", "HIextend_file", "HP_write 1"],
           "cache16": ["Hclose", "HIsync", "HTPsync"],
           "reopen": ["Hclose", "Hsync", "HP_read 4", "HPseek 30"],
           "read": ["Hclose", "HP_read 4", "HPseek 2", "HPseekcur"],
           "rdwr": ["HP_write 5", "HP_read 3", "HPseekcur", "HPseek 0", "Hclose", "HIextend_file"],
           "attached": ["Hclose"],
           "two": ["Hclose", "Hsync"],
           "twoatt": ["Hclose"],
           "ncfull": ["HTInew_dd_block", "HPgetdiskblock 50", "HTIupdate_dd 2", "Hclose"],
           "cfull": ["HTInew_dd_block", "HPgetdiskblock 50", "HTIupdate_dd 2", "Hclose"],
           "ncfull2": ["HTInew_dd_block", "HTIupdate_dd 1"],
           "cfull2": ["HTInew_dd_block", "Hclose"]}

RULE = ("45 workload programs (20 of the first round + dimension/special-element/inquiry workloads + rank-0 data sets, the netCDF-2 calls on an HDF file, append-only sessions, inquiry/read calls on objects written in the same session, two file ids on one file; H elements incl. linked blocks, DD-block overflow, cache on/off, update and read of "
        "existing files; Vdata/Vgroup write, update, read; SD write incl. unlimited, chunked, chunked+deflate, RLE, "
        "deflate, update, read; GR write incl. palette and deflate, read; AN write, read); for each, the fault-free run "
        "counts the stdio calls (fopen/fread/fwrite/fseek/ftell/fflush/fclose) and then EVERY index k is made to fail, "
        "once as a single fault and once sticky (k and all later calls), transfers of failing fread/fwrite = nothing "
        "(errno EIO); a PRNG-chosen (VERIF_SEED) third of the indices (thorough: all) is repeated with strict-prefix "
        "transfers (errno ENOSPC), and half of them (thorough: all, gaps 1,2,3,5,8,13,21) with a second independent single "
        "fault at index k+gap. The 30 writing workloads are run a second time in full with DD caching switched off "
        "(Hcache(CACHE_ALL_FILES, FALSE): descriptor updates and new DD blocks written through), and for half of their "
        "indices (thorough: all) with a program that ignores failures and issues every remaining call. Each run is a child process under ASan/UBSan with a 3 s time limit (a hung job is a violation; a harness stops after 3 hung jobs); recorded: every "
        "API return value, exit status, final file bytes and a hash of all data read, compared with the fault-free "
        "run. Function level: 14 prepared file records x up to 8 L1 functions x every fault index x single/sticky. "
        "A case is non-trivial when the injected fault actually hit (nfaults > 0); distinct by (workload, mode, k, "
        "variant)")
TRUSTED = ["Coq 8.16.1 kernel (vm_compute only on closed finite terms)",
           "translator gen/gen_consts.py + plugin gen/plugins/fault_sites.py (wrapper-macro shapes; classification of "
           "I/O call sites as Checked/Late/Returned/OnFailPath/Dropped by source patterns, each site printed with its "
           "source text in coq/gen/Gen_Faults.v)",
           "extraction (ExtrOcamlBasic only; Z/N/positive/nat inductive); OCaml driver extract/fault_main.ml",
           "C harness harness/drive_fault.c + drive_fault_fn.h: the stdio interposer (-Wl,--wrap) and its fault "
           "semantics, the workload programs, process control; comparison in checks/C16.py",
           "modelled, not verified: glibc stdio buffering below the interposer (a failing fflush/fclose is simulated "
           "by __fpurge); interior of Hputelement inside HIupdate_version (Havoc node); control flow of the "
           "table-only anchored functions (Vdetach, VSdetach, HMCPcloseAID, ncclose, SDend ...) -- correspondence only",
           "crash / hang / invalid memory: decided by AddressSanitizer + UBSan + watchdog runs only"]
ASSUMPTIONS = ["faults are injected at the stdio boundary only (fopen fread fwrite fseek ftell fflush fclose); malloc "
               "failures, signals and faults below stdio are out of scope",
               "a workload stops issuing data calls at the first failing API call and goes on to release what it "
               "opened (as a careful program does); the final close is always issued",
               "workloads whose fault-free run is not byte-deterministic are reported in the coverage and not judged "
               "(none observed)"]

NPAR = 8


def fields(line):
    t = line.split()
    d = {"_ln": t[0]}
    for x in t[1:]:
        if "=" in x:
            k, v = x.split("=", 1)
            d[k] = v
    return d


def run_jobs(ctx, exe, jobs, tag):
    """run job lines through a harness binary, NPAR processes in parallel; returns output lines in job order"""
    if not jobs:
        return []
    chunks = [jobs[i::NPAR] for i in range(NPAR)]
    base = os.path.join(ctx.bdir, "harness", "c16-%s-%d" % (tag, os.getpid()))

    def one(i):
        if not chunks[i]:
            return []
        wd = "%s-%d" % (base, i)
        os.makedirs(wd, exist_ok=True)
        jf = os.path.join(wd, "jobs.txt")
        open(jf, "w").write("\n".join(chunks[i]) + "\n")
        # every job has its own 3 s limit inside the harness and a harness stops after 3 hung jobs; this outer limit
        # only guards against a harness that itself gets stuck
        rc, out = vc.sh([exe, wd, jf], timeout=60 + len(chunks[i]) // 20, env=vc.HARNESS_ENV)
        shutil.rmtree(wd, ignore_errors=True)
        return [l for l in out.splitlines() if re.match(r"^\d+ (wl=|fn |skipped-after-hangs)", l)]
    with ThreadPoolExecutor(NPAR) as ex:
        outs = list(ex.map(one, range(NPAR)))
    res = [None] * len(jobs)
    for i, o in enumerate(outs):
        for j, l in enumerate(o):
            if i + j * NPAR < len(jobs):
                res[i + j * NPAR] = l
    return res


def judge_lines(ctx, mod, lines, tag):
    p = os.path.join(ctx.bdir, "harness", "c16-%s-%d.out" % (tag, os.getpid()))
    open(p, "w").write("\n".join(l if l else "0 skip" for l in lines) + "\n")
    rc, out = vc.run_lines(mod, p, timeout=900)
    os.unlink(p)
    if rc != 0 or len(out) != len(lines):
        raise vc.BuildError("fault_model driver failed rc=%d (%d lines for %d)" % (rc, len(out), len(lines)))
    return out


def build(ctx):
    exe = ctx.harness("drive_fault", ["drive_fault.c"], wraps=WRAPS)
    exe_fn = ctx.harness("drive_fault_fn", ["drive_fault.c"], wraps=WRAPS,
                         extra=["-DC16_FN", "-I" + os.path.join(vc.REPO, "hdf", "src")])
    mod = ctx.model("fault_model", ["fault_main.ml"], ["fault_model"])
    return exe, exe_fn, mod


def signatures(d, verdict):
    """candidate signatures of a failing run for known-findings matching, computed from the failing input's own
    observables: the verdict and every caller>callee pair of library functions that were on the stack when the first
    injected fault hit (harness field where=, innermost first).  A recorded finding names ONE such pair, e.g. the
    fault was below Hlength called from hdf_read_vars; any violation elsewhere has no matching pair."""
    chain = [x for x in d.get("where", "-").split("<") if x and x != "-"]
    chain.reverse()                                    # outermost first
    return ["%s:%s>%s" % (verdict.lower(), a, b) for a, b in zip(chain, chain[1:])]


def run(ctx):
    exe, exe_fn, mod = build(ctx)
    r = ctx.rng
    stats = {"workloads": {}, "jobs": 0, "faults_hit": 0, "faults_by_stdio_call": {}, "verdicts": {}, "status": {},
             "absorbed_without_effect": 0, "failures_reported_by_call": {}, "nondeterministic_workloads": []}
    nviol = 0
    # ---- corpus (minimised earlier failures) first -----------------------------------------------------
    corpus = []
    cdir = os.path.join(vc.VERIF, "corpus", "C16")
    for fn in sorted(os.listdir(cdir)) if os.path.isdir(cdir) else []:
        corpus += [l.strip() for l in open(os.path.join(cdir, fn)) if l.strip() and not l.startswith("#")]
    wl_corpus = [l for l in corpus if not l.startswith("fn ")]
    fn_corpus = [l for l in corpus if l.startswith("fn ")]
    # ---- fault-free runs: number of stdio calls per workload ---------------------------------------------
    combos = [(w, 0) for w in WORKLOADS] + [(w, 2) for w in WRITE_WL]
    base = run_jobs(ctx, exe, ["%s n -1 %d" % c for c in combos], "base")
    jobs = list(wl_corpus)
    for (w, v0), l in zip(combos, base):
        if l is None:
            ctx.violation("fault-free run of workload %s produced no result" % w, "%s n -1 0" % w, found=True)
            nviol += 1
            continue
        d = fields(l)
        n = int(d["ncalls"])
        stats["workloads"][w + ("/nocache" if v0 else "")] = {"stdio_calls": n, "api_calls": len(d["rets"].split(",")),
                                                              "kinds": d.get("kinds", "")[:400]}
        if d["status"] != "ok" or d["allok"] != "1":
            ctx.violation("workload %s fails without any fault: %s" % (w, l[:300]), "%s n -1 0" % w, found=True)
            nviol += 1
            continue
        if d["nondet"] == "1":
            stats["nondeterministic_workloads"].append(w)
            continue
        for k in range(n):
            jobs.append("%s s %d %d" % (w, k, v0))
            jobs.append("%s t %d %d" % (w, k, v0))
            if ctx.tier == "thorough" or r.random() < 0.34:
                jobs.append("%s %s %d %d" % (w, r.choice("st"), k, v0 | 1))
            # two independent single faults: the second one hits clean-up / retry code after the first
            for gap in ((1, 2, 3, 5, 8, 13, 21) if ctx.tier == "thorough" else (r.choice((1, 2, 3, 5, 8, 13, 21)),)):
                if ctx.tier == "thorough" or r.random() < (0.3 if not v0 else 0.12):
                    jobs.append("%s s %d %d %d" % (w, k, v0, k + gap))
            # a program that ignores the failure and goes on (write workloads only: their calls need no results of
            # earlier calls other than ids, which the library must reject when they are invalid)
            if w in WRITE_WL:
                if ctx.tier == "thorough":
                    jobs += ["%s %s %d %d" % (w, m, k, v0 | 4 | b) for m in "st" for b in (0, 1)]
                elif r.random() < 0.3:
                    jobs.append("%s %s %d %d" % (w, r.choice("st"), k, v0 | 4 | r.choice((0, 1))))
    out = run_jobs(ctx, exe, jobs, "main")
    ver = judge_lines(ctx, mod, out, "main")
    stats["jobs"] = len(jobs)
    seen_sig = set()
    for job, l, v in zip(jobs, out, ver):
        if l is None:
            if nviol < 3:
                ctx.violation("harness produced no result for job " + job, job, found=True)
                nviol += 1
            continue
        if " skipped-after-hangs " in l:
            stats["skipped_after_hangs"] = stats.get("skipped_after_hangs", 0) + 1
            continue
        d = fields(l)
        vt = v.split()
        verdict = vt[2] if len(vt) > 2 else "?"
        hit = int(d["nfaults"]) > 0
        stats["verdicts"][verdict] = stats["verdicts"].get(verdict, 0) + 1
        stats["status"][d["status"]] = stats["status"].get(d["status"], 0) + 1
        if hit:
            stats["faults_hit"] += 1
            stats["faults_by_stdio_call"][d["fkind"]] = stats["faults_by_stdio_call"].get(d["fkind"], 0) + 1
        if "absorbed=1" in v and hit:
            stats["absorbed_without_effect"] += 1
        if d["allok"] == "0":
            for x in d["rets"].split(","):
                nm, rc_, ok = x.rsplit(":", 2)
                if ok == "0":
                    stats["failures_reported_by_call"][nm] = stats["failures_reported_by_call"].get(nm, 0) + 1
                    break
        ctx.case(job, hit, sample={"job": job, "status": d["status"], "first_failed_stdio_call": d["fkind"],
                                   "all_api_calls_ok": d["allok"], "same_file": d["same"], "verdict": verdict}
                 if hit and len(ctx.coverage["samples"]) < 5 and (verdict != "Holds" or r.random() < 0.01) else None)
        if verdict != "Holds":
            sigs = signatures(d, verdict)
            known = [x for x in sigs if ctx.match_known(x) is not None]
            if known:
                ctx.violation("known finding", "", found=True, signature=known[0])
                stats["known_finding_runs"] = stats.get("known_finding_runs", 0) + 1
                continue
            sig = "%s:%s:%s" % (verdict, d.get("wl"), ">".join(sigs[-1:]))
            if sig in seen_sig or nviol >= 3:
                continue
            seen_sig.add(sig)
            nviol += 1
            what = ("silent: every API call incl. the final close reported success but the %s differs from the fault-free run"
                    % ("file" if d["same"] != "1" else "data read")) if verdict == "Silent" else \
                   ("hang: the job was still running after its time limit (a fault-free job takes milliseconds)"
                    if d["status"] == "timeout" else "unsafe: the process ended with status %s" % d["status"])
            txt = ["# C16 replay: one fault-injection job  (<workload> <mode s=single|t=sticky> <k> <variant>)",
                   "# run: bin/check C16 --replay <this file>",
                   job,
                   "# library (R): " + l[:900],
                   "# specification (S): " + v,
                   "# fault hit below: " + d.get("where", "-")]
            ctx.violation("%s [%s, first failing stdio call '%s' at index %s]" % (what, d["wl"], d["fkind"], d["k"]),
                          "\n".join(txt), found=True)
    # ---- function level: R vs M --------------------------------------------------------------------------
    fjobs = list(fn_corpus)
    pre = []
    for sc, fns in FN_SCEN.items():
        for f in fns:
            name, arg = (f.split() + ["0"])[:2]
            pre.append("fn %s %s %s n -1" % (sc, name, arg))
    pout = run_jobs(ctx, exe_fn, pre, "fnbase")
    for j, l in zip(pre, pout):
        if l is None:
            continue
        d = fields(l)
        n = 0 if d.get("trace", "-") == "-" else len(d["trace"])
        fjobs.append(j)
        t = j.split()
        for k in range(n + 1):
            fjobs.append("fn %s %s %s s %d" % (t[1], t[2], t[3], k))
            if k < n:
                fjobs.append("fn %s %s %s t %d" % (t[1], t[2], t[3], k))
    fout = run_jobs(ctx, exe_fn, fjobs, "fn")
    fm = judge_lines(ctx, mod, fout, "fn")
    fstat = {"jobs": len(fjobs), "mismatches": 0, "returned_fail": 0, "faults_hit": 0, "functions": {}}
    for job, l, m in zip(fjobs, fout, fm):
        if l is None:
            continue
        if " skipped-after-hangs " in l:
            fstat["skipped_after_hangs"] = fstat.get("skipped_after_hangs", 0) + 1
            continue
        d = fields(l)
        mt = m.split()
        rr = "ret=%s trace=%s" % (d.get("ret"), d.get("trace"))
        mm = " ".join(mt[2:])
        hit = any(c.isupper() for c in d.get("trace", ""))
        fstat["faults_hit"] += hit
        fstat["returned_fail"] += d.get("ret") == "-1"
        fstat["functions"][d.get("f")] = fstat["functions"].get(d.get("f"), 0) + 1
        ctx.case("fn " + job, hit)
        swallowed = hit and d.get("ret") == "0"        # R vs S at function level: a failed device call, SUCCEED returned
        if d.get("status") != "ok" or rr != mm or swallowed:
            fstat["mismatches"] += 1
            if nviol < 3:
                nviol += 1
                txt = ["# C16 replay: function-level job  (fn <scenario> <function> <arg> <mode> <k>)",
                       "# run: bin/check C16 --replay <this file>", job,
                       "# library (R): " + l[:600], "# model   (M): " + m]
                ctx.violation("L1 function %s: library %s, model %s%s" % (
                    d.get("f"), rr, mm, " -- a failed device call was swallowed" if swallowed else ""),
                    "\n".join(txt), found=swallowed or d.get("status") != "ok")
    ctx.corr("workloads~FaultSpec.judge", **stats)
    ctx.corr("L1 functions~FaultModel", **fstat)


def replay(ctx, path):
    exe, exe_fn, mod = build(ctx)
    jobs = [l.strip() for l in open(path) if l.strip() and not l.startswith("#")]
    wl = [j for j in jobs if not j.startswith("fn ")]
    fn = [j for j in jobs if j.startswith("fn ")]
    for e, js, tag in ((exe, wl, "rw"), (exe_fn, fn, "rf")):
        if not js:
            continue
        out = run_jobs(ctx, e, js, tag)
        ver = judge_lines(ctx, mod, out, tag)
        for j, l, v in zip(js, out, ver):
            print("job: " + j)
            print("  R: " + (l or "<no result>"))
            print("  %s: %s" % ("M" if j.startswith("fn ") else "S", " ".join(v.split()[1:])))
            if l and not j.startswith("fn "):
                d = fields(l)
                bad = " ".join(v.split()[2:3]) != "Holds"
                print("  => %s" % ("PROPERTY VIOLATED on this input" if bad else "property holds on this input"))
            elif l:
                d = fields(l)
                print("  => %s" % ("R = M" if "ret=%s trace=%s" % (d.get("ret"), d.get("trace")) == " ".join(v.split()[2:])
                                   else "R differs from M"))
    return 0
