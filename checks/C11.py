"""C11 -- annotations stay attached to their objects and keep their text.
R (library, harness/drive_an.c) vs S (coq/ANSpec.v, extracted) vs M (coq/ANModel.v, extracted) on generated
histories of the multi-file AN interface and the single-file DFAN interface."""
import os
import re
import shutil
import vcommon as vc

RULE = ("histories of 2-6 phases over one, two or three files used alternately in one process (names where one is a "
        "prefix or suffix of another, or of equal length), each file with its own AN session and identifiers; DFAN "
        "bursts alternate between the files without DFANclear in between, also while another file's AN session is "
        "open; a phase is an AN session (ANstart .. ANend: ANcreate/ANcreatef on 9 "
        "interleaved targets, ANwriteann incl. rewrites longer and shorter, ANreadann with buffer sizes below/at/above "
        "the text length, ANannlen, ANselect, ANfileinfo, ANnumann, ANannlist, ANtagref2id, ANid2tagref, ANget_tagref, "
        "ANendaccess, an identifier bijection probe) or a DFAN phase on the closed file (DFANputlabel/DFANputdesc incl. "
        "replacement, DFANgetlabel/DFANgetdesc/len, DFANaddfid/DFANaddfds, enumeration of file labels/descriptions (as a "
        "whole loop and call by call: DFANgetfidlen/DFANgetfid/DFANgetfdslen/DFANgetfds with isfirst 1/0, label and "
        "description enumerations interleaved, with and without the length call, small buffers, beyond the end, "
        "restarts, after a completed enumeration, on the next file), DFANlablist paging (listsize 1..8, startpos 1..5), "
        "narrow AN sessions that load the trees of one or two types only, ANend + ANstart on the same open file id "
        "followed by a probe of all types, "
        "DFANlablist); texts of 1..300 bytes, descriptions with arbitrary bytes incl. NUL, labels NUL-free; up to ~25 "
        "annotations per file, several per object; every history ends with a reopen and a full read-back through both "
        "interfaces; all choices from one PRNG (VERIF_SEED); a light shadow state only steers weights; a malformed "
        "stream adds unbound identifiers, wrong types, zero tag/ref, out-of-range indices and calls outside a session "
        "(must FAIL).  A history is non-trivial when >= 1 annotation was written and read back; distinct by op text")
TRUSTED = ["Coq 8.16.1 kernel", "extraction (ExtrOcamlBasic only; Z/positive/nat inductive)",
           "translator gen/gen_consts.py + plugin gen/plugins/an_tables.py (constants, AN_CREATE_KEY/AN_KEY2REF/"
           "AN_KEY2TYPE, type<->tag switch tables, UINT16ENCODE/DECODE byte expressions, buffer-truncation conditions, the "
           "DFANIopen same-file test with strncmp/strlen mapped to coq/ANLang.v, the cursor/flag/restart conditions of "
           "DFANIgetfannlen/DFANIgetfann, the ANentry field ANget_tagref reports)",
           "OCaml drivers extract/anspec_main.ml, extract/anmodel_main.ml; C harness harness/drive_an.c; generator and "
           "comparison in checks/C11.py",
           "modelled, not verified: the element layer under the annotations (Hstartwrite/Hwrite/Hread/Hlength/"
           "HDreuse_tagref/Htagnewref/Hnumber are the byte-array and directory specification of C01/C12), the TBBT "
           "(an ordered list with unique keys), the atom table (a counter)"]
ASSUMPTIONS = ["domain: annotation texts are non-empty; label texts contain no NUL byte; read buffers have >= 1 byte "
               "(DFANlablist: >= 2); the DFAN calls are made while no AN session is open on the file and DFANclear() "
               "is called when an AN session ends (documented usage after a file was changed through another "
               "interface); an enumeration of file labels/descriptions is continued with isfirst = 0 only on the same file and "
               "only if no AN session, DFANaddfid/fds or whole enumeration came in between; one AN session per file at a time; file names are C strings shorter than DF_MAXFNLEN; refs stay far "
               "below 65535 (C20 covers the limit)",
               "where an object carries several labels/descriptions the single-annotation DFAN calls may return any "
               "of them (the model M says which one)"]

TARGETS = [(700, 1), (700, 2), (700, 3), (700, 5), (701, 1), (701, 2), (702, 7), (65535, 65535), (1, 1)]
TYPE_TAG = {0: 104, 1: 105, 2: 100, 3: 101}
REFOPS = {"create": 3, "createf": 3, "select": 3, "gettagref": 3, "dfputlabel": 2, "dfputdesc": 2, "dfaddfid": 2, "dfaddfds": 2,
          "dffidlen": 3, "dffdslen": 3, "dffid": 3, "dffds": 3}
SORTED_TAIL = {"selectall", "annlist", "dfgetfids", "dfgetfdss"}
NOSPEC = {"atype2tag", "tag2atype"}      # compared with the model only


def hexs(b):
    return "".join("%02x" % x for x in b) if b else "-"


def gen_text(r, label, nz=True):
    n = r.choice([1, 1, 2, 3, 4, 5, 8, 15, 16, 17, 40, 100, 300])
    style = r.randrange(4)
    lo = 1 if label else 0
    if style == 0:
        b = [r.randrange(lo, 256)] * n
    elif style == 1:
        s = r.randrange(256)
        b = [(s + i) & 255 for i in range(n)]
        if label:
            b = [x or 65 for x in b]
    elif style == 2:
        b = [r.choice([32, 65, 66, 97, 122, 126]) for _ in range(n)]
    else:
        b = [r.randrange(lo, 256) for _ in range(n)]
        if not label and n > 2:
            b[r.randrange(n)] = 0
            if r.random() < 0.3:
                b[0] = 0
            if r.random() < 0.3:
                b[-1] = 0
    return b


def pick_maxlen(r, ln):
    c = [ln + 1, ln + 1, ln + 1, ln, ln - 1, ln + 2, 1, 2, ln + 50, max(1, ln // 2)]
    return max(1, r.choice(c))


class Shadow:
    def __init__(self):
        self.anns = []        # dict(type, target, written(len or None))   creation order; refs unknown
        self.slots = {}       # slot -> index into anns (what the generator believes)
        self.nslot = 0

    def count(self, t):
        return sum(1 for a in self.anns if a["type"] == t)


def gen_an_phase(r, sh, lines, malformed, nops, types=None):
    """one AN session.  types: restrict the session to these annotation types and never call ANfileinfo, so that the
    trees of the other types are never loaded (a 'narrow' session); such a session may be followed by ANend + ANstart
    on the same open file (restart) and a probe of everything"""
    lines.append("start")
    sh.slots = {}
    T = types if types is not None else [0, 1, 2, 3]
    for _ in range(nops):
        x = r.random()
        if types is not None and 0.65 <= x < 0.74:
            x = 0.1          # no selectall / fileinfo in a narrow session: create instead
        bound = list(sh.slots.keys())
        if x < 0.22 or not sh.anns:
            t = r.choice([0, 0, 0, 1, 1, 1, 2, 3]) if types is None else r.choice(T)
            s = sh.nslot % 48
            sh.nslot += 1
            if t < 2:
                tg = r.choice(TARGETS)
                if malformed and r.random() < 0.15:
                    tg = r.choice([(0, 1), (700, 0), (0, 0)])
                lines.append("create %d %d %d %d" % (s, t, tg[0], tg[1]))
                if tg[0] == 0 or tg[1] == 0:
                    sh.slots.pop(s, None)
                    continue
            else:
                tg = None
                if malformed and r.random() < 0.2:
                    lines.append("createf %d %d" % (s, r.choice([0, 1])))
                    sh.slots.pop(s, None)
                    continue
                if r.random() < 0.15:
                    lines.append("create %d %d %d %d" % (s, t, 700, 1))   # ANcreate with a file type
                else:
                    lines.append("createf %d %d" % (s, t))
            sh.anns.append(dict(type=t, target=tg, written=None, insession=True))
            sh.slots[s] = len(sh.anns) - 1
            if r.random() < (0.6 if types is None else 0.35):
                txt = gen_text(r, t in (0, 2))
                lines.append("write %d %s" % (s, hexs(txt)))
                sh.anns[-1]["written"] = len(txt)
        elif x < 0.38 and bound:
            s = r.choice(bound)
            a = sh.anns[sh.slots[s]] if sh.slots[s] is not None else None
            txt = gen_text(r, a is None or a["type"] in (0, 2))
            lines.append("write %d %s" % (s, hexs(txt)))
            if a is not None:
                a["written"] = len(txt)
        elif x < 0.52 and bound:
            s = r.choice(bound)
            a = sh.anns[sh.slots[s]] if sh.slots[s] is not None else None
            lines.append("read %d %d" % (s, pick_maxlen(r, (a and a["written"]) or r.randrange(1, 9))))
        elif x < 0.57 and bound:
            lines.append("len %d" % r.choice(bound))
        elif x < 0.65:
            t = r.choice(T)
            n = sh.count(t)
            idx = r.randrange(0, n) if n and r.random() < 0.9 else r.choice([n, n + 1, -1])
            s = sh.nslot % 48
            sh.nslot += 1
            lines.append("select %d %d %d" % (s, t, idx))
            if 0 <= idx < n:
                sh.slots[s] = None
            else:
                sh.slots.pop(s, None)
            # what it selected is unknown to the generator: follow up with a read of generous size
            if 0 <= idx < n and r.random() < 0.7:
                lines.append("read %d %d" % (s, r.choice([1, 2, 9, 41, 400])))
        elif x < 0.70:
            lines.append("selectall %d" % r.randrange(4))
        elif x < 0.74:
            lines.append("fileinfo")
        elif x < 0.80:
            tg = r.choice(TARGETS)
            t = r.choice([0, 1]) if not malformed or r.random() < 0.8 else r.choice([2, 3])
            if types is not None:
                t = r.choice([k for k in T if k < 2] or [r.choice(T)])
            lines.append("%s %d %d %d" % (r.choice(["numann", "annlist", "annlist"]), t, tg[0], tg[1]))
        elif x < 0.86:
            t = r.choice(T)
            n = sh.count(t)
            ref = r.randrange(1, n + 2)
            tag = TYPE_TAG[t] if not malformed or r.random() < 0.8 else r.choice([0, 1, 102, 103, 106, 700])
            s = sh.nslot % 48
            sh.nslot += 1
            lines.append("tagref2id %d %d %d" % (s, tag, ref))
            if ref <= n and tag == TYPE_TAG[t]:
                sh.slots[s] = None
            else:
                sh.slots.pop(s, None)
        elif x < 0.90 and bound:
            lines.append("id2tagref %d" % r.choice(bound))
        elif x < 0.92:
            t = r.choice([0, 0, 1, 1, 2, 3]) if types is None else r.choice(T)
            lines.append("gettagref %d %d" % (t, r.randrange(0, sh.count(t) + 1)))
        elif x < 0.94 and bound:
            lines.append("endaccess %d" % r.choice(bound))
        elif x < 0.97:
            lines.append("ids")
        elif malformed:
            lines.append(r.choice(["read 60 5", "write 61 4142", "len 62", "id2tagref 63", "select 3 0 99"]))
    # forget what the generator believed about slots whose annotation is unknown
    sh.slots = {s: i for s, i in sh.slots.items() if i is not None}
    if r.random() < 0.5:
        lines.append("ids")
    if types is not None or r.random() < 0.15:
        # a second session on the same open file: what was only created is gone, every tree must have been dropped
        lines.append("restart")
        sh.anns = [a for a in sh.anns if a["written"] is not None]
        sh.slots = {}
        probes = ["fileinfo"] + ["selectall %d" % t for t in range(4)]
        for tg in TARGETS[:6]:
            probes.append("%s %d %d %d" % (r.choice(["numann", "annlist"]), r.choice([0, 1]), tg[0], tg[1]))
        r.shuffle(probes)
        lines.extend(probes[:r.randrange(3, len(probes) + 1)])
        for t in range(4):
            if sh.count(t) and r.random() < 0.5:
                lines.append("select %d %d %d" % (40 + t, t, r.randrange(sh.count(t))))
                lines.append("read %d 400" % (40 + t))
    lines.append("end")
    sh.anns = [a for a in sh.anns if a["written"] is not None]
    for a in sh.anns:
        a["insession"] = False
    sh.slots = {}


def gen_df_phase(r, sh, lines, malformed, nops):
    for _ in range(nops):
        x = r.random()
        tg = r.choice(TARGETS[:7])
        if malformed and r.random() < 0.1:
            tg = r.choice([(0, 1), (700, 0)])
        if x < 0.22:
            txt = gen_text(r, True)
            lines.append("dfputlabel %d %d %s" % (tg[0], tg[1], hexs(txt)))
            if tg[0] and tg[1] and not any(a["type"] == 0 and a["target"] == tg for a in sh.anns):
                sh.anns.append(dict(type=0, target=tg, written=len(txt)))
        elif x < 0.40:
            txt = gen_text(r, False)
            lines.append("dfputdesc %d %d %s" % (tg[0], tg[1], hexs(txt)))
            if tg[0] and tg[1] and not any(a["type"] == 1 and a["target"] == tg for a in sh.anns):
                sh.anns.append(dict(type=1, target=tg, written=len(txt)))
        elif x < 0.60:
            k = r.choice([0, 1])
            have = [a for a in sh.anns if a["type"] == k and a["target"] == tg]
            ln = have[0]["written"] if have else r.randrange(1, 9)
            lines.append("%s %d %d %d" % (["dfgetlabel", "dfgetdesc"][k], tg[0], tg[1], pick_maxlen(r, ln)))
        elif x < 0.68:
            lines.append("%s %d %d" % (r.choice(["dfgetlablen", "dfgetdesclen"]), tg[0], tg[1]))
        elif x < 0.76:
            lines.append("dfaddfid %s" % hexs(gen_text(r, True)))
            sh.anns.append(dict(type=2, target=None, written=1))
        elif x < 0.84:
            lines.append("dfaddfds %s" % hexs(gen_text(r, False)))
            sh.anns.append(dict(type=3, target=None, written=1))
        elif x < 0.92:
            lines.append(r.choice(["dfgetfids", "dfgetfdss"]))
        elif r.random() < 0.5:
            lines.append("dflablist %d %d" % (r.choice([700, 700, 701, 702]), r.choice([1, 2, 3, 5, 16, 17, 64, 400])))
        else:   # paging through the refs of a tag: listsize and startpos around the number of objects (4 and 2)
            lines.append("dflablist %d %d %d %d" % (r.choice([700, 700, 701]), r.choice([2, 16, 64]), r.choice([1, 2, 3, 4, 8]),
                                                    r.choice([1, 2, 2, 3, 3, 4, 5])))


NAME_SETS = [
    # one name a prefix of the other (both orders of use occur), a suffix, equal length, and mixtures of three
    ["%s.hdf.bak", "%s.hdf"], ["%s.hdf", "%s.hdf.bak"], ["x%s.hdf", "%s.hdf"], ["%s.hda", "%s.hdb"],
    ["%s.hdf", "%s.hdf.bak", "x%s.hdf"], ["%s.hdfx", "%s.hdf", "%s.hd"], ["%s.hdf.1", "%s.hdf.2", "%s.hdf"],
]


def gen_df_burst(r, sh, lines, n):
    """a few file-name based DFAN calls (the ones that go through DFANIopen and the cached directory)"""
    for _ in range(n):
        tg = r.choice(TARGETS[:5])
        x = r.random()
        if x < 0.30:
            txt = gen_text(r, True)
            lines.append("dfputlabel %d %d %s" % (tg[0], tg[1], hexs(txt)))
            if not any(a["type"] == 0 and a["target"] == tg for a in sh.anns):
                sh.anns.append(dict(type=0, target=tg, written=len(txt)))
        elif x < 0.50:
            txt = gen_text(r, False)
            lines.append("dfputdesc %d %d %s" % (tg[0], tg[1], hexs(txt)))
            if not any(a["type"] == 1 and a["target"] == tg for a in sh.anns):
                sh.anns.append(dict(type=1, target=tg, written=len(txt)))
        elif x < 0.80:
            k = r.choice([0, 0, 1])
            lines.append("%s %d %d %d" % (["dfgetlabel", "dfgetdesc"][k], tg[0], tg[1], r.choice([64, 400, 9])))
        elif x < 0.90:
            lines.append("%s %d %d" % (r.choice(["dfgetlablen", "dfgetdesclen"]), tg[0], tg[1]))
        elif r.random() < 0.5:
            lines.append("dflablist %d %d" % (r.choice([700, 701]), r.choice([16, 64])))
        else:
            lines.append("dflablist %d %d %d %d" % (r.choice([700, 701]), r.choice([16, 64]), r.choice([1, 2, 3]), r.choice([1, 2, 3, 4])))


def gen_fenum(r, shs, lines, switch, nfiles):
    """the file-annotation enumeration call by call: label and description enumerations interleaved, with and
    without the length call, fixed and too small buffers, runs to the end and one call beyond, restarts, a whole
    enumeration before (which leaves the 'exhausted' state behind), and the same on the next file"""
    for _ in range(r.randrange(1, 4)):
        f = r.randrange(nfiles)
        switch(f)
        sh = shs[f]
        # an enumeration is only interesting with two or more annotations of a kind
        for k, t, lab in (("fid", 2, True), ("fds", 3, False)):
            while sh.count(t) < 2 and r.random() < 0.85:
                lines.append("dfadd%s %s" % (k, hexs(gen_text(r, lab))))
                sh.anns.append(dict(type=t, target=None, written=1))
        if r.random() < 0.35:
            lines.append(r.choice(["dfgetfids", "dfgetfdss"]))
        kinds = r.choice([["fid"], ["fds"], ["fid", "fds"], ["fid", "fds"], ["fds", "fid"], ["fds", "fid"]])
        ul = r.choice([(1, 1), (1, 1), (0, 0), (1, 0), (0, 1)])
        uselen = {"fid": bool(ul[0]), "fds": bool(ul[1])}
        started = {k: False for k in kinds}
        n = {"fid": sh.count(2), "fds": sh.count(3)}
        steps = r.randrange(2, 2 * (max(n.values()) + 2))
        for i in range(steps):
            k = kinds[i % len(kinds)] if r.random() < 0.85 else r.choice(kinds)
            first = 0 if started[k] and r.random() < 0.93 else 1
            if uselen[k] or r.random() < 0.15:
                lines.append("df%slen %d" % (k, first))
                if r.random() < 0.1:
                    lines.append("df%slen %d" % (k, 0 if started[k] or first else first))
                started[k] = True
                first2 = first if r.random() < 0.5 else 0
                lines.append("df%s %d %d" % (k, first2, r.choice([400, 400, 64, 17, 5, 2, 1])))
            else:
                lines.append("df%s %d %d" % (k, first, r.choice([400, 400, 64, 17, 5, 2, 1])))
                started[k] = True
            if r.random() < 0.04:
                lines.append(r.choice(["dfgetlabel 700 1 9", "dflablist 700 16", "dfputdesc 701 1 4142"]))


def gen_history(r, name, malformed=False):
    lines = ["history " + name]
    nfiles = r.choice([1, 1, 2, 2, 2, 3, 3])
    if nfiles > 1:
        ns = r.choice([x for x in NAME_SETS if len(x) == nfiles])
        lines.append("names " + " ".join(n % name for n in ns))
    shs = [Shadow() for _ in range(nfiles)]
    cur = [0]

    def switch(f):
        if nfiles > 1 and (f != cur[0] or r.random() < 0.1):
            lines.append("file %d" % f)
        cur[0] = f

    for _ in range(r.randrange(2, 7)):
        x = r.random()
        f = r.randrange(nfiles)
        if x < 0.35:
            switch(f)
            tmp = []
            narrow = None
            if r.random() < 0.35:
                narrow = r.choice([[1], [2], [3], [1, 3], [2, 3], [1, 2], [0], [0, 2]])
            gen_an_phase(r, shs[f], tmp, malformed, r.randrange(4, 30) if narrow is None else r.randrange(3, 10), types=narrow)
            if nfiles > 1 and r.random() < 0.3:
                # DFAN calls on another file while this file's AN session is still open
                g = r.choice([k for k in range(nfiles) if k != f])
                lines.extend(tmp[:-1])
                switch(g)
                gen_df_burst(r, shs[g], lines, r.randrange(1, 5))
                switch(f)
                lines.append(tmp[-1])
            else:
                lines.extend(tmp)
        elif x < 0.47:
            gen_fenum(r, shs, lines, switch, nfiles)
        elif x < 0.64 or nfiles == 1:
            switch(f)
            gen_df_phase(r, shs[f], lines, malformed, r.randrange(2, 14))
        else:
            # the files used alternately through the single-file interface, no DFANclear in between
            for _ in range(r.randrange(4, 13)):
                g = r.randrange(nfiles)
                switch(g)
                gen_df_burst(r, shs[g], lines, r.randrange(1, 4))
    # full read-back of every file after a reopen, through both interfaces
    for f in range(nfiles):
        sh = shs[f]
        switch(f)
        lines.append("start")
        for t in range(4):
            lines.append("selectall %d" % t)
        s = 0
        for t in range(4):
            for i in range(min(sh.count(t), 10)):
                lines.append("select %d %d %d" % (s, t, i))
                lines.append("read %d 400" % s)
                s += 1
        for tg in TARGETS[:4]:
            lines.append("annlist %d %d %d" % (r.choice([0, 1]), tg[0], tg[1]))
        for t in range(4):
            for i in range(min(sh.count(t) + 1, 4)):
                lines.append("gettagref %d %d" % (t, i))
        lines += ["ids", "end", "dfgetfids", "dfgetfdss", "dflablist 700 64", "dflablist 700 64 2 1", "dflablist 700 64 2 3",
                  "dflablist 700 64 1 4", "dflablist 701 64 1 2"]
        # the same enumerations call by call, labels and descriptions interleaved, without the length calls
        nn = max(sh.count(2), sh.count(3)) + 1
        for i in range(min(nn, 6)):
            lines.append("dffid %d 400" % (1 if i == 0 else 0))
            lines.append("dffds %d 400" % (1 if i == 0 else 0))
        for i in range(min(nn, 6)):                      # and with the length calls
            for k in ("fid", "fds"):
                lines.append("df%slen %d" % (k, 1 if i == 0 else 0))
                lines.append("df%s %d 400" % (k, 1 if i == 0 else 0))
    for _ in range(2 if nfiles > 1 else 1):
        for f in range(nfiles):
            switch(f)
            for tg in TARGETS[:3]:
                lines.append("dfgetlabel %d %d 400" % tg)
                lines.append("dfgetdesc %d %d 400" % tg)
    return lines


# ---------------------------------------------------------------------------------------------------

def split_histories(lines):
    out, cur = [], []
    for l in lines:
        if l.startswith("history ") and cur:
            out.append(cur)
            cur = []
        cur.append(l)
    if cur:
        out.append(cur)
    return out


def parse_out(lines):
    d = {}
    for l in lines:
        m = re.match(r"^(\d+) (.*)$", l)
        if m:
            k = int(m.group(1))
            if m.group(2).startswith("crash") and k in d:
                continue
            d[k] = m.group(2).strip()
    return d


def augment(flat, R):
    """append the ref the library chose to every ref-allocating operation (input of S and M)"""
    out = []
    for i, l in enumerate(flat):
        t = l.split()
        if t and t[0] in REFOPS:
            rt = R.get(i + 1, "crash").split()
            k = REFOPS[t[0]]
            ref = rt[k - 1] if rt and rt[0] == "ok" and len(rt) >= k else "0"
            l = l + " " + ref
        out.append(l)
    return out


def run_all(ctx, hists, tag, want_model=True):
    exe = ctx.harness("drive_an", ["drive_an.c"])
    spec = ctx.model("an_spec", ["anspec_main.ml"], ["an_spec"])
    wd = os.path.join(ctx.bdir, "harness", "c11-%s-%d" % (tag, os.getpid()))
    shutil.rmtree(wd, ignore_errors=True)
    os.makedirs(wd)
    flat = [l for h in hists for l in h]
    p = os.path.join(wd, "in.hist")
    open(p, "w").write("\n".join(flat) + "\n")
    rc, Rl = vc.run_lines(exe, p, timeout=1500, args=[wd])
    R = parse_out(Rl)
    p2 = os.path.join(wd, "in2.hist")
    open(p2, "w").write("\n".join(augment(flat, R)) + "\n")
    rcs, Sl = vc.run_lines(spec, p2, timeout=900)
    S = parse_out(Sl)
    if rcs != 0 or len(S) != len(flat):
        raise vc.BuildError("spec driver failed rc=%d (%d lines for %d): %s" % (rcs, len(S), len(flat), Sl[-3:]))
    M = None
    if want_model and HAVE_MODEL:
        mod = ctx.model("an_model", ["anmodel_main.ml"], ["an_model"])
        rcm, Ml = vc.run_lines(mod, p2, timeout=900)
        M = parse_out(Ml)
        if rcm != 0 or len(M) != len(flat):
            raise vc.BuildError("model driver failed rc=%d (%d lines for %d): %s" % (rcm, len(M), len(flat), Ml[-3:]))
    shutil.rmtree(wd, ignore_errors=True)
    return rc, R, S, M, flat


HAVE_MODEL = os.path.exists(os.path.join(vc.VERIF, "extract", "anmodel_main.ml"))


def match(op, r, s):
    """library line vs specification line"""
    if s in ("skip", "history"):
        return True
    if s == "fail" or s == "badref":
        return r == s
    rt, st = r.split(), s.split()
    if not rt or rt[0] != "ok":
        return False
    if st[0] == "oneof":
        return len(rt) == 2 and rt[1] in st[1:]
    if len(rt) != len(st):
        return False
    if op in SORTED_TAIL:
        key = (lambda x: int(x)) if op in ("selectall", "annlist") else (lambda x: x)
        try:
            rt = rt[:2] + sorted(rt[2:], key=key)
            st = st[:2] + sorted(st[2:], key=key)
        except ValueError:
            return False
    for a, b in zip(rt, st):
        if a != b and a not in b.split("/"):
            return False
    return True


def first_bad(R, S, flat, lo, hi):
    for i in range(lo, hi):
        s = S[i + 1]
        if s == "unspec":
            return None, None
        r = R.get(i + 1)
        if r is None or r.startswith("crash"):
            return i, "crash"
        op = flat[i].split()[0] if flat[i].split() else ""
        if op in NOSPEC:
            continue
        if not match(op, r, s):
            return i, "mismatch"
    return None, None


def first_bad_model(R, M, S, flat, lo, hi):
    for i in range(lo, hi):
        if S[i + 1] == "unspec":
            return None
        m = M[i + 1]
        if m in ("skip", "history", "nomodel"):
            continue
        r = R.get(i + 1, "crash")
        if r.startswith("bad"):
            r = "bad"
        if r != m:
            return i
    return None


def fails(ctx, h):
    rc, R, S, M, flat = run_all(ctx, [h], "shrink", want_model=False)
    i, _ = first_bad(R, S, flat, 0, len(flat))
    return i is not None


def shrink(ctx, hist, limit=60):
    cur = list(hist)
    n = 0
    chunk = max(1, (len(cur) - 1) // 2)
    while chunk >= 1 and n < limit:
        i = 1
        progressed = False
        while i < len(cur) and n < limit:
            cand = cur[:i] + cur[i + chunk:]
            n += 1
            if len(cand) > 1 and fails(ctx, cand):
                cur = cand
                progressed = True
            else:
                i += chunk
        if not progressed:
            chunk //= 2
    return cur


def signature(hist, j):
    """known-finding signature computed from the failing history itself (none recorded at present)"""
    return None


def report(ctx, h, what_prefix="library differs from the annotation-map specification"):
    small = shrink(ctx, h) if ctx.tier == "quick" else shrink(ctx, h, 200)
    rc2, R2, S2, M2, flat2 = run_all(ctx, [small], "rep")
    j, kind = first_bad(R2, S2, flat2, 0, len(flat2))
    if j is None:
        small = h
        rc2, R2, S2, M2, flat2 = run_all(ctx, [small], "rep")
        j, kind = first_bad(R2, S2, flat2, 0, len(flat2))
    j = j if j is not None else 0
    sig = signature(small, j)
    txt = ["# C11 replay: annotation history; library (R) vs specification (S) differ at the marked operation",
           "# run: bin/check C11 --replay <this file>"] + small + [
           "# first difference at line %d: %s" % (j + 1, flat2[j][:200]),
           "#   library      : %s" % R2.get(j + 1, "crash/abort (sanitizer or signal), harness rc=%d" % rc2)[:300],
           "#   specification: %s" % S2[j + 1][:300]]
    if M2 is not None:
        txt.append("#   model        : %s" % M2[j + 1][:300])
    ctx.violation("%s (%s) at: %s" % (what_prefix, kind, flat2[j][:120]), "\n".join(txt), found=True, signature=sig)


def run(ctx):
    r = ctx.rng
    corpus = []
    cdir = os.path.join(vc.VERIF, "corpus", "C11")
    for fn in sorted(os.listdir(cdir)) if os.path.isdir(cdir) else []:
        corpus += split_histories([l for l in open(os.path.join(cdir, fn)).read().splitlines()
                                   if l.strip() and not l.startswith("#")])
    nh = 260 if ctx.tier == "quick" else 5000
    hists = corpus + [gen_history(r, "g%d" % i) for i in range(nh)] + \
        [gen_history(r, "m%d" % i, malformed=True) for i in range(nh // 5)]
    rc, R, S, M, flat = run_all(ctx, hists, "main")
    opmix, fails_r, maxanns, nviol, nmod, unspec_h = {}, 0, 0, 0, 0, 0
    lens = {"1": 0, "2-16": 0, "17-100": 0, ">100": 0}
    pos = 0
    for h in hists:
        lo, hi = pos, pos + len(h)
        pos = hi
        i, kind = first_bad(R, S, flat, lo, hi)
        written = readback = 0
        for k in range(lo, hi):
            t = flat[k].split()
            opmix[t[0]] = opmix.get(t[0], 0) + 1
            rr = R.get(k + 1, "")
            if rr == "fail":
                fails_r += 1
            if t[0] in ("write", "dfputlabel", "dfputdesc", "dfaddfid", "dfaddfds") and rr.startswith("ok"):
                written += 1
                n = len(t[-1]) // 2
                lens["1" if n <= 1 else "2-16" if n <= 16 else "17-100" if n <= 100 else ">100"] += 1
            if t[0] in ("read", "dfgetlabel", "dfgetdesc") and rr.startswith("ok"):
                readback += 1
            if t[0] == "fileinfo" and rr.startswith("ok"):
                maxanns = max(maxanns, sum(int(x) for x in rr.split()[1:5]))
        if any(S[k + 1] == "unspec" for k in range(lo, hi)):
            unspec_h += 1
        ctx.case(tuple(h[1:]), written > 0 and readback > 0,
                 sample={"history": h[1:10], "library": [R.get(k + 1, "?")[:60] for k in range(lo + 1, min(hi, lo + 10))]}
                 if len(ctx.coverage["samples"]) < 3 else None)
        if i is not None and nviol < 3:
            nviol += 1
            report(ctx, h)
        elif i is None and M is not None and nmod < 2:
            j = first_bad_model(R, M, S, flat, lo, hi)
            if j is not None:
                nmod += 1
                txt = ["# C11: library (R) and implementation model ANModel (M) differ; R agrees with S on this history",
                       "# run: bin/check C11 --replay <this file>"] + h + [
                       "# first R/M difference at line %d: %s" % (j - lo + 1, flat[j][:200]),
                       "#   library: %s" % R.get(j + 1, "crash")[:300], "#   model  : %s" % M[j + 1][:300]]
                ctx.violation("correspondence mfan.c/dfan.c ~ ANModel broken at: %s" % flat[j][:120], "\n".join(txt),
                              found=False)
    if rc != 0 and nviol == 0:
        ctx.violation("harness exited with rc=%d" % rc, "\n".join(flat[-40:]), found=True)
    ctx.corr("AN/DFAN~ANSpec", histories=len(hists), operations=len(flat), op_mix=opmix, library_fail_results=fails_r,
             corpus_histories=len(corpus), histories_leaving_domain=unspec_h, max_annotations_in_a_file=maxanns,
             text_length_histogram=lens)
    if M is not None:
        ctx.corr("mfan.c/dfan.c~ANModel", histories=len(hists), operations=len(flat), mismatching_histories=nmod,
                 compared="every output line exactly (refs chosen, list and ANselect order, which annotation DFAN picks)")
        run_function_level(ctx)


def run_function_level(ctx):
    """function-level R-vs-M correspondence of the regenerated pieces: AN_CREATE_KEY / AN_KEY2TYPE / AN_KEY2REF,
    ANIanncmp, UINT16ENCODE / UINT16DECODE, ANatype2tag / ANtag2atype (the C macros and functions themselves are
    evaluated by the harness, the generated Gallina definitions by the extracted driver)"""
    r = ctx.rng
    lines = ["history fn"]
    refs = [0, 1, 2, 255, 256, 257, 32767, 32768, 65534, 65535]
    for t in (0, 1, 2, 3):
        for rf in refs + [r.randrange(65536) for _ in range(40)]:
            lines.append("key %d %d" % (t, rf))
    ks = [(t << 16) | rf for t in (0, 1, 2, 3) for rf in (1, 2, 65535)] + [r.randrange(1 << 18) for _ in range(60)]
    for _ in range(300):
        a, b = r.choice(ks), r.choice(ks)
        lines.append("cmp %d %d" % (a, b))
    vals = list(range(0, 65536, 257)) + refs + [r.randrange(65536) for _ in range(200)]
    if ctx.tier == "thorough":
        vals = list(range(65536))
    for v in vals:
        lines.append("codec %d" % v)
    for t in range(-2, 7):
        lines.append("atype2tag %d" % t)
    for g in list(range(98, 108)) + [0, 1, 700, 65535]:
        lines.append("tag2atype %d" % g)
    rc, R, S, M, flat = run_all(ctx, [lines], "fn")
    bad = [i for i in range(1, len(flat)) if R.get(i + 1) != M[i + 1]]
    if bad:
        i = bad[0]
        ctx.violation("function-level correspondence broken at: %s" % flat[i],
                      "# C11: regenerated definition (M) vs the C macro/function (R) differ\nhistory fn\n%s\n# library: %s\n# model  : %s"
                      % (flat[i], R.get(i + 1), M[i + 1]), found=False)
    ctx.corr("macros/switches~Gen_AN", cases=len(flat) - 1, mismatches=len(bad),
             functions="AN_CREATE_KEY AN_KEY2TYPE AN_KEY2REF ANIanncmp UINT16ENCODE UINT16DECODE ANatype2tag ANtag2atype")


def replay(ctx, path):
    lines = [l for l in open(path).read().splitlines() if l.strip() and not l.startswith("#")]
    rc, R, S, M, flat = run_all(ctx, [lines], "replay")
    bad = False
    stop = False
    for i, l in enumerate(flat):
        r, s = R.get(i + 1, "<crash>"), S[i + 1]
        op = l.split()[0]
        ok = stop or op in NOSPEC or match(op, r, s)
        if s == "unspec":
            stop = True
            ok = True
        bad = bad or not ok
        print("%s %-44s R: %-40s S: %-40s%s" % ("  " if ok else "!!", l[:44], r[:40], s[:40],
                                               ("  M: " + M[i + 1][:40]) if M is not None else ""))
    print("harness rc =", rc, "; library", "DIFFERS from" if bad else "agrees with", "the specification")
    return 1 if bad else 0
