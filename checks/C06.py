"""C06 -- number-type conversion.  Correspondence: DFKconvert (real library) vs the Coq model
(loops regenerated from dfkswap.c/dfknat.c) vs the abstract specification, on generated cases."""
import os
import vcommon as vc

RULE = ("DFKconvert cases = (ntype, direction, count, strides, in-place/disjoint offsets, random bytes) drawn from one PRNG "
        "(VERIF_SEED): every supported type x flavour x direction, counts 1..9, strides {0/0, w, w+1..3w}, "
        "in-place (same layout and packing with destination stride <= source stride) and both disjoint orders; a decoy DFKsetNT of another type precedes every DFKconvert; plus unsupported types and count 0 (must FAIL); plus all 2^8 "
        "one-byte and a 2^16 sweep of two-byte patterns per 16-bit type (thorough: every 16-bit pattern). "
        "A case is non-trivial when it lies in the property's domain and moves at least one byte; distinct by "
        "(type, direction, geometry, data).  API cases = (interface in SD, SD in two partial writes, Vdata n records, Vdata order n, GR) x "
        "every base type x flavour x lengths {1..13} x {asymmetric, random} values: raw bytes in the file, values read back and "
        "DFKconvert of the raw element are compared with specification and input")
TRUSTED = ["Coq 8.16.1 kernel (vm_compute used for finite sweeps; no native_compute)",
           "translator gen/gen_consts.py (kinds consts, switch_assign, switch_return, byte_loops) run on "
           "hntdefs.h, dfconv.c, dfkswap.c, dfknat.c through gcc -E",
           "extraction: Require Extraction + ExtrOcamlBasic (Extract Inductive bool,option,unit,list,prod,sumbool,sumor); "
           "no Extract Constant; Z/positive/nat extracted as inductives",
           "OCaml driver extract/conv_main.ml, C harnesses harness/drive_conv.c and harness/drive_convapi.c (which trusts "
           "SDgetdatainfo/VSgetdatainfo/GRgetdatainfo to locate the raw data), comparison in checks/C06.py",
           "modelled, not verified: control skeleton of DFKsb*/DFKnb* (which loop runs when), DFKconvert glue, "
           "uint32 wrap of counts/strides (inputs kept < 2^31)"]
ASSUMPTIONS = ["host is little-endian (H4_WORDS_BIGENDIAN undefined; resolved by gcc -E in the translator)",
               "property domain: strides both 0 or both >= element size; source/destination identical or disjoint"]

W = {3: 1, 4: 1, 20: 1, 21: 1, 22: 2, 23: 2, 24: 4, 25: 4, 5: 4, 6: 8}
FLAV = [0, 4096, 16384]


def gen_cases(ctx):
    r = ctx.rng
    cases = []
    nquick = 40 if ctx.tier == "quick" else 400
    for base, w in W.items():
        for fl in FLAV:
            nt = base | fl
            for acc in (1, 2):
                for _ in range(nquick // 8 + 1):
                    n = r.choice([1, 1, 2, 3, 4, 5, 7, 9])
                    kind = r.choice(["c", "c", "w", "s", "s", "s"])
                    if kind == "c":
                        ss = ds = 0
                    elif kind == "w":
                        ss = ds = w
                    else:
                        ss = w + r.randrange(0, 2 * w + 1)
                        ds = w + r.randrange(0, 2 * w + 1)
                    se, de = (w, w) if (ss == 0 and ds == 0) else (ss, ds)
                    place = r.choice(["in", "lo", "hi", "pack"])
                    if place == "pack" and kind == "s":
                        # in place, packing towards the front: destination stride <= source stride
                        ds = r.randrange(w, ss + 1)
                        de = ds
                        s = d = r.randrange(0, 4)
                        ln = s + (n - 1) * se + w + r.randrange(0, 3)
                    elif place in ("in", "pack"):
                        ds = ss
                        de = se
                        s = d = r.randrange(0, 4)
                        ln = s + (n - 1) * se + w + r.randrange(0, 3)
                    elif place == "lo":
                        d = r.randrange(0, 3)
                        s = d + (n - 1) * de + w + r.randrange(0, 3)
                        ln = s + (n - 1) * se + w + r.randrange(0, 3)
                    else:
                        s = r.randrange(0, 3)
                        d = s + (n - 1) * se + w + r.randrange(0, 3)
                        ln = d + (n - 1) * de + w + r.randrange(0, 3)
                    data = [r.choice([0, 1, 127, 128, 255, r.randrange(256)]) for _ in range(ln)]
                    cases.append((nt, acc, n, ss, ds, s, d, data))
    # malformed stream: unsupported number types, zero counts
    for nt in [0, 1, 2, 7, 26, 27, 28, 30, 42, 4096 | 26, 16384 | 7, 8192 | 24, 99, 4095]:
        cases.append((nt, 1, 2, 0, 0, 0, 8, [r.randrange(256) for _ in range(16)]))
    for base, w in W.items():
        cases.append((base, 2, 0, 0, 0, 0, 8, [r.randrange(256) for _ in range(16)]))
    # exhaustive small patterns: all 2^8 bytes through 8-bit types, 16-bit patterns through 16-bit types
    for nt in (20, 21, 3, 4, 4096 | 20, 16384 | 21):
        cases.append((nt, 2, 256, 0, 0, 0, 256, list(range(256)) + [0] * 256))
    step = 1 if ctx.tier == "thorough" else 61
    for nt in (22, 23, 4096 | 22, 16384 | 23):
        pats = list(range(0, 65536, step))
        for blk in range(0, len(pats), 512):
            ps = pats[blk:blk + 512]
            data = []
            for p in ps:
                data += [p & 255, p >> 8]
            cases.append((nt, 2, len(ps), 0, 0, 0, len(data), data + [0] * len(data)))
    # structured 32/64-bit patterns incl. NaN payloads, denormals, sign bits
    pats32 = [0, 1, 0x7f800000, 0x7fc00001, 0xffc12345, 0x00000001, 0x80000000, 0x007fffff, 0xffffffff, 0x12345678]
    pats64 = [0, 1, 0x7ff0000000000000, 0x7ff8000000000001, 0xfff4000000abcdef, 0x0000000000000001,
              0x8000000000000000, 0x000fffffffffffff, 0xffffffffffffffff, 0x0123456789abcdef]
    for nt in (24, 25, 5, 4096 | 5, 16384 | 5):
        data = []
        for p in pats32 + [r.getrandbits(32) for _ in range(54)]:
            data += [(p >> (8 * i)) & 255 for i in range(4)]
        for acc in (1, 2):
            cases.append((nt, acc, len(data) // 4, 0, 0, 0, len(data), data + [0] * len(data)))
            cases.append((nt, acc, len(data) // 4, 4, 4, 0, 0, list(data)))
    for nt in (6, 4096 | 6, 16384 | 6):
        data = []
        for p in pats64 + [r.getrandbits(64) for _ in range(22)]:
            data += [(p >> (8 * i)) & 255 for i in range(8)]
        for acc in (1, 2):
            cases.append((nt, acc, len(data) // 8, 0, 0, 0, len(data), data + [0] * len(data)))
            cases.append((nt, acc, len(data) // 8, 0, 0, 0, 0, list(data)))
    return cases


def fmt(c):
    nt, acc, n, ss, ds, s, d, data = c
    return "%d %d %d %d %d %d %d %d %s" % (nt, acc, n, ss, ds, s, d, len(data), " ".join(map(str, data)))


def run_cases(ctx, cases, tag):
    exe = ctx.harness("drive_conv", ["drive_conv.c"])
    mod = ctx.model("conv_model", ["conv_main.ml"], ["conv_model"])
    p = os.path.join(ctx.bdir, "harness", "c06-%s-%d.in" % (tag, os.getpid()))
    with open(p, "w") as fh:
        fh.write("\n".join(fmt(c) for c in cases) + "\n")
    rc, R = vc.run_lines(exe, p, timeout=900)
    rcm, MS = vc.run_lines(mod, p, timeout=900)
    os.unlink(p)
    return rc, R, rcm, MS


def run(ctx):
    cases = gen_cases(ctx)
    rc, R, rcm, MS = run_cases(ctx, cases, "main")
    stats = {"cases": len(cases), "in_domain": 0, "expected_fail": 0, "harness_rc": rc}
    if rcm != 0 or len(MS) != len(cases):
        raise vc.BuildError("model driver failed (rc=%d, %d lines for %d cases)" % (rcm, len(MS), len(cases)))
    crash = rc != 0 or len(R) < len(cases)
    for i, c in enumerate(cases):
        m, s = [x.strip() for x in MS[i].split(";")]
        m, s = m[2:], s[2:]
        r = R[i][2:] if i < len(R) and R[i].startswith("R ") else "crash"
        nontrivial = s.startswith("ok")
        ctx.case((c[0], c[1], c[2], c[3], c[4], c[5], c[6], tuple(c[7][:64])), nontrivial,
                 sample={"ntype": c[0], "acc": c[1], "n": c[2], "strides": [c[3], c[4]], "src_off": c[5],
                         "dst_off": c[6], "bytes": c[7][:24], "lib": r[:80]} if i % 97 == 0 else None)
        if s == "nodomain":
            # outside the property's domain only FAIL-ness of unsupported inputs is compared
            if m == "fail":
                stats["expected_fail"] += 1
                if r != "fail":
                    ctx.violation("library accepted a request the number-type table rejects: " + fmt(c)[:200],
                                  "# C06: expected FAIL\n" + fmt(c) + "\n# library: " + r, found=True)
            continue
        stats["in_domain"] += 1
        if r != s:
            ctx.violation("DFKconvert differs from the conversion specification",
                          "# C06 replay: feed this line to harness drive_conv; expected (spec) vs library\n" + fmt(c) +
                          "\n# spec:    " + s + "\n# model:   " + m + "\n# library: " + r, found=True)
            if len(ctx.violations) >= 3:
                break
        elif m != s:
            # proven impossible (dfkconvert_refines_spec) unless the proof is broken
            ctx.violation("model differs from specification (proof broken?)", fmt(c) + "\n# spec " + s + "\n# model " + m,
                          found=False)
            break
    if crash and not ctx.violations:
        ctx.violation("harness crashed (rc=%d) after %d of %d cases" % (rc, len(R), len(cases)),
                      "# C06 crash; first unprocessed case:\n" + fmt(cases[min(len(R), len(cases) - 1)]) + "\n" +
                      "\n".join(R[-15:]), found=True)
    ctx.corr("DFKconvert~model~spec", **stats)
    if len(ctx.violations) < 3:
        run_api(ctx)


API_NAMES = {1: "SD", 2: "VS(n records)", 3: "VS(order n)", 4: "GR", 5: "SD(two partial writes)",
             6: "DFSD written, read through SD", 7: "SD written, read through DFSD"}


def gen_api_cases(ctx):
    """API level: (api, ntype, n, memory bytes).  Every interface x base type x flavour, several lengths and contents."""
    r = ctx.rng
    cases = []
    reps = 2 if ctx.tier == "quick" else 12
    for api in (1, 2, 3, 4, 5, 6, 7):
        for base, w in W.items():
            for fl in FLAV:
                for k in range(reps):
                    n = r.choice([1, 2, 3, 5, 8, 13]) if k else r.choice([2, 4, 7])
                    if k % 2 == 0:
                        # asymmetric values: every byte of a value differs, so any byte-order slip shows
                        data = [(17 * i + 1 + 7 * (i % w)) & 255 for i in range(n * w)]
                    else:
                        data = [r.choice([0, 1, 127, 128, 255, r.randrange(256)]) for _ in range(n * w)]
                    cases.append((api, base | fl, n, data))
    return cases


def run_api(ctx):
    """raw file bytes of SD / Vdata / GR data vs the conversion specification, and the values read back"""
    cases = gen_api_cases(ctx)
    exe = ctx.harness("drive_convapi", ["drive_convapi.c"])
    mod = ctx.model("conv_model", ["conv_main.ml"], ["conv_model"])
    base = os.path.join(ctx.bdir, "harness", "c06-api-%d" % os.getpid())
    with open(base + ".in", "w") as fh:
        for api, nt, n, data in cases:
            fh.write("%d %d %d %d %s\n" % (api, nt, n, len(data), " ".join(map(str, data))))
    with open(base + ".min", "w") as fh:
        # the model's view: one contiguous out-of-place DFACC_WRITE conversion of the same values
        for api, nt, n, data in cases:
            fh.write(fmt((nt, 2, n, 0, 0, 0, len(data), data + [0] * len(data))) + "\n")
    rc, R = vc.run_lines(exe, base + ".in", timeout=1800, args=[base + ".hdf"])
    rcm, MS = vc.run_lines(mod, base + ".min", timeout=900)
    for suf in (".in", ".min", ".hdf"):
        try:
            os.unlink(base + suf)
        except OSError:
            pass
    if rcm != 0 or len(MS) != len(cases):
        raise vc.BuildError("model driver failed on the API cases (rc=%d)" % rcm)
    stats = {"cases": len(cases), "compared": 0, "rejected_by_interface": 0, "harness_rc": rc}
    rejected = {}
    for i, (api, nt, n, data) in enumerate(cases):
        line = "%d %d %d %d %s" % (api, nt, n, len(data), " ".join(map(str, data)))
        s = MS[i].split(";")[1].strip()[2:]
        r = R[i][2:] if i < len(R) and R[i].startswith("R ") else "crash"
        if not s.startswith("ok"):
            raise vc.BuildError("specification rejects a supported type in an API case: " + line[:80])
        want = s.split()[1:][len(data):]
        ctx.case(("api", api, nt, n, tuple(data[:64])), True,
                 sample={"api": API_NAMES[api], "ntype": nt, "n": n, "memory": data[:16], "lib": r[:60]} if i % 53 == 0 else None)
        if r.startswith("reject"):
            # the interface does not take this number type at creation: outside "supported number type" for that
            # interface (counted and listed in the evidence; nothing is stored, so nothing can read back wrong)
            stats["rejected_by_interface"] += 1
            rejected.setdefault(API_NAMES[api], set()).add(nt)
            continue
        what = None
        if r == "crash" or r.startswith("fail"):
            what = "interface accepted the type and then failed or crashed: " + r[:80]
        else:
            raw, back, two = [x.split() for x in r[2:].split("|")]
            mem = list(map(str, data))
            if raw != want:
                what = "bytes stored in the file differ from the representation the number type designates"
            elif back != mem:
                what = "values read back through the interface differ from the values written"
            elif two != mem:
                what = "raw element converted with DFKconvert differs from the values written"
        stats["compared"] += 1
        if what:
            ctx.violation("%s, number type %d: %s" % (API_NAMES[api], nt, what),
                          "# C06 api replay: one line for harness drive_convapi (api nt n len bytes)\napi " + line +
                          "\n# file bytes wanted (specification): " + " ".join(want) + "\n# library: " + r, found=True)
            if len(ctx.violations) >= 3:
                break
    if (rc != 0 or len(R) < len(cases)) and not ctx.violations:
        ctx.violation("API harness crashed (rc=%d) after %d of %d cases" % (rc, len(R), len(cases)),
                      "# C06 api crash; first unprocessed case:\napi %d %d %d ..." % cases[min(len(R), len(cases) - 1)][:3] +
                      "\n" + "\n".join(R[-10:]), found=True)
    stats["rejected_types"] = {k: sorted(v) for k, v in rejected.items()}
    ctx.corr("SD/Vdata/GR file bytes~spec, read back~written", **stats)


def replay(ctx, path):
    lines = [l for l in open(path).read().splitlines() if l and not l.startswith("#")]
    if lines and lines[0].startswith("api "):
        exe = ctx.harness("drive_convapi", ["drive_convapi.c"])
        tmp = path + ".in"
        open(tmp, "w").write("\n".join(l[4:] for l in lines) + "\n")
        print("\n".join(vc.run_lines(exe, tmp, args=[path + ".hdf"])[1]))
        os.unlink(tmp)
        return 0
    exe = ctx.harness("drive_conv", ["drive_conv.c"])
    mod = ctx.model("conv_model", ["conv_main.ml"], ["conv_model"])
    tmp = path + ".in"
    open(tmp, "w").write("\n".join(lines) + "\n")
    print("\n".join(vc.run_lines(exe, tmp)[1]))
    print("\n".join(vc.run_lines(mod, tmp)[1]))
    os.unlink(tmp)
    return 0
