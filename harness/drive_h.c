/* C01 harness: runs element-level histories against the freshly built library.
 * usage: drive_h <workdir> <history-file>
 * A history file holds several histories separated by lines "history <name>"; every history starts
 * from fresh files.  One output line per operation: "<lineno> ok v1 v2 .. [hex]" or "<lineno> fail".
 *
 * ops (F = file slot 0..2, H = handle slot 0..15):
 *   open F ndds cache            Hopen(DFACC_CREATE on first use / DFACC_RDWR afterwards), Hcache
 *   reopen F ndds cache          Hclose + Hopen(DFACC_RDWR)                   -> ok | fail
 *   startwrite H F tag ref len   Hstartwrite                                   -> ok | fail
 *   startaccess H F tag ref fl   Hstartaccess(flags fl)                        -> ok | fail
 *   hlcreate H F tag ref bl nb   HLcreate                                      -> ok | fail
 *   hlconvert H bl nb            HLconvert                                     -> ok | fail
 *   hxcreate H F tag ref X off len   HXcreate(extern file slot X)              -> ok | fail
 *   appendable H                 Happendable
 *   write H hex                  Hwrite                                        -> ok n | fail
 *   read H n                     Hread into an exact-size heap buffer          -> ok n hex | fail
 *   seek H off origin            Hseek                                         -> ok | fail
 *   tell H                       Htell                                         -> ok pos
 *   trunc H len                  Htrunc                                        -> ok len | fail
 *   inquire H                    Hinquire: length, posn (tag/ref)              -> ok tag ref len posn | fail
 *   end H                        Hendaccess
 *   length F tag ref             Hlength                                       -> ok len | fail
 *   getelement F tag ref         Hgetelement into exact buffer of Hlength      -> ok n hex | fail
 *   putelement F tag ref hex     Hputelement                                   -> ok n | fail
 *   dupdd F tag ref otag oref    Hdupdd(new, old)                              -> ok | fail
 *   deldd F tag ref              Hdeldd                                        -> ok | fail
 *   exist F tag ref              Hexist                                        -> ok | fail
 *   blocks H                     linked-block structure of an open linked element (R-vs-M observable):
 *                                ok len first_len blk_len nblocks  alloc-flags per table "t:1011"
 */
#include <stdio.h>
#include <stdlib.h>
#include <string.h>
#include <unistd.h>
#include "hdf.h"
#include "hfile_priv.h"

#define NF 3
#define NH 16
static int32 fid[NF];
static int   created[NF];
static int32 aid[NH];
static long  hkey[NH][3];   /* file slot, tag, ref each handle was opened on (diagnostics only) */
static int   probing;
static char  fname[NF + 4][512];

static int unhex(const char *s, unsigned char *out)
{
    int n = 0;
    if (s[0] == '-') return 0;
    while (s[0] && s[1]) { unsigned v; sscanf(s, "%2x", &v); out[n++] = (unsigned char)v; s += 2; }
    return n;
}
static void phex(const unsigned char *b, int n)
{
    if (n <= 0) { printf(" -"); return; }
    printf(" ");
    for (int i = 0; i < n; i++) printf("%02x", b[i]);
}

/* mirror of the private linked-block records (hblocks.c keeps them static) */
typedef struct vblock_t { uint16 ref; } vblock_t;
typedef struct vlink_t { uint16 nextref; struct vlink_t *next; vblock_t *block_list; } vlink_t;
typedef struct vlinkinfo_t { int attached; int32 length; int32 first_length; int32 block_length; int32 number_blocks; uint16 link_ref; vlink_t *link; vlink_t *last_link; } vlinkinfo_t;

/* is (tag,ref) stored as a special element right now?  (diagnostics only) */
static int is_special_now(int32 f, uint16 tag, uint16 ref)
{
    filerec_t *frec = HAatom_object(f);
    if (frec == NULL) return 0;
    atom_t dd = HTPselect(frec, tag, ref);
    if (dd == FAIL) return 0;
    int r = HTPis_special(dd) == TRUE;
    HTPendaccess(dd);
    return r;
}

static void reset(const char *dir)
{
    for (int i = 0; i < NH; i++) if (aid[i] != FAIL) { Hendaccess(aid[i]); aid[i] = FAIL; }
    for (int i = 0; i < NF; i++) { if (fid[i] != FAIL) Hclose(fid[i]); fid[i] = FAIL; created[i] = 0; }
    for (int i = 0; i < NF + 4; i++) { snprintf(fname[i], sizeof fname[i], "%s/f%d.hdf", dir, i); unlink(fname[i]); }
}

#include <sys/wait.h>
static void run_history(const char *dir, char **lines, long *lnos, long n);

int main(int argc, char **argv)
{
    if (argc < 3) return 2;
    const char *dir = argv[1];
    FILE *f = fopen(argv[2], "r");
    if (!f) return 2;
    /* read everything; every history runs in its own child process (fresh library state, crash containment) */
    static char buf[400000];
    char **lines = NULL; long *lnos = NULL; long n = 0, cap = 0, ln = 0;
    while (fgets(buf, sizeof buf, f)) {
        ln++;
        if (n == cap) { cap = cap ? cap * 2 : 1024; lines = realloc(lines, cap * sizeof *lines); lnos = realloc(lnos, cap * sizeof *lnos); }
        lines[n] = strdup(buf); lnos[n] = ln; n++;
    }
    long i = 0;
    int worst = 0;
    while (i < n) {
        long j = i + 1;
        while (j < n && strncmp(lines[j], "history", 7) != 0) j++;
        fflush(stdout);
        pid_t pid = fork();
        if (pid == 0) { run_history(dir, lines + i, lnos + i, j - i); fflush(stdout); _exit(0); }
        int st = 0;
        waitpid(pid, &st, 0);
        if (!(WIFEXITED(st) && WEXITSTATUS(st) == 0)) {
            int code = WIFEXITED(st) ? WEXITSTATUS(st) : 128 + WTERMSIG(st);
            printf("%ld crash %d\n", lnos[j - 1], code);
            if (code > worst) worst = code;
        }
        i = j;
    }
    return 0;
}

static void run_history(const char *dir, char **lines, long *lnos, long nlines)
{
    for (int i = 0; i < NH; i++) aid[i] = FAIL;
    for (int i = 0; i < NF; i++) fid[i] = FAIL;
    reset(dir);
    probing = getenv("DRIVE_H_PROBE") != NULL;
    static char line[400000], op[64], hex[390000];
    static unsigned char data[200000];
    for (long li = 0; li < nlines; li++) {
        long ln = lnos[li];
        strncpy(line, lines[li], sizeof line - 1);
        long a = 0, b = 0, c = 0, d = 0, e = 0, g = 0, h2 = 0;
        hex[0] = 0;
        if (sscanf(line, "%63s", op) != 1 || op[0] == '#') { printf("%ld skip\n", ln); continue; }
        if (!strcmp(op, "history")) { reset(dir); printf("%ld history\n", ln); fflush(stdout); continue; }
        if (probing && (!strcmp(op, "write") || !strcmp(op, "read") || !strcmp(op, "seek") || !strcmp(op, "trunc") ||
                        !strcmp(op, "inquire") || !strcmp(op, "tell"))) {
            /* diagnostic for known-finding matching only: is this handle still in plain mode although its
               element is stored as a special element by now? */
            long hs = 0;
            sscanf(line, "%*s %ld", &hs);
            if (hs >= 0 && hs < NH && aid[hs] != FAIL) {
                accrec_t *rec = HAatom_object(aid[hs]);
                if (rec && rec->special == 0 && fid[hkey[hs][0]] != FAIL &&
                    is_special_now(fid[hkey[hs][0]], (uint16)hkey[hs][1], (uint16)hkey[hs][2]))
                    printf("%ld stale-handle %ld %ld %ld %ld\n", ln, hs, hkey[hs][0], hkey[hs][1], hkey[hs][2]);
                if (rec && rec->special != 0 && !strcmp(op, "trunc"))
                    printf("%ld trunc-special %ld %ld %ld %ld\n", ln, hs, hkey[hs][0], hkey[hs][1], hkey[hs][2]);
            }
        }
        printf("%ld", ln);
        if (!strcmp(op, "open") || !strcmp(op, "reopen")) {
            sscanf(line, "%*s %ld %ld %ld", &a, &b, &c);
            int ok = 1;
            if (!strcmp(op, "reopen") && fid[a] != FAIL) { if (Hclose(fid[a]) == FAIL) ok = 0; else fid[a] = FAIL; }
            if (ok) {
                fid[a] = Hopen(fname[a], created[a] ? DFACC_RDWR : DFACC_CREATE, (int16)b);
                if (fid[a] == FAIL) ok = 0; else { created[a] = 1; Hcache(fid[a], (int)c); }
            }
            printf(ok ? " ok\n" : " fail\n");
        }
        else if (!strcmp(op, "startwrite")) {
            sscanf(line, "%*s %ld %ld %ld %ld %ld", &a, &b, &c, &d, &e);
            hkey[a][0] = b; hkey[a][1] = c; hkey[a][2] = d;
            aid[a] = Hstartwrite(fid[b], (uint16)c, (uint16)d, (int32)e);
            printf(aid[a] == FAIL ? " fail\n" : " ok\n");
        }
        else if (!strcmp(op, "startaccess")) {
            sscanf(line, "%*s %ld %ld %ld %ld %ld", &a, &b, &c, &d, &e);
            hkey[a][0] = b; hkey[a][1] = c; hkey[a][2] = d;
            aid[a] = Hstartaccess(fid[b], (uint16)c, (uint16)d, (uint32)e);
            printf(aid[a] == FAIL ? " fail\n" : " ok\n");
        }
        else if (!strcmp(op, "hlcreate")) {
            sscanf(line, "%*s %ld %ld %ld %ld %ld %ld", &a, &b, &c, &d, &e, &g);
            hkey[a][0] = b; hkey[a][1] = c; hkey[a][2] = d;
            aid[a] = HLcreate(fid[b], (uint16)c, (uint16)d, (int32)e, (int32)g);
            printf(aid[a] == FAIL ? " fail\n" : " ok\n");
        }
        else if (!strcmp(op, "hlconvert")) {
            sscanf(line, "%*s %ld %ld %ld", &a, &b, &c);
            printf(HLconvert(aid[a], (int32)b, (int32)c) == FAIL ? " fail\n" : " ok\n");
        }
        else if (!strcmp(op, "hxcreate")) {
            sscanf(line, "%*s %ld %ld %ld %ld %ld %ld %ld", &a, &b, &c, &d, &e, &g, &h2);
            hkey[a][0] = b; hkey[a][1] = c; hkey[a][2] = d;
            aid[a] = HXcreate(fid[b], (uint16)c, (uint16)d, fname[NF + e], (int32)g, (int32)h2);
            printf(aid[a] == FAIL ? " fail\n" : " ok\n");
        }
        else if (!strcmp(op, "hbconvert")) {
            sscanf(line, "%*s %ld", &a);
            printf(HBconvert(aid[a]) == FAIL ? " fail\n" : " ok\n");
        }
        else if (!strcmp(op, "appendable")) {
            sscanf(line, "%*s %ld", &a);
            printf(Happendable(aid[a]) == FAIL ? " fail\n" : " ok\n");
        }
        else if (!strcmp(op, "write")) {
            sscanf(line, "%*s %ld %389999s", &a, hex);
            int n = unhex(hex, data);
            unsigned char *buf = malloc(n > 0 ? n : 1);
            memcpy(buf, data, n);
            int32 r = Hwrite(aid[a], n, buf);
            free(buf);
            if (r == FAIL) printf(" fail\n"); else printf(" ok %d\n", (int)r);
        }
        else if (!strcmp(op, "read")) {
            sscanf(line, "%*s %ld %ld", &a, &b);
            /* exact-size buffer: the library may deliver at most b bytes (or to end of element when b = 0) */
            int32 cap = (int32)b;
            if (b == 0) { int32 len = 0, pos = 0; if (Hinquire(aid[a], NULL, NULL, NULL, &len, NULL, &pos, NULL, NULL) != FAIL && len > pos) cap = len - pos; }
            unsigned char *buf = malloc(cap > 0 ? cap : 1);
            memset(buf, 0xEE, cap > 0 ? cap : 1);
            int32 r = Hread(aid[a], (int32)b, buf);
            if (r == FAIL) printf(" fail\n"); else { printf(" ok %d", (int)r); phex(buf, r <= cap ? r : cap); printf("\n"); }
            free(buf);
        }
        else if (!strcmp(op, "seek")) {
            sscanf(line, "%*s %ld %ld %ld", &a, &b, &c);
            printf(Hseek(aid[a], (int32)b, (int)c) == FAIL ? " fail\n" : " ok\n");
        }
        else if (!strcmp(op, "tell")) {
            sscanf(line, "%*s %ld", &a);
            int32 r = Htell(aid[a]);
            if (r == FAIL) printf(" fail\n"); else printf(" ok %d\n", (int)r);
        }
        else if (!strcmp(op, "trunc")) {
            sscanf(line, "%*s %ld %ld", &a, &b);
            int32 r = Htrunc(aid[a], (int32)b);
            if (r == FAIL) printf(" fail\n"); else printf(" ok %d\n", (int)r);
        }
        else if (!strcmp(op, "inquire")) {
            sscanf(line, "%*s %ld", &a);
            uint16 t = 0, r = 0; int32 len = 0, pos = 0;
            if (Hinquire(aid[a], NULL, &t, &r, &len, NULL, &pos, NULL, NULL) == FAIL) printf(" fail\n");
            else printf(" ok %d %d %d %d\n", (int)BASETAG(t), (int)r, (int)len, (int)pos);
        }
        else if (!strcmp(op, "end")) {
            sscanf(line, "%*s %ld", &a);
            int r = Hendaccess(aid[a]);
            aid[a] = FAIL;
            printf(r == FAIL ? " fail\n" : " ok\n");
        }
        else if (!strcmp(op, "length")) {
            sscanf(line, "%*s %ld %ld %ld", &a, &b, &c);
            int32 r = Hlength(fid[a], (uint16)b, (uint16)c);
            if (r == FAIL) printf(" fail\n"); else printf(" ok %d\n", (int)r);
        }
        else if (!strcmp(op, "getelement")) {
            sscanf(line, "%*s %ld %ld %ld", &a, &b, &c);
            int32 len = Hlength(fid[a], (uint16)b, (uint16)c);
            if (len == FAIL) { printf(" fail\n"); }
            else {
                unsigned char *buf = malloc(len > 0 ? len : 1);
                int32 r = Hgetelement(fid[a], (uint16)b, (uint16)c, buf);
                if (r == FAIL) printf(" fail\n"); else { printf(" ok %d", (int)r); phex(buf, r <= len ? r : len); printf("\n"); }
                free(buf);
            }
        }
        else if (!strcmp(op, "putelement")) {
            sscanf(line, "%*s %ld %ld %ld %389999s", &a, &b, &c, hex);
            int n = unhex(hex, data);
            unsigned char *buf = malloc(n > 0 ? n : 1);
            memcpy(buf, data, n);
            int32 r = Hputelement(fid[a], (uint16)b, (uint16)c, buf, n);
            free(buf);
            if (r == FAIL) printf(" fail\n"); else printf(" ok %d\n", (int)r);
        }
        else if (!strcmp(op, "dupdd")) {
            sscanf(line, "%*s %ld %ld %ld %ld %ld", &a, &b, &c, &d, &e);
            printf(Hdupdd(fid[a], (uint16)b, (uint16)c, (uint16)d, (uint16)e) == FAIL ? " fail\n" : " ok\n");
        }
        else if (!strcmp(op, "deldd")) {
            sscanf(line, "%*s %ld %ld %ld", &a, &b, &c);
            printf(Hdeldd(fid[a], (uint16)b, (uint16)c) == FAIL ? " fail\n" : " ok\n");
        }
        else if (!strcmp(op, "exist")) {
            sscanf(line, "%*s %ld %ld %ld", &a, &b, &c);
            printf(Hexist(fid[a], (uint16)b, (uint16)c) == FAIL ? " fail\n" : " ok\n");
        }
        else if (!strcmp(op, "blocks")) {
            sscanf(line, "%*s %ld", &a);
            accrec_t *rec = HAatom_object(aid[a]);
            if (rec == NULL || rec->special != SPECIAL_LINKED || rec->special_info == NULL) printf(" fail\n");
            else {
                vlinkinfo_t *info = (vlinkinfo_t *)rec->special_info;
                printf(" ok %d %d %d %d", (int)info->length, (int)info->first_length, (int)info->block_length, (int)info->number_blocks);
                for (vlink_t *l = info->link; l; l = l->next) {
                    printf(" t:");
                    for (int i = 0; i < info->number_blocks; i++) printf("%d", l->block_list[i].ref != 0);
                }
                printf("\n");
            }
        }
        else if (!strcmp(op, "layout")) {
            /* R-vs-M observable for the contiguous model: end-of-file offset and every descriptor */
            sscanf(line, "%*s %ld", &a);
            filerec_t *frec = HAatom_object(fid[a]);
            if (frec == NULL) printf(" fail\n");
            else {
                uint16 t = 0, r = 0; int32 off = 0, len = 0;
                printf(" ok %d", (int)frec->f_end_off);
                while (Hfind(fid[a], DFTAG_WILDCARD, DFREF_WILDCARD, &t, &r, &off, &len, DF_FORWARD) == SUCCEED)
                    printf(" %d:%d:%d:%d", (int)t, (int)r, (int)off, (int)len);
                printf("\n");
            }
        }
        else if (!strcmp(op, "isspecial")) {
            /* diagnostic only: is (tag,ref) stored as a special element right now? */
            sscanf(line, "%*s %ld %ld %ld", &a, &b, &c);
            printf(" ok %d\n", is_special_now(fid[a], (uint16)b, (uint16)c));
        }
        else if (!strcmp(op, "probe")) {
            /* diagnostic only (never compared): which open handles are in special (linked-block) mode */
            printf(" ok");
            for (int i = 0; i < NH; i++) if (aid[i] != FAIL) {
                accrec_t *rec = HAatom_object(aid[i]);
                if (rec) printf(" %d:%d", i, (int)rec->special);
            }
            printf("\n");
        }
        else printf(" badop\n");
        fflush(stdout);
    }
    reset(dir);
}
