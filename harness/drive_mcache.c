/* C04 function-level harness: the real mcache_open/filter/get/put/sync/set_maxcache over an in-memory backing store.
 *   line: <maxcache> <npages> <pagesize> <fill> <nops> (<k> <pgno> <v>)*
 *         k = 0 get + put clean | 1 get, page := v :: page-without-last, put DIRTY | 2 sync | 3 set_maxcache(pgno)
 *   out : [ page seen ] per op ... S [ backing page ] per page          (values only) */
#include <stdio.h>
#include <stdlib.h>
#include <string.h>
#include "hdf.h"
#include "mcache_priv.h"

static long   psize, np;
static int32 *backing; /* np pages of psize int32 values */

static int32 pin(void *cookie, int32 pgno, void *page)
{
    (void)cookie;
    if (pgno < 0 || pgno >= np) return FAIL;
    memcpy(page, backing + pgno * psize, (size_t)psize * sizeof(int32));
    return SUCCEED;
}
static int32 pout(void *cookie, int32 pgno, const void *page)
{
    (void)cookie;
    if (pgno < 0 || pgno >= np) return FAIL;
    memcpy(backing + pgno * psize, page, (size_t)psize * sizeof(int32));
    return SUCCEED;
}

int main(int argc, char **argv)
{
    FILE *f = argc > 1 ? fopen(argv[1], "r") : stdin;
    long  maxc, fill, nops;
    if (!f) return 2;
    while (fscanf(f, "%ld %ld %ld %ld %ld", &maxc, &np, &psize, &fill, &nops) == 5) {
        MCACHE *mp;
        long    i, k;
        int32   key = 0;
        backing = (int32 *)malloc((size_t)(np * psize + 1) * sizeof(int32));
        for (i = 0; i < np * psize; i++) backing[i] = (int32)fill;
        mp = mcache_open(&key, 1, (int32)(psize * (long)sizeof(int32)), (int32)maxc, (int32)np, 0);
        if (!mp) { printf("openfail\n"); return 2; }
        mcache_filter(mp, pin, pout, NULL);
        for (i = 0; i < nops; i++) {
            long kind, pgno, v;
            if (fscanf(f, "%ld %ld %ld", &kind, &pgno, &v) != 3) return 2;
            if (kind == 0 || kind == 1) {
                int32 *pg = (int32 *)mcache_get(mp, (int32)pgno, 0);
                if (!pg) { printf("[ -1 ] "); continue; }
                printf("[ ");
                for (k = 0; k < psize; k++) printf("%d ", (int)pg[k]);
                printf("] ");
                if (kind == 1 && psize > 0) {
                    memmove(pg + 1, pg, (size_t)(psize - 1) * sizeof(int32));
                    pg[0] = (int32)v;
                }
                if (mcache_put(mp, pg, kind == 1 ? MCACHE_DIRTY : 0) == FAIL) printf("putfail ");
            }
            else if (kind == 2) printf("[ %d ] ", mcache_sync(mp) == FAIL ? -1 : 0);
            else printf("[ %d ] ", (int)mcache_set_maxcache(mp, (int32)pgno));
        }
        printf("S ");
        for (i = 0; i < np; i++) {
            printf("[ ");
            for (k = 0; k < psize; k++) printf("%d ", (int)backing[i * psize + k]);
            printf("] ");
        }
        printf("\n");
        mcache_close(mp);
        free(backing);
    }
    return 0;
}
