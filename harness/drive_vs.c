/* C07 harness: runs Vdata histories against the freshly built library.
 * usage: drive_vs <workdir> <history-file>          (env DRIVE_VS_TRACE=1: also print the R-vs-M call records)
 *
 * A history file holds several histories separated by lines "history <name>"; every history runs in its own child
 * process on a fresh file.  One output line per operation: "<lineno> ok v.. [names] [hex..]" or "<lineno> fail".
 *
 * vrw.c (VSseek / VSread / VSwrite) is compiled into this program from the library source itself (#include below),
 * with Hread / Hwrite / Hseek routed through logging shims, so that the transfers the Vdata layer issues and its
 * private transfer-buffer size are observable (R-vs-M correspondence).  Everything else comes from the static library.
 *
 * ops (V = vdata / handle slot 0..15; every op below takes a handle slot):
 *   new V                      VSattach(f, -1, "w")                           -> ok | fail
 *   define V name type order   VSfdefine                                       -> ok | fail
 *   setil V il                 VSsetinterlace                                  -> ok | fail
 *   setfields V a,b,c          VSsetfields                                     -> ok | fail
 *   write V n il hex           VSwrite from an exact-size heap buffer          -> ok n | fail
 *   seek V p                   VSseek                                          -> ok p | fail
 *   read V n il                VSread into an exact-size heap buffer           -> ok n hex | fail
 *   detach V                   VSdetach                                        -> ok | fail
 *   attach V r|w               VSattach(f, ref, mode)                          -> ok | fail
 *   attachto H V r|w           a further VSattach of the vdata of slot V, kept in handle slot H (8..15) -> ok | fail
 *   reopen                     Vend + Hclose + Hopen + Vstart                  -> ok | fail
 *   inquire V                  VSinquire                                       -> ok nrec il eltsize nfields names | fail
 *   setname V s / setclass V s VSsetname / VSsetclass ('-' = empty string)             -> ok | fail
 *   getname V / getclass V     VSgetname / VSgetclass                          -> ok s | fail
 *   elts V                     VSelts                                          -> ok n | fail
 *   fexist V a,b               VSfexist                                        -> ok (all exist) | fail
 *   sizeof V a,b               VSsizeof                                        -> ok n | fail
 *   field V idx                VFfieldtype/isize/esize/order/name              -> ok t is es ord name | fail
 *   nfields V                  VFnfields                                       -> ok n | fail
 *   blocksize V n / numblocks V n   VSsetblocksize / VSsetnumblocks            -> ok | fail
 *   pack V n bufflds|* flds|* hex;hex..     VSfpack(_HDF_VSPACK) into a zeroed exact-size buffer  -> ok hex | fail
 *   unpack V n bufflds|* flds|* hex         VSfpack(_HDF_VSUNPACK)             -> ok hex hex .. | fail
 *   raw V                      (R-vs-M only) bytes of the data element, through a fresh access id -> ok hex
 */
#include <stdio.h>
#include <stdlib.h>
#include <string.h>
#include <unistd.h>
#include <sys/wait.h>
#include "hdf.h"
#include "hfile_priv.h"
#include "vg_priv.h"

/* ---- transfer log around the library's own vrw.c ------------------------------------------------ */
#define TLOG_MAX 4096
static int   tracing;
static long  keep_max = 1200;          /* byte-level call records only for transfers up to this size */
static int   tlog_on;
static int   tlog_n;
static long  tlog_len[TLOG_MAX];       /* requested length of each Hread/Hwrite */
static char  tlog_kind[TLOG_MAX];      /* 'r' 'w' 's' */
static unsigned char *tlog_data;       /* concatenated bytes transferred (only kept while small) */
static long  tlog_dlen, tlog_dcap;
static int   tlog_keep;

static void tlog_add(char kind, long len, const void *data, long got)
{
    if (!tlog_on) return;
    if (tlog_n < TLOG_MAX) { tlog_kind[tlog_n] = kind; tlog_len[tlog_n] = len; tlog_n++; }
    if (tlog_keep && data && got > 0) {
        if (tlog_dlen + got > tlog_dcap) { tlog_dcap = (tlog_dlen + got) * 2; tlog_data = realloc(tlog_data, tlog_dcap); }
        memcpy(tlog_data + tlog_dlen, data, got);
        tlog_dlen += got;
    }
}
static int32 shim_Hread(int32 aid, int32 len, void *data)
{
    int32 r = Hread(aid, len, data);
    tlog_add('r', len, data, r);
    return r;
}
static int32 shim_Hwrite(int32 aid, int32 len, const void *data)
{
    tlog_add('w', len, data, len);
    return Hwrite(aid, len, data);
}
static int shim_Hseek(int32 aid, int32 off, int origin)
{
    tlog_add('s', off, NULL, 0);
    return Hseek(aid, off, origin);
}
#define Hread  shim_Hread
#define Hwrite shim_Hwrite
#define Hseek  shim_Hseek
#include "vrw.c"
#undef Hread
#undef Hwrite
#undef Hseek

/* ---- helpers -------------------------------------------------------------------------------------- */
#define NV 16
static int32 fid = FAIL;
static int32 vid[NV];
static int32 vref[NV];
static char  fname[600];

static int hexv(char c) { return c >= '0' && c <= '9' ? c - '0' : c >= 'a' && c <= 'f' ? c - 'a' + 10 : c >= 'A' && c <= 'F' ? c - 'A' + 10 : 0; }
static long unhex(const char *s, unsigned char *out)
{
    long n = 0;
    if (s[0] == '-') return 0;
    while (s[0] && s[1] && s[0] != ';' && s[0] != '\n') {
        out[n++] = (unsigned char)(hexv(s[0]) * 16 + hexv(s[1])); s += 2;
    }
    return n;
}
static void phex(const unsigned char *b, long n)
{
    static const char *d = "0123456789abcdef";
    if (n <= 0) { printf(" -"); return; }
    putchar(' ');
    for (long i = 0; i < n; i++) { putchar(d[b[i] >> 4]); putchar(d[b[i] & 15]); }
}
static void pwl(DYN_VWRITELIST *w)
{
    printf(" %d:", w->n);
    for (int j = 0; j < w->n; j++)
        printf("%s%d,%d,%d,%d,%d", j ? ";" : "", (int)w->type[j], (int)w->isize[j], (int)w->esize[j], (int)w->order[j], (int)w->off[j]);
    if (w->n == 0) printf("-");
}
static VDATA *vs_of(int32 id)
{
    if (HAatom_group(id) != VSIDGROUP) return NULL;
    vsinstance_t *w = (vsinstance_t *)HAatom_object(id);
    return w ? w->vs : NULL;
}
static int openfile(int create)
{
    fid = Hopen(fname, create ? DFACC_CREATE : DFACC_RDWR, 0);
    if (fid == FAIL) return FAIL;
    if (Vstart(fid) == FAIL) return FAIL;
    return SUCCEED;
}

static void run_history(const char *dir, char **lines, long *lnos, long nlines);

int main(int argc, char **argv)
{
    if (argc < 3) return 2;
    const char *dir = argv[1];
    FILE *f = fopen(argv[2], "r");
    if (!f) return 2;
    tracing = getenv("DRIVE_VS_TRACE") != NULL;
    size_t cap = 1 << 22;
    char *buf = malloc(cap);
    char **lines = NULL; long *lnos = NULL; long n = 0, lcap = 0, ln = 0;
    while (fgets(buf, cap, f)) {
        /* long lines: grow */
        while (!strchr(buf, '\n') && !feof(f)) {
            size_t l = strlen(buf);
            cap *= 2; buf = realloc(buf, cap);
            if (!fgets(buf + l, cap - l, f)) break;
        }
        ln++;
        if (n == lcap) { lcap = lcap ? lcap * 2 : 1024; lines = realloc(lines, lcap * sizeof *lines); lnos = realloc(lnos, lcap * sizeof *lnos); }
        lines[n] = strdup(buf); lnos[n] = ln; n++;
    }
    long i = 0;
    while (i < n) {
        long j = i + 1;
        while (j < n && strncmp(lines[j], "history", 7) != 0) j++;
        fflush(stdout);
        pid_t pid = fork();
        if (pid == 0) { run_history(dir, lines + i, lnos + i, j - i); fflush(stdout); _exit(0); }
        int st = 0;
        waitpid(pid, &st, 0);
        if (!(WIFEXITED(st) && WEXITSTATUS(st) == 0)) {
            int code = WIFEXITED(st) ? WEXITSTATUS(st) : 128 + WTERMSIG(st);
            printf("%ld crash %d\n", lnos[j - 1], code);
        }
        i = j;
    }
    return 0;
}

static int split_names(char *s, char **out, int max)
{
    int n = 0;
    char *p = s;
    while (n < max) {
        out[n++] = p;
        char *c = strchr(p, ',');
        if (!c) break;
        *c = 0; p = c + 1;
    }
    return n;
}

static void run_history(const char *dir, char **lines, long *lnos, long nlines)
{
    for (int i = 0; i < NV; i++) { vid[i] = FAIL; vref[i] = -1; }
    snprintf(fname, sizeof fname, "%s/v%ld.hdf", dir, (long)getpid());
    unlink(fname);
    int opened = 0;
    for (long li = 0; li < nlines; li++) {
        long ln = lnos[li];
        char *line = lines[li];
        size_t L = strlen(line);
        char op[64] = "";
        if (sscanf(line, "%63s", op) != 1 || op[0] == '#') { printf("%ld skip\n", ln); continue; }
        if (!strcmp(op, "history")) { printf("%ld history\n", ln); fflush(stdout); continue; }
        if (!opened) { if (openfile(1) == FAIL) { printf("%ld crash 3\n", ln); return; } opened = 1; }
        long v = 0, a = 0, b = 0;
        char *s1 = malloc(L + 2), *s2 = malloc(L + 2), *s3 = malloc(L + 2);
        s1[0] = s2[0] = s3[0] = 0;
        if (!strcmp(op, "new")) {
            sscanf(line, "%*s %ld", &v);
            int32 id = VSattach(fid, -1, "w");
            if (id == FAIL) printf("%ld fail\n", ln);
            else { vid[v] = id; vref[v] = VSQueryref(id); printf("%ld ok\n", ln); }
        }
        else if (!strcmp(op, "define")) {
            sscanf(line, "%*s %ld %s %ld %ld", &v, s1, &a, &b);
            if (tracing) {
                VDATA *vs = vs_of(vid[v]);
                if (vs) {
                    printf("MC %ld fdefine %d:", ln, (int)vs->nusym);
                    for (int j = 0; j < vs->nusym; j++) printf("%s%s,%d,%d,%d", j ? ";" : "", vs->usym[j].name, (int)vs->usym[j].type, (int)vs->usym[j].isize, (int)vs->usym[j].order);
                    if (vs->nusym == 0) printf("-");
                    printf(" %s %ld %ld\n", s1, a, b);
                }
            }
            int r = VSfdefine(vid[v], s1, (int32)a, (int32)b);
            if (tracing) {
                VDATA *vs = vs_of(vid[v]);
                if (vs) {
                    printf("MR %ld %d %d:", ln, r, (int)vs->nusym);
                    for (int j = 0; j < vs->nusym; j++) printf("%s%s,%d,%d,%d", j ? ";" : "", vs->usym[j].name, (int)vs->usym[j].type, (int)vs->usym[j].isize, (int)vs->usym[j].order);
                    if (vs->nusym == 0) printf("-");
                    printf("\n");
                }
            }
            printf(r == FAIL ? "%ld fail\n" : "%ld ok\n", ln);
        }
        else if (!strcmp(op, "setil")) {
            sscanf(line, "%*s %ld %ld", &v, &a);
            printf(VSsetinterlace(vid[v], (int32)a) == FAIL ? "%ld fail\n" : "%ld ok\n", ln);
        }
        else if (!strcmp(op, "setfields")) {
            sscanf(line, "%*s %ld %s", &v, s1);
            VDATA *vs = tracing ? vs_of(vid[v]) : NULL;
            int defmode = vs && vs->access == 'w' && vs->nvertices == 0 && vs->wlist.n == 0;
            int rdmode = vs && !defmode && vs->nvertices > 0;
            if (defmode) {
                printf("MC %ld setfields_w %d:", ln, (int)vs->nusym);
                for (int j = 0; j < vs->nusym; j++) printf("%s%s,%d,%d,%d", j ? ";" : "", vs->usym[j].name, (int)vs->usym[j].type, (int)vs->usym[j].isize, (int)vs->usym[j].order);
                if (vs->nusym == 0) printf("-");
                printf(" %s\n", s1);
            }
            else if (rdmode) {
                printf("MC %ld setfields_r %d:", ln, vs->wlist.n);
                for (int j = 0; j < vs->wlist.n; j++) printf("%s%s", j ? "," : "", vs->wlist.name[j]);
                printf(" %s\n", s1);
            }
            int r = VSsetfields(vid[v], s1);
            if (defmode) {
                printf("MR %ld %d", ln, r);
                if (r != FAIL) { pwl(&vs->wlist); printf(" %d", (int)vs->wlist.ivsize); }
                printf("\n");
            }
            else if (rdmode) {
                printf("MR %ld %d", ln, r);
                if (r != FAIL) { printf(" %d:", vs->rlist.n); for (int j = 0; j < vs->rlist.n; j++) printf("%s%d", j ? "," : "", vs->rlist.item[j]); }
                printf("\n");
            }
            printf(r == FAIL ? "%ld fail\n" : "%ld ok\n", ln);
        }
        else if (!strcmp(op, "write")) {
            sscanf(line, "%*s %ld %ld %ld %s", &v, &a, &b, s1);
            unsigned char *data = malloc(strlen(s1) / 2 + 1);
            long dl = unhex(s1, data);
            unsigned char *exact = malloc(dl ? dl : 1);
            memcpy(exact, data, dl);
            VDATA *vs = tracing ? vs_of(vid[v]) : NULL;
            int32 pos = 0;
            if (vs && vs->aid != 0 && vs->aid != FAIL && vs->wlist.n > 0 && vs->access == 'w') {
                HQueryposition(vs->aid, &pos);
                printf("MC %ld vswrite %d %ld %ld %u %d %d", ln, (int)vs->interlace, b, a, (unsigned)Vtbufsize, (int)pos, (int)vs->nvertices);
                pwl(&vs->wlist);
                if (dl <= keep_max) phex(exact, dl); else printf(" -");
                printf("\n");
                tlog_on = 1; tlog_n = 0; tlog_dlen = 0; tlog_keep = dl <= keep_max;
            }
            else vs = NULL;
            int32 r = VSwrite(vid[v], exact, (int32)a, (int32)b);
            if (vs) {
                tlog_on = 0;
                printf("MR %ld %d %u %d", ln, (int)r, (unsigned)Vtbufsize, (int)vs->nvertices);
                if (tlog_keep) {
                    long o = 0;
                    for (int k = 0; k < tlog_n; k++) { if (tlog_kind[k] == 'w') { phex(tlog_data + o, tlog_len[k]); o += tlog_len[k]; } }
                }
                else for (int k = 0; k < tlog_n; k++) printf(" %c%ld", tlog_kind[k], tlog_len[k]);
                printf("\n");
            }
            free(exact); free(data);
            if (r == FAIL) printf("%ld fail\n", ln); else printf("%ld ok %d\n", ln, (int)r);
        }
        else if (!strcmp(op, "seek")) {
            sscanf(line, "%*s %ld %ld", &v, &a);
            VDATA *vs = tracing ? vs_of(vid[v]) : NULL;
            if (vs) { printf("MC %ld vsseek %ld %d %d\n", ln, a, (int)vs->wlist.ivsize, vs->wlist.n); tlog_on = 1; tlog_n = 0; tlog_keep = 0; }
            int32 r = VSseek(vid[v], (int32)a);
            if (vs) {
                tlog_on = 0;
                printf("MR %ld %d", ln, (int)r);
                for (int k = 0; k < tlog_n; k++) printf(" %c%ld", tlog_kind[k], tlog_len[k]);
                printf("\n");
            }
            if (r == FAIL) printf("%ld fail\n", ln); else printf("%ld ok %d\n", ln, (int)r);
        }
        else if (!strcmp(op, "read")) {
            sscanf(line, "%*s %ld %ld %ld", &v, &a, &b);
            VDATA *vs = vs_of(vid[v]);
            long uv = 0;
            if (vs) {
                if (vs->wlist.n == 1) uv = vs->wlist.esize[0];
                else for (int j = 0; j < vs->rlist.n; j++) uv += vs->wlist.esize[vs->rlist.item[j]];
            }
            long sz = a > 0 ? a * uv : 0;
            unsigned char *out = malloc(sz ? sz : 1);
            memset(out, 0xEE, sz ? sz : 1);
            int tr = tracing && vs && vs->wlist.n > 0 && vs->nvertices > 0 && vs->aid != 0 && vs->aid != FAIL && a > 0;
            unsigned vtb0 = Vtbufsize;
            if (tr) { tlog_on = 1; tlog_n = 0; tlog_dlen = 0; tlog_keep = a * (long)vs->wlist.ivsize <= keep_max; }
            int32 r = VSread(vid[v], out, (int32)a, (int32)b);
            if (tr) {
                tlog_on = 0;
                printf("MC %ld vsread %d %ld %ld %u", ln, (int)vs->interlace, b, a, vtb0);
                pwl(&vs->wlist);
                printf(" %d:", vs->rlist.n);
                for (int j = 0; j < vs->rlist.n; j++) printf("%s%d", j ? "," : "", vs->rlist.item[j]);
                if (vs->rlist.n == 0) printf("-");
                if (tlog_keep && r != FAIL) phex(tlog_data, tlog_dlen); else printf(" -");
                printf("\n");
                printf("MR %ld %d %u", ln, (int)r, (unsigned)Vtbufsize);
                if (r != FAIL) {
                    if (tlog_keep) phex(out, sz);
                    else for (int k = 0; k < tlog_n; k++) printf(" %c%ld", tlog_kind[k], tlog_len[k]);
                }
                printf("\n");
            }
            if (r == FAIL) printf("%ld fail\n", ln);
            else { printf("%ld ok %d", ln, (int)r); phex(out, r > 0 ? r * uv : 0); printf("\n"); }
            free(out);
        }
        else if (!strcmp(op, "detach")) {
            sscanf(line, "%*s %ld", &v);
            VDATA *vs = tracing ? vs_of(vid[v]) : NULL;
            if (vs && vs->access == 'w' && vs->marked) {
                unsigned char *hb = malloc(sizeof(VWRITELIST) + sizeof(VDATA) + 64);
                int32 hs = 0;
                printf("MC %ld vpackvs %d %d %d", ln, (int)vs->interlace, (int)vs->nvertices, (int)vs->wlist.ivsize);
                pwl(&vs->wlist);
                printf(" ");
                for (int j = 0; j < vs->wlist.n; j++) printf("%s%s", j ? "," : "", vs->wlist.name[j]);
                if (vs->wlist.n == 0) printf("-");
                printf(" %s %s %d %d %d %d %u\n", vs->vsname[0] ? vs->vsname : "-", vs->vsclass[0] ? vs->vsclass : "-", (int)vs->extag, (int)vs->exref, (int)vs->version, (int)vs->more, (unsigned)vs->flags);
                vpackvs(vs, hb, &hs);
                printf("MR %ld", ln); phex(hb, hs); printf("\n");
                free(hb);
            }
            int32 r = VSdetach(vid[v]);
            if (r != FAIL) vid[v] = FAIL;
            printf(r == FAIL ? "%ld fail\n" : "%ld ok\n", ln);
        }
        else if (!strcmp(op, "attach")) {
            sscanf(line, "%*s %ld %s", &v, s1);
            if (vref[v] < 0 || vid[v] != FAIL) { printf("%ld fail\n", ln); }
            else {
                int32 id = VSattach(fid, vref[v], s1);
                if (id == FAIL) printf("%ld fail\n", ln);
                else {
                    vid[v] = id;
                    VDATA *vs = tracing ? vs_of(id) : NULL;
                    if (vs) {
                        /* the stored header and what the library made of it */
                        int32 hl = Hlength(fid, DFTAG_VH, (uint16)vref[v]);
                        if (hl > 0) {
                            unsigned char *hb = malloc(hl);
                            if (Hgetelement(fid, DFTAG_VH, (uint16)vref[v], hb) != FAIL) {
                                printf("MC %ld vunpackvs", ln); phex(hb, hl); printf("\n");
                                printf("MR %ld %d %d %d", ln, (int)vs->interlace, (int)vs->nvertices, (int)vs->wlist.ivsize);
                                pwl(&vs->wlist);
                                printf(" ");
                                for (int j = 0; j < vs->wlist.n; j++) printf("%s%s", j ? "," : "", vs->wlist.name[j]);
                                if (vs->wlist.n == 0) printf("-");
                                printf(" %s %s %d %d %d %d\n", vs->vsname[0] ? vs->vsname : "-", vs->vsclass[0] ? vs->vsclass : "-", (int)vs->extag, (int)vs->exref, (int)vs->version, (int)vs->more);
                            }
                            free(hb);
                        }
                    }
                    printf("%ld ok\n", ln);
                }
            }
        }
        else if (!strcmp(op, "attachto")) {
            /* a further attachment (handle slot v) of the vdata created in slot a */
            sscanf(line, "%*s %ld %ld %s", &v, &a, s1);
            if (a < 0 || a >= NV || vref[a] < 0 || vid[v] != FAIL) { printf("%ld fail\n", ln); }
            else {
                int32 id = VSattach(fid, vref[a], s1);
                if (id == FAIL) printf("%ld fail\n", ln);
                else { vid[v] = id; vref[v] = vref[a]; printf("%ld ok\n", ln); }
            }
        }
        else if (!strcmp(op, "reopen")) {
            int ok = 1;
            for (int i = 0; i < NV; i++) if (vid[i] != FAIL) { VSdetach(vid[i]); vid[i] = FAIL; }
            if (Vend(fid) == FAIL) ok = 0;
            if (Hclose(fid) == FAIL) ok = 0;
            fid = FAIL;
            if (openfile(0) == FAIL) { printf("%ld crash 4\n", ln); return; }
            printf(ok ? "%ld ok\n" : "%ld fail\n", ln);
        }
        else if (!strcmp(op, "inquire")) {
            sscanf(line, "%*s %ld", &v);
            int32 ne = -7, il = -7, es = -7;
            char *flds = malloc(VSFIELDMAX * (FIELDNAMELENMAX + 1) + 1);
            char nm[VSNAMELENMAX + 1];
            flds[0] = 0;
            int r = VSinquire(vid[v], &ne, &il, flds, &es, nm);
            if (r == FAIL) printf("%ld fail\n", ln);
            else printf("%ld ok %d %d %d %d %s\n", ln, (int)ne, (int)il, (int)es, (int)VFnfields(vid[v]), flds[0] ? flds : "-");
            free(flds);
        }
        else if (!strcmp(op, "setname") || !strcmp(op, "setclass")) {
            sscanf(line, "%*s %ld %s", &v, s1);
            const char *val = strcmp(s1, "-") ? s1 : "";
            int isname = op[3] == 'n';
            VDATA *vs = tracing ? vs_of(vid[v]) : NULL;
            if (vs && vs->access == 'w') {
                const char *cur = isname ? vs->vsname : vs->vsclass;
                printf("MC %ld %s %s %s %d\n", ln, isname ? "setname" : "setclass", cur[0] ? cur : "-", s1, vs->new_h_sz ? 1 : 0);
            }
            else vs = NULL;
            int32 r = isname ? VSsetname(vid[v], val) : VSsetclass(vid[v], val);
            if (vs) {
                const char *now = isname ? vs->vsname : vs->vsclass;
                printf("MR %ld %d %s %d\n", ln, (int)r, now[0] ? now : "-", vs->new_h_sz ? 1 : 0);
            }
            printf(r == FAIL ? "%ld fail\n" : "%ld ok\n", ln);
        }
        else if (!strcmp(op, "getname") || !strcmp(op, "getclass")) {
            sscanf(line, "%*s %ld", &v);
            char nm[4 * VSNAMELENMAX + 8];
            nm[0] = 0;
            int32 r = op[3] == 'n' ? VSgetname(vid[v], nm) : VSgetclass(vid[v], nm);
            if (r == FAIL) printf("%ld fail\n", ln); else printf("%ld ok %s\n", ln, nm[0] ? nm : "-");
        }
        else if (!strcmp(op, "elts")) {
            sscanf(line, "%*s %ld", &v);
            int32 r = VSelts(vid[v]);
            if (r == FAIL) printf("%ld fail\n", ln); else printf("%ld ok %d\n", ln, (int)r);
        }
        else if (!strcmp(op, "fexist")) {
            sscanf(line, "%*s %ld %s", &v, s1);
            VDATA *vs = tracing ? vs_of(vid[v]) : NULL;
            if (vs && vs->wlist.n > 0) {
                printf("MC %ld vsfexist %d:", ln, vs->wlist.n);
                for (int j = 0; j < vs->wlist.n; j++) printf("%s%s", j ? "," : "", vs->wlist.name[j]);
                printf(" %s\n", s1);
            }
            else vs = NULL;
            int r = VSfexist(vid[v], s1);
            if (vs) printf("MR %ld %d\n", ln, r);
            printf(r == FAIL ? "%ld fail\n" : "%ld ok\n", ln);
        }
        else if (!strcmp(op, "sizeof")) {
            sscanf(line, "%*s %ld %s", &v, s1);
            VDATA *vs = tracing ? vs_of(vid[v]) : NULL;
            if (vs && vs->wlist.n > 0) {
                printf("MC %ld vssizeof", ln); pwl(&vs->wlist); printf(" ");
                for (int j = 0; j < vs->wlist.n; j++) printf("%s%s", j ? "," : "", vs->wlist.name[j]);
                printf(" %s\n", s1);
            }
            else vs = NULL;
            int32 r = VSsizeof(vid[v], s1);
            if (vs) printf("MR %ld %d\n", ln, (int)r);
            if (r == FAIL) printf("%ld fail\n", ln); else printf("%ld ok %d\n", ln, (int)r);
        }
        else if (!strcmp(op, "field")) {
            sscanf(line, "%*s %ld %ld", &v, &a);
            int32 t = VFfieldtype(vid[v], (int32)a);
            if (t == FAIL) printf("%ld fail\n", ln);
            else printf("%ld ok %d %d %d %d %s\n", ln, (int)t, (int)VFfieldisize(vid[v], (int32)a), (int)VFfieldesize(vid[v], (int32)a),
                        (int)VFfieldorder(vid[v], (int32)a), VFfieldname(vid[v], (int32)a));
        }
        else if (!strcmp(op, "nfields")) {
            sscanf(line, "%*s %ld", &v);
            int32 r = VFnfields(vid[v]);
            if (r == FAIL) printf("%ld fail\n", ln); else printf("%ld ok %d\n", ln, (int)r);
        }
        else if (!strcmp(op, "blocksize") || !strcmp(op, "numblocks")) {
            sscanf(line, "%*s %ld %ld", &v, &a);
            int r = op[0] == 'b' ? VSsetblocksize(vid[v], (int32)a) : VSsetnumblocks(vid[v], (int32)a);
            printf(r == FAIL ? "%ld fail\n" : "%ld ok\n", ln);
        }
        else if (!strcmp(op, "pack") || !strcmp(op, "unpack")) {
            sscanf(line, "%*s %ld %ld %s %s %s", &v, &a, s1, s2, s3);
            int packing = op[0] == 'p';
            VDATA *vs = vs_of(vid[v]);
            if (!vs || a <= 0) { printf("%ld fail\n", ln); }
            else {
                char *bf = strcmp(s1, "*") ? strdup(s1) : NULL;
                char *ff = strcmp(s2, "*") ? strdup(s2) : NULL;
                /* sizes of the buffer record and of the selected fields, by name lookup (harness bookkeeping only) */
                char *tmp = strdup(bf ? bf : ""), *tmp2 = strdup(ff ? ff : (bf ? bf : ""));
                char *bn[VSFIELDMAX], *fn[VSFIELDMAX];
                int nb = 0, nf = 0;
                long brs = 0, fsz[VSFIELDMAX];
                if (bf) nb = split_names(tmp, bn, VSFIELDMAX);
                else { nb = vs->wlist.n; for (int j = 0; j < nb; j++) bn[j] = vs->wlist.name[j]; }
                if (ff || bf) nf = split_names(tmp2, fn, VSFIELDMAX);
                else { nf = vs->wlist.n; for (int j = 0; j < nf; j++) fn[j] = vs->wlist.name[j]; }
                int bad = 0;
                /* the library cuts field names at FIELDNAMELENMAX characters */
                for (int j = 0; j < nb; j++) if (bf && strlen(bn[j]) > FIELDNAMELENMAX) bn[j][FIELDNAMELENMAX] = 0;
                for (int j = 0; j < nf; j++) if ((ff || bf) && strlen(fn[j]) > FIELDNAMELENMAX) fn[j][FIELDNAMELENMAX] = 0;
                for (int j = 0; j < nb; j++) {
                    int k; for (k = 0; k < vs->wlist.n; k++) if (!strcmp(bn[j], vs->wlist.name[k])) break;
                    if (k == vs->wlist.n) bad = 1; else brs += vs->wlist.esize[k];
                }
                for (int j = 0; j < nf; j++) {
                    int k; for (k = 0; k < vs->wlist.n; k++) if (!strcmp(fn[j], vs->wlist.name[k])) break;
                    if (k == vs->wlist.n) { bad = 1; fsz[j] = 0; } else fsz[j] = vs->wlist.esize[k];
                }
                long bl = a * brs;
                unsigned char *rb = calloc(bl ? bl : 1, 1);
                void *fp[VSFIELDMAX];
                for (int j = 0; j < nf; j++) fp[j] = calloc(a * fsz[j] ? a * fsz[j] : 1, 1);
                if (packing) {
                    const char *p = s3;
                    for (int j = 0; j < nf; j++) {
                        unsigned char *t = malloc(strlen(p) / 2 + 1);
                        long got = unhex(p, t);
                        memcpy(fp[j], t, got < a * fsz[j] ? got : a * fsz[j]);
                        free(t);
                        const char *semi = strchr(p, ';');
                        p = semi ? semi + 1 : p + strlen(p);
                    }
                }
                else {
                    unsigned char *t = malloc(strlen(s3) / 2 + 1);
                    long got = unhex(s3, t);
                    memcpy(rb, t, got < bl ? got : bl);
                    free(t);
                }
                int r = bad ? VSfpack(vid[v], packing ? _HDF_VSPACK : _HDF_VSUNPACK, bf, rb, (int)bl, (int)a, ff, fp)
                            : VSfpack(vid[v], packing ? _HDF_VSPACK : _HDF_VSUNPACK, bf, rb, (int)bl, (int)a, ff, fp);
                if (r == FAIL) printf("%ld fail\n", ln);
                else {
                    printf("%ld ok", ln);
                    if (packing) phex(rb, bl);
                    else for (int j = 0; j < nf; j++) phex(fp[j], a * fsz[j]);
                    printf("\n");
                }
                for (int j = 0; j < nf; j++) free(fp[j]);
                free(rb); free(tmp); free(tmp2); free(bf); free(ff);
            }
        }
        else if (!strcmp(op, "raw")) {
            sscanf(line, "%*s %ld", &v);
            int32 l = vref[v] >= 0 ? Hlength(fid, DFTAG_VS, (uint16)vref[v]) : FAIL;
            if (l == FAIL) printf("%ld fail\n", ln);
            else {
                unsigned char *rb = malloc(l ? l : 1);
                int32 aid = Hstartread(fid, DFTAG_VS, (uint16)vref[v]);
                int32 got = aid == FAIL ? FAIL : (l ? Hread(aid, l, rb) : 0);
                if (aid != FAIL) Hendaccess(aid);
                if (got == FAIL) printf("%ld fail\n", ln);
                else { printf("%ld ok", ln); phex(rb, got); printf("\n"); }
                free(rb);
            }
        }
        else printf("%ld skip\n", ln);
        free(s1); free(s2); free(s3);
        fflush(stdout);
    }
    for (int i = 0; i < NV; i++) if (vid[i] != FAIL) VSdetach(vid[i]);
    if (fid != FAIL) { Vend(fid); Hclose(fid); }
    unlink(fname);
}
